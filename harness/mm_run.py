"""
Run aas-core-codegen in-process on meta-model source text (see ``harness.mm`` for the overview).

Everything here takes *source text* (what ``harness.mm_model.render`` produces, or any other
text) and never raises: exceptions escaping the project are captured and canonicalised to
``crash:<ExceptionType>`` (AGENTS.md, correspondence rules).

The repository under test is ``harness.core.REPO`` (env ``VERIF_REPO``); it is put first on
``sys.path`` on import of this module.
"""
from __future__ import annotations

import atexit
import contextlib
import hashlib
import importlib
import io
import json
import os
import pathlib
import re
import shutil
import sys
import tempfile
import time
import traceback
from dataclasses import dataclass, field
from typing import Any, Dict, Iterator, List, Mapping, Optional, Tuple

REPO = pathlib.Path(os.environ.get("VERIF_REPO", "/repo"))
if str(REPO) not in sys.path[:1]:
    sys.path.insert(0, str(REPO))

TARGETS = ("cpp", "csharp", "golang", "java", "jsonschema", "python", "typescript", "xsd")

# --------------------------------------------------------------------------- scratch handling

_SCRATCH_ROOT: Optional[pathlib.Path] = None
_SCRATCH_PID: Optional[int] = None
_COUNTER = 0


def scratch_root() -> pathlib.Path:
    """
    A per-process scratch directory outside /repo and /verif (under env ``VERIF_SCRATCH`` or the
    system temp dir), removed at interpreter exit.  A forked child gets its own directory inside
    the parent's one (so that the parent's clean-up also removes what pool workers leave behind).
    """
    global _SCRATCH_ROOT, _SCRATCH_PID
    pid = os.getpid()
    if _SCRATCH_ROOT is None or _SCRATCH_PID != pid:
        if _SCRATCH_ROOT is not None and _SCRATCH_ROOT.exists():
            _SCRATCH_ROOT = pathlib.Path(tempfile.mkdtemp(prefix=f"child{pid}-", dir=str(_SCRATCH_ROOT)))
        else:
            base = os.environ.get("VERIF_SCRATCH")
            if base:
                pathlib.Path(base).mkdir(parents=True, exist_ok=True)
            _SCRATCH_ROOT = pathlib.Path(tempfile.mkdtemp(prefix="aasv-mm-", dir=base or None))
            atexit.register(shutil.rmtree, str(_SCRATCH_ROOT), True)
        _SCRATCH_PID = pid
    return _SCRATCH_ROOT


def new_scratch(prefix: str = "s") -> pathlib.Path:
    """A fresh empty sub-directory of ``scratch_root()``."""
    global _COUNTER
    _COUNTER += 1
    p = scratch_root() / f"{prefix}{_COUNTER:06d}"
    p.mkdir(parents=True)
    return p


def crash_name(e: BaseException) -> str:
    return "crash:" + type(e).__name__


@contextlib.contextmanager
def redirected_tempdir(path: pathlib.Path) -> Iterator[None]:
    """
    Point ``tempfile.gettempdir()`` at ``path`` for the duration of the block.

    ``main.execute`` always caches the parsed model (``Parameters.cache_model`` is hard-wired to
    True on the pinned tree) under ``<tempdir>/aas-core-codegen-<version>/``; without the
    redirection every run litters /tmp and later runs silently read stale pickles.
    """
    old = tempfile.tempdir
    tempfile.tempdir = str(path)
    try:
        yield
    finally:
        tempfile.tempdir = old


# --------------------------------------------------------------------------- load


class Loaded:
    """
    Result of ``load``.  Unpacks like the 2-tuple ``(symbol_table, error_text)``::

        symbol_table, error = load(text)

    Extra attributes: ``atok`` (the ``asttokens.ASTTokens`` on success), ``crash``
    (``"crash:<Type>"`` if the front end raised, else None), ``traceback`` (text), ``seconds``.
    On a crash both ``symbol_table`` and ``error`` are None.
    """

    def __init__(self, symbol_table: Any, error: Optional[str], atok: Any = None,
                 crash: Optional[str] = None, tb: Optional[str] = None, seconds: float = 0.0) -> None:
        self.symbol_table = symbol_table
        self.error = error
        self.atok = atok
        self.crash = crash
        self.traceback = tb
        self.seconds = seconds

    def __iter__(self) -> Iterator[Any]:
        yield self.symbol_table
        yield self.error

    @property
    def ok(self) -> bool:
        return self.symbol_table is not None

    def __repr__(self) -> str:
        if self.crash:
            return f"Loaded({self.crash})"
        return "Loaded(ok)" if self.ok else f"Loaded(error={self.error!r})"


def load(source_text: str, scratch_dir: Optional[pathlib.Path] = None) -> Loaded:
    """
    Run the real front end (``aas_core_codegen.run.load_model``: parse, import check, symbol
    table, intermediate translation) on ``source_text``.

    Returns ``Loaded`` == ``(intermediate.SymbolTable | None, error_text | None)``; never raises.
    The text is written as UTF-8 with ``surrogatepass`` semantics avoided: text that cannot be
    encoded yields ``crash:UnicodeEncodeError`` (it could never have been a file).
    """
    t0 = time.time()
    from aas_core_codegen import run

    d = scratch_dir if scratch_dir is not None else new_scratch("load")
    model_path = pathlib.Path(d) / "meta_model.py"
    try:
        model_path.write_text(source_text, encoding="utf-8")
    except UnicodeEncodeError as e:
        return Loaded(None, None, crash=crash_name(e), tb="(the text cannot be encoded as UTF-8; harness side)", seconds=time.time() - t0)
    try:  # only the project's code runs inside this guard: harness bugs must surface as such
        with redirected_tempdir(pathlib.Path(d)):
            pair, error = run.load_model(model_path=model_path, cache_model=False)
    except BaseException as e:  # noqa: B902 - the whole point
        if isinstance(e, (KeyboardInterrupt, SystemExit)):
            raise
        return Loaded(None, None, crash=crash_name(e), tb=traceback.format_exc(), seconds=time.time() - t0)
    if pair is not None:
        return Loaded(pair[0], None, atok=pair[1], seconds=time.time() - t0)
    return Loaded(None, error, seconds=time.time() - t0)


# --------------------------------------------------------------------------- snippets

_PY_RETURN_DEFAULT = {"bool": "True", "int": "0", "float": "0.0", "str": '""', "bytearray": "bytearray()"}


def _python_dummy_signature(args: Any, method: bool = False) -> str:
    from aas_core_codegen.python import naming as python_naming

    names = ["self"] if method else []
    for a in args:
        if a.name != "self":
            names.append(str(python_naming.argument_name(a.name)))
    return ", ".join(names)


def _python_dummy_return(returns: Any) -> str:
    from aas_core_codegen import intermediate

    if returns is None:
        return "return None"
    if isinstance(returns, intermediate.PrimitiveTypeAnnotation):
        return "return " + _PY_RETURN_DEFAULT.get(returns.a_type.value, "None")
    if isinstance(returns, intermediate.OptionalTypeAnnotation):
        return "return None"
    if isinstance(returns, intermediate.ListTypeAnnotation):
        return "return []"
    return "raise NotImplementedError()"


def snippets_for(target: str, symbol_table: Any, module_name: str = "aasv_dummy") -> Dict[str, str]:
    """
    A minimal snippet set (``relative path -> text``) with which ``target`` generates an
    arbitrary accepted model: the mandatory base files (namespace / package / module name /
    repo URL, JSON schema base, XSD root element) and one dummy per implementation-specific
    class, constructor, method and verification function, under every key the generators of
    that target look up (the key patterns are the ``ImplementationKey(...)`` call sites of
    ``aas_core_codegen/<target>/**``).

    For the ``python`` target the dummies of implementation-specific *methods* and
    *verification functions* are real Python (``def ...: return <default of return type>``) so
    that the generated SDK imports; implementation-specific *classes* get a minimal class
    without behaviour (their (de)serialization and verification dummies are real definitions of the names the
    generated modules refer to -- ``<cls>_from_jsonable``, ``_read_<cls>_as_sequence`` / ``_as_element``,
    ``transform_<cls>`` -- and raise ``NotImplementedError``).
    ``symbol_table`` may be None (rejected model): only the base files are returned.
    """
    assert target in TARGETS, target
    from aas_core_codegen import intermediate, naming

    out: Dict[str, str] = {}

    classes = list(symbol_table.classes) if symbol_table is not None else []
    concrete = [c for c in classes if isinstance(c, intermediate.ConcreteClass)]
    root = concrete[0] if concrete else (classes[0] if classes else None)
    xml_namespace = symbol_table.meta_model.xml_namespace if symbol_table is not None else "https://example.com/x"

    # ---- base files
    if target == "cpp":
        out["namespace.txt"] = "aasv::dummy"
    elif target == "csharp":
        out["namespace.txt"] = "Aasv.Dummy"
    elif target == "golang":
        out["repo_url.txt"] = "example.com/aasv/dummy"
    elif target == "java":
        out["package.txt"] = "aasv.dummy"
    elif target == "python":
        out["qualified_module_name.txt"] = module_name
    elif target == "typescript":
        out["package_identifier.txt"] = "@aasv/dummy"
        out["package_documentation.txt"] = "Provide a dummy SDK."
    elif target == "jsonschema":
        base: Dict[str, Any] = {"$schema": "https://json-schema.org/draft/2019-09/schema", "title": "AasvDummy", "type": "object"}
        if root is not None:
            base["allOf"] = [{"$ref": "#/definitions/" + naming.json_model_type(root.name)}]
        out["schema_base.json"] = json.dumps(base, indent=2)
    elif target == "xsd":
        element = ""
        if root is not None:
            from aas_core_codegen.xsd import naming as xsd_naming

            element = f'    <xs:element name="{naming.xml_class_name(root.name)}" type="{xsd_naming.type_name(root.name)}" />\n'
        out["root_element.xml"] = (
            '<xs:schema\n        xmlns:xs="http://www.w3.org/2001/XMLSchema"\n'
            f'        xmlns="{xml_namespace}"\n        elementFormDefault="qualified"\n'
            f'        targetNamespace="{xml_namespace}"\n>\n{element}</xs:schema>'
        )

    if symbol_table is None:
        return out

    ext = {"cpp": "cpp", "csharp": "cs", "golang": "go", "java": "java", "python": "py", "typescript": "ts"}.get(target)
    dummy = "// DUMMY IMPLEMENTATION" if target != "python" else "# DUMMY IMPLEMENTATION"

    # ---- implementation-specific classes and constructors / methods
    for cls in classes:
        n = cls.name
        if cls.is_implementation_specific:
            if target == "jsonschema":
                out[f"{n}.json"] = json.dumps({naming.json_model_type(n): {"type": "object"}})
            elif target == "xsd":
                from aas_core_codegen.xsd import naming as xsd_naming

                out[f"{n}.xml"] = f'<xs:complexType xmlns:xs="http://www.w3.org/2001/XMLSchema" name="{xsd_naming.type_name(n)}" />'
            elif target == "python":
                from aas_core_codegen.python import naming as python_naming

                pyn = python_naming.class_name(n)
                out[f"Types/{n}.py"] = f"class {pyn}(Class):\n    pass"
                out[f"Jsonization/{n}_from_jsonable.py"] = (
                    f"def {python_naming.function_name(naming.Identifier(n + '_from_jsonable'))}(jsonable: Jsonable) -> aas_types.{pyn}:\n"
                    f"    raise NotImplementedError()"
                )
                # what the generated xmlization.py refers to for every concrete class: the two readers
                seq = python_naming.function_name(naming.Identifier(f"_read_{n}_as_sequence"))
                elt = python_naming.function_name(naming.Identifier(f"_read_{n}_as_element"))
                out[f"Xmlization/read_{n}.py"] = "\n\n\n".join(
                    f"def {fn}(\n    element: Element,\n    iterator: Iterator[Tuple[str, Element]]\n) -> aas_types.{pyn}:\n"
                    f"    raise NotImplementedError()"
                    for fn in (seq, elt)
                )
                # a method of the generated ``_Transformer`` (the generator indents the snippet)
                out[f"Verification/transform_{n}.py"] = (
                    f"def {python_naming.method_name(naming.Identifier('transform_' + n))}(\n    self,\n    that: aas_types.{pyn}\n"
                    f") -> Iterator[Error]:\n    raise NotImplementedError()"
                )
            elif target == "csharp":
                for k in (f"Types/{n}.cs", f"Copying/ShallowCopier/transform_{n}.cs", f"Copying/DeepCopier/transform_{n}.cs",
                          f"Enhancing/Wrap/{n}.cs", f"Enhancing/Enhanced/{n}.cs",
                          f"Jsonization/DeserializeImplementation/{n}_from.cs", f"Jsonization/Transformer/transform_{n}.cs",
                          f"Verification/transform_{n}.cs",
                          f"Xmlization/DeserializeImplementation/{n}_from_element.cs",
                          f"Xmlization/DeserializeImplementation/{n}_from_sequence.cs",
                          f"Xmlization/VisitorWithWriter/visit_{n}.cs", f"Xmlization/VisitorWithWriter/{n}_to_sequence.cs"):
                    out[k] = dummy
            elif target == "java":
                for k in (f"Types/{n}.java", f"Copying/ShallowCopier/transform_{n}.java", f"Copying/DeepCopier/transform_{n}.java",
                          f"Enhancing/Wrap/{n}.java", f"Enhancing/Enhanced/{n}.java",
                          f"Jsonization/DeserializeImplementation/{n}_from.java", f"Jsonization/Transformer/transform_{n}.java",
                          f"Verification/transform_{n}.java",
                          f"Xmlization/DeserializeImplementation/{n}_from_element.java",
                          f"Xmlization/DeserializeImplementation/{n}_from_sequence.java",
                          f"Xmlization/VisitorWithWriter/visit_{n}.java", f"Xmlization/VisitorWithWriter/{n}_to_sequence.java"):
                    out[k] = dummy
            elif target == "golang":
                for k in (f"Types/{n}.go", f"Enhancing/{n}.go", f"Jsonization/{n}_from_map.go", f"Jsonization/{n}_to_map.go",
                          f"Xmlization/read_{n}_as_sequence.go", f"Xmlization/write_{n}_as_sequence.go"):
                    out[k] = dummy
            elif target == "typescript":
                for k in (f"Types/{n}.ts", f"Jsonization/{n}_from_jsonable.ts", f"Verification/transform_{n}.ts"):
                    out[k] = dummy
            elif target == "cpp":
                for k in (f"jsonization/deserialize_{n}.cpp", f"jsonization/serialize_{n}.cpp",
                          f"xmlization/{n}_from_sequence.cpp", f"xmlization/serialize_{n}_as_sequence.cpp"):
                    out[k] = dummy
            continue
        if ext is None:
            continue
        if cls.constructor.is_implementation_specific:
            out[f"Types/{n}/{n}.{ext}"] = dummy
            if target == "typescript":
                # NOTE: the TypeScript generator used to look the constructor up under a ``.py`` key (sic; repaired by the
                # commit "fix: look up the implementation-specific constructor under a .ts key"); both keys are supplied so that
                # the harness works on either tree.
                out[f"Types/{n}/{n}.py"] = dummy
        for method in cls.methods:
            if not isinstance(method, intermediate.ImplementationSpecificMethod):
                continue
            if method.specified_for is not cls:
                continue
            if target == "cpp":
                out[f"types/{n}/{method.name}.body.cpp"] = dummy
            elif target == "python":
                from aas_core_codegen.python import naming as python_naming

                out[f"Types/{n}/{method.name}.py"] = (
                    f"def {python_naming.method_name(method.name)}({_python_dummy_signature(method.arguments, method=True)}):  # type: ignore\n"
                    f"    {_python_dummy_return(method.returns)}"
                )
            else:
                out[f"Types/{n}/{method.name}.{ext}"] = dummy

    # ---- implementation-specific verification functions
    if ext is not None:
        for fn in symbol_table.verification_functions:
            if not isinstance(fn, intermediate.ImplementationSpecificVerification):
                continue
            if target == "cpp":
                out[f"verification/{fn.name}.hpp"] = dummy
                out[f"verification/{fn.name}.cpp"] = dummy
            elif target == "python":
                from aas_core_codegen.python import naming as python_naming

                out[f"Verification/{fn.name}.py"] = (
                    f"def {python_naming.function_name(fn.name)}({_python_dummy_signature(fn.arguments)}):  # type: ignore\n"
                    f"    {_python_dummy_return(fn.returns)}"
                )
            else:
                out[f"Verification/{fn.name}.{ext}"] = dummy
    return out


_MISSING_KEY_RE = re.compile(r"missing[^\n]*?:\s*([A-Za-z_][A-Za-z_0-9./]*\.[A-Za-z]+)\s*$", re.M)


def missing_snippet_keys(stderr_text: str) -> List[str]:
    """Snippet keys named by "... is missing ...: <key>" diagnostics of the generators."""
    return sorted(set(_MISSING_KEY_RE.findall(stderr_text)))


# --------------------------------------------------------------------------- generate


@dataclass
class Result:
    """
    Outcome of one in-process run of ``main.execute`` / ``smoke.main.execute``.

    ``rc`` is None when the run raised; then ``exception`` is ``crash:<Type>`` and
    ``traceback`` holds the text.  ``snippets`` is the snippet set actually used.
    """

    rc: Optional[int]
    stdout: str
    stderr: str
    exception: Optional[str] = None
    traceback: Optional[str] = None
    seconds: float = 0.0
    snippets: Dict[str, str] = field(default_factory=dict)
    out_dir: Optional[pathlib.Path] = None

    @property
    def ok(self) -> bool:
        return self.rc == 0 and self.exception is None


def _write_snippets(directory: pathlib.Path, snippets: Mapping[str, str]) -> None:
    directory.mkdir(parents=True, exist_ok=True)
    for rel, text in snippets.items():
        p = directory / rel
        p.parent.mkdir(parents=True, exist_ok=True)
        p.write_text(text, encoding="utf-8")


def generate(
    target: str,
    source_text: str,
    out_dir: pathlib.Path,
    snippets: Optional[Mapping[str, str]] = None,
    *,
    symbol_table: Any = None,
    module_name: str = "aasv_dummy",
    cache_dir: Optional[pathlib.Path] = None,
    discover: bool = True,
) -> Result:
    """
    Call ``aas_core_codegen.main.execute`` in-process for ``target`` with captured streams.

    * ``snippets=None``: the set from ``snippets_for`` is used (the model is loaded once for
      that, or pass an already loaded ``symbol_table`` to save the time); if ``discover`` and the
      run fails only because snippets are missing, the named keys are added as dummies and the
      run is repeated (at most 3 times) — this keeps the harness alive when the project adds a
      new snippet key.
    * ``cache_dir``: where ``tempfile.gettempdir()`` points during the call (the project pickles
      the parsed model there).  Default: a fresh scratch directory, i.e. no cache hit.  Pass the
      same directory for the 8 targets of one model to parse it only once (as the CLI would).
    * never raises; exceptions are reported in ``Result.exception`` as ``crash:<Type>``.
    """
    assert target in TARGETS, target
    t0 = time.time()
    work = new_scratch("gen")
    import aas_core_codegen.main as main

    model_path = work / "meta_model.py"
    model_path.write_text(source_text, encoding="utf-8")
    used: Dict[str, str]
    if snippets is None:
        if symbol_table is None:
            symbol_table = load(source_text, scratch_dir=work).symbol_table
        used = snippets_for(target, symbol_table, module_name=module_name)
    else:
        used = dict(snippets)
        discover = False
    tmp = pathlib.Path(cache_dir) if cache_dir is not None else work / "tmp"
    tmp.mkdir(parents=True, exist_ok=True)
    out_dir = pathlib.Path(out_dir)
    target_enum = main.Target(target)
    attempt = 0
    while True:
        snippets_dir = work / f"snippets{attempt}"
        _write_snippets(snippets_dir, used)
        stdout, stderr = io.StringIO(), io.StringIO()
        try:  # only the project's code runs inside this guard
            with redirected_tempdir(tmp):
                rc = main.execute(
                    main.Parameters(model_path=model_path, target=target_enum, snippets_dir=snippets_dir, output_dir=out_dir),
                    stdout=stdout,
                    stderr=stderr,
                )
        except BaseException as e:  # noqa: B902
            if isinstance(e, (KeyboardInterrupt, SystemExit)):
                raise
            return Result(None, stdout.getvalue(), stderr.getvalue(), exception=crash_name(e), traceback=traceback.format_exc(),
                          seconds=time.time() - t0, snippets=used, out_dir=out_dir)
        if rc != 0 and discover and attempt < 3:
            missing = [k for k in missing_snippet_keys(stderr.getvalue()) if k not in used]
            if missing:
                for k in missing:
                    used[k] = "// DUMMY IMPLEMENTATION"
                attempt += 1
                continue
        return Result(rc, stdout.getvalue(), stderr.getvalue(), seconds=time.time() - t0, snippets=used, out_dir=out_dir)


def smoke(source_text: str) -> Result:
    """Run ``aas_core_codegen.smoke.main.execute`` in-process on the text; never raises."""
    t0 = time.time()
    work = new_scratch("smoke")
    import aas_core_codegen.smoke.main as smoke_main

    model_path = work / "meta_model.py"
    model_path.write_text(source_text, encoding="utf-8")
    stderr = io.StringIO()
    try:  # only the project's code runs inside this guard
        with redirected_tempdir(work):
            rc = smoke_main.execute(model_path=model_path, stderr=stderr)
    except BaseException as e:  # noqa: B902
        if isinstance(e, (KeyboardInterrupt, SystemExit)):
            raise
        return Result(None, "", stderr.getvalue(), exception=crash_name(e), traceback=traceback.format_exc(), seconds=time.time() - t0)
    return Result(rc, "", stderr.getvalue(), seconds=time.time() - t0)


# --------------------------------------------------------------------------- Python SDK

SDK_MODULES = ("common", "types", "constants", "stringification", "verification", "jsonization", "xmlization")


class SDK:
    """
    A generated Python SDK imported from a scratch directory under a unique module name.

    Attributes: ``types``, ``verification``, ``jsonization``, ``xmlization``,
    ``stringification``, ``constants``, ``common`` (the imported modules), ``module_name``,
    ``root`` (directory put on ``sys.path``), ``package_dir``, ``symbol_table``, ``result``
    (the ``Result`` of the generation).  ``error`` is None on success, else a text saying which
    stage failed (generation rc/exception or import exception); the module attributes are then
    missing.  Use as a context manager or call ``close()``: the modules are purged from
    ``sys.modules`` and the path entry removed.
    """

    def __init__(self) -> None:
        self.module_name = ""
        self.root: Optional[pathlib.Path] = None
        self.package_dir: Optional[pathlib.Path] = None
        self.symbol_table: Any = None
        self.result: Optional[Result] = None
        self.error: Optional[str] = None
        self.seconds = 0.0
        self._closed = False

    @property
    def ok(self) -> bool:
        return self.error is None

    def close(self) -> None:
        if self._closed:
            return
        self._closed = True
        for name in [n for n in sys.modules if n == self.module_name or n.startswith(self.module_name + ".")]:
            del sys.modules[name]
        if self.root is not None:
            with contextlib.suppress(ValueError):
                sys.path.remove(str(self.root))
        importlib.invalidate_caches()

    def __enter__(self) -> "SDK":
        return self

    def __exit__(self, *exc: Any) -> None:
        self.close()

    # ---- conveniences shared by many properties

    def class_of(self, meta_name: str) -> Any:
        """The generated Python class for the meta-model class ``meta_name``."""
        from aas_core_codegen.python import naming as python_naming

        return getattr(self.types, python_naming.class_name(meta_name))  # type: ignore[attr-defined]

    def enum_of(self, meta_name: str) -> Any:
        """The generated Python ``enum.Enum`` for the meta-model enumeration ``meta_name``."""
        from aas_core_codegen.python import naming as python_naming

        return getattr(self.types, python_naming.enum_name(meta_name))  # type: ignore[attr-defined]

    def from_jsonable(self, meta_name: str) -> Any:
        """``jsonization.<class>_from_jsonable`` for the meta-model class ``meta_name``."""
        from aas_core_codegen.common import Identifier
        from aas_core_codegen.python import naming as python_naming

        return getattr(self.jsonization, python_naming.function_name(Identifier(f"{meta_name}_from_jsonable")))  # type: ignore[attr-defined]

    def from_xml_str(self, meta_name: str) -> Any:
        """``xmlization.<class>_from_str`` for the meta-model class ``meta_name``."""
        from aas_core_codegen.common import Identifier
        from aas_core_codegen.python import naming as python_naming

        return getattr(self.xmlization, python_naming.function_name(Identifier(f"{meta_name}_from_str")))  # type: ignore[attr-defined]

    def to_jsonable(self, instance: Any) -> Any:
        return self.jsonization.to_jsonable(instance)  # type: ignore[attr-defined]

    def to_xml_str(self, instance: Any) -> str:
        return self.xmlization.to_str(instance)  # type: ignore[attr-defined]


def load_python_sdk(source_text: str, scratch_dir: Optional[pathlib.Path] = None) -> SDK:
    """
    Generate the ``python`` target for ``source_text`` under a UNIQUE qualified module name
    (``aasv_<sha1 prefix>_<counter>``; the fixture name ``dummy`` is shadowed by an installed
    distribution), add the ``__init__.py`` the generator does not write, import the seven SDK
    modules through ``importlib`` from the scratch directory.  Never raises: check ``sdk.error``.
    """
    global _COUNTER
    t0 = time.time()
    sdk = SDK()
    root = pathlib.Path(scratch_dir) if scratch_dir is not None else new_scratch("sdk")
    _COUNTER += 1
    sdk.module_name = "aasv_" + hashlib.sha1(source_text.encode("utf-8", "surrogatepass")).hexdigest()[:10] + f"_{_COUNTER}"
    sdk.root = root
    try:
        loaded = load(source_text)
        sdk.symbol_table = loaded.symbol_table
        if not loaded.ok:
            sdk.error = "front end: " + (loaded.crash or loaded.error or "?")
            return sdk
        res = generate("python", source_text, root, symbol_table=loaded.symbol_table, module_name=sdk.module_name)
        sdk.result = res
        if not res.ok:
            sdk.error = f"generation: rc={res.rc} exception={res.exception} stderr={res.stderr[:2000]}"
            return sdk
        sdk.package_dir = root / sdk.module_name
        (sdk.package_dir / "__init__.py").write_text("", encoding="utf-8")
        sys.path.insert(0, str(root))
        importlib.invalidate_caches()
        for mod in SDK_MODULES:
            setattr(sdk, mod, importlib.import_module(f"{sdk.module_name}.{mod}"))
    except BaseException as e:  # noqa: B902
        if isinstance(e, KeyboardInterrupt):
            raise
        sdk.error = f"import: {crash_name(e)}: {e}\n{traceback.format_exc()}"
        sdk.close()
    finally:
        sdk.seconds = time.time() - t0
    return sdk


# --------------------------------------------------------------------------- expression round trip


def expr_from_project_tree(node: Any) -> Any:
    """
    Convert a node of ``aas_core_codegen.parse.tree`` into the corresponding
    ``harness.mm_model`` expression / statement (the inverse direction of ``render_expr``
    followed by the project's parser).  Used to check that the renderer is faithful and by
    properties that compare the parsed invariant with the abstract one.
    """
    from aas_core_codegen.parse import tree as T

    from harness import mm_model as M

    go = expr_from_project_tree
    ops = {T.Comparator.LT: "<", T.Comparator.LE: "<=", T.Comparator.GT: ">", T.Comparator.GE: ">=", T.Comparator.EQ: "==", T.Comparator.NE: "!="}
    if isinstance(node, T.Member):
        return M.Member(go(node.instance), str(node.name))
    if isinstance(node, T.Index):
        return M.Index(go(node.collection), go(node.index))
    if isinstance(node, T.Comparison):
        return M.Comparison(go(node.left), ops[node.op], go(node.right))
    if isinstance(node, T.IsIn):
        return M.IsIn(go(node.member), go(node.container))
    if isinstance(node, T.Implication):
        return M.Implication(go(node.antecedent), go(node.consequent))
    if isinstance(node, T.MethodCall):
        return M.MethodCall(go(node.member), tuple(go(a) for a in node.args))
    if isinstance(node, T.FunctionCall):
        return M.FunctionCall(str(node.name.identifier), tuple(go(a) for a in node.args))
    if isinstance(node, T.Name):
        return M.Name(str(node.identifier))
    if isinstance(node, T.Constant):
        return M.Constant(node.value)
    if isinstance(node, T.IsNone):
        return M.IsNone(go(node.value))
    if isinstance(node, T.IsNotNone):
        return M.IsNotNone(go(node.value))
    if isinstance(node, T.Not):
        return M.Not(go(node.operand))
    if isinstance(node, T.And):
        return M.And(tuple(go(v) for v in node.values))
    if isinstance(node, T.Or):
        return M.Or(tuple(go(v) for v in node.values))
    if isinstance(node, T.Add):
        return M.Add(go(node.left), go(node.right))
    if isinstance(node, T.Sub):
        return M.Sub(go(node.left), go(node.right))
    if isinstance(node, T.JoinedStr):
        return M.JoinedStr(tuple(v if isinstance(v, str) else go(v.value) for v in node.values))
    if isinstance(node, T.ForEach):
        return M.ForEach(str(node.variable.identifier), go(node.iteration))
    if isinstance(node, T.ForRange):
        return M.ForRange(str(node.variable.identifier), go(node.start), go(node.end))
    if isinstance(node, T.Any):
        return M.Any_(go(node.generator), go(node.condition))
    if isinstance(node, T.All):
        return M.All(go(node.generator), go(node.condition))
    if isinstance(node, T.Assignment):
        assert isinstance(node.target, T.Name)
        return M.Assign(str(node.target.identifier), go(node.value))
    if isinstance(node, T.Return):
        return M.Return(go(node.value))
    raise TypeError(f"unexpected project tree node: {node!r}")


def parse_expr(text: str) -> Any:
    """
    Parse expression source text with CPython's ``ast`` and the project's rule chain
    (``parse._rules.ast_node_to_our_node``) and return it as a ``harness.mm_model`` expression;
    raises ``ValueError`` with the project's error message if the rules reject it.
    """
    import ast

    from aas_core_codegen.parse import _rules

    node, error = _rules.ast_node_to_our_node(ast.parse(text, mode="eval").body)
    if error is not None:
        raise ValueError(str(error.message))
    return expr_from_project_tree(node)
