"""
C08, evaluation order: CPython's own order of operations against ``Expr.trace`` (``Model/EvalOrder.lean``).

``instrument(node)`` rewrites a source expression so that every operation the Lean trace has an event for reports itself
(kind and result) the moment CPython has performed it: name loads, attribute accesses, subscriptions, comparisons, ``in``,
``+`` / ``-``, calls of named functions (the callee load and the call), the start of the iteration of an ``any`` / ``all``
(``iter`` of the iterable, or the ``range(a, b)`` call) and the formatting of f-string fields.  An operation that raises
reports nothing, so on an exception the CPython log must be the Lean trace without its last event, and that last event
must have the exception as its outcome; otherwise the two sequences must be equal (kinds and values).
"""
from __future__ import annotations

import ast
from typing import Any, Callable, Dict, List, Tuple

CMP_KIND = {ast.Lt: "cmp", ast.LtE: "cmp", ast.Gt: "cmp", ast.GtE: "cmp", ast.Eq: "cmp", ast.NotEq: "cmp", ast.In: "isin",
            ast.NotIn: "notin", ast.Is: None, ast.IsNot: None}


def _call(fn: str, *args: ast.AST) -> ast.AST:
    return ast.Call(func=ast.Name(id=fn, ctx=ast.Load()), args=list(args), keywords=[])


class Unsupported(Exception):
    pass


class SetIteration(Unsupported):
    """the expression iterates over a set with several elements: no order to compare"""


class _Instr(ast.NodeTransformer):
    def visit_Name(self, node: ast.Name) -> ast.AST:
        if isinstance(node.ctx, ast.Load):
            return _call("__ev", ast.Constant("load"), node)
        return node

    def visit_Attribute(self, node: ast.Attribute) -> ast.AST:
        return _call("__ev", ast.Constant("getattr"), ast.Attribute(value=self.visit(node.value), attr=node.attr, ctx=ast.Load()))

    def visit_Subscript(self, node: ast.Subscript) -> ast.AST:
        return _call("__ev", ast.Constant("index"), ast.Subscript(value=self.visit(node.value), slice=self.visit(node.slice), ctx=ast.Load()))

    def visit_Compare(self, node: ast.Compare) -> ast.AST:
        if len(node.ops) != 1:
            raise Unsupported("chain")
        kind = CMP_KIND[type(node.ops[0])]
        new = ast.Compare(left=self.visit(node.left), ops=node.ops, comparators=[self.visit(node.comparators[0])])
        if kind == "notin":
            raise Unsupported("not in")
        return new if kind is None else _call("__ev", ast.Constant(kind), new)

    def visit_BinOp(self, node: ast.BinOp) -> ast.AST:
        if not isinstance(node.op, (ast.Add, ast.Sub)):
            raise Unsupported("operator")
        return _call("__ev", ast.Constant("arith"), ast.BinOp(left=self.visit(node.left), op=node.op, right=self.visit(node.right)))

    def visit_UnaryOp(self, node: ast.UnaryOp) -> ast.AST:
        if isinstance(node.op, ast.USub):
            if not isinstance(node.operand, ast.Constant):
                raise Unsupported("unary minus of a non-constant")
            return node
        return ast.UnaryOp(op=node.op, operand=self.visit(node.operand))

    def visit_Call(self, node: ast.Call) -> ast.AST:
        f = node.func
        if node.keywords or not isinstance(f, ast.Name):
            raise Unsupported("callee")
        if f.id in ("any", "all"):
            if len(node.args) != 1 or not isinstance(node.args[0], ast.GeneratorExp) or len(node.args[0].generators) != 1:
                raise Unsupported("any/all")
            g = node.args[0]
            c = g.generators[0]
            if c.ifs or c.is_async:
                raise Unsupported("comprehension")
            it = c.iter
            if isinstance(it, ast.Call) and isinstance(it.func, ast.Name) and it.func.id == "range" and len(it.args) == 2 and not it.keywords:
                new_it = _call("__range", self.visit(it.args[0]), self.visit(it.args[1]))
            else:
                new_it = _call("__iter", self.visit(it))
            gen = ast.GeneratorExp(elt=self.visit(g.elt), generators=[ast.comprehension(target=c.target, iter=new_it, ifs=[], is_async=0)])
            return ast.Call(func=f, args=[gen], keywords=[])
        return _call("__callfn", _call("__loadfn", f), *[self.visit(a) for a in node.args])

    def visit_JoinedStr(self, node: ast.JoinedStr) -> ast.AST:
        values: List[ast.AST] = []
        for v in node.values:
            if isinstance(v, ast.FormattedValue):
                if v.conversion != -1 or v.format_spec is not None:
                    raise Unsupported("conversion")
                values.append(ast.FormattedValue(value=_call("__fmt", self.visit(v.value)), conversion=-1, format_spec=None))
            else:
                values.append(v)
        return ast.JoinedStr(values=values)

    def generic_visit(self, node: ast.AST) -> ast.AST:
        if isinstance(node, (ast.BoolOp, ast.Constant, ast.Load, ast.And, ast.Or, ast.Not)):
            return super().generic_visit(node)
        raise Unsupported(type(node).__name__)


def run_traced(node: ast.AST, env: Dict[str, Any]) -> Tuple[Any, List[Tuple[str, Any]]]:
    """Evaluate the instrumented expression: (value or exception, log of the operations performed)."""
    log: List[Tuple[str, Any]] = []
    none = object()

    def ev(kind: str, v: Any) -> Any:
        log.append((kind, v))
        return v

    def loadfn(f: Any) -> Any:
        log.append(("loadfn", none))
        return f

    def callfn(f: Any, *args: Any) -> Any:
        r = f(*args)
        log.append(("call", r))
        return r

    def it(v: Any) -> Any:
        r = iter(v)
        if isinstance(v, (set, frozenset)) and len(v) > 1:
            raise SetIteration()  # the order of a set is CPython's hash order, the model's is the order on the wire
        log.append(("iter", none))
        return r

    def rng(a: Any, b: Any) -> Any:
        r = range(a, b)
        log.append(("range", none))
        return r

    def fmt(v: Any) -> Any:
        log.append(("fmt", format(v, "")))
        return v

    tree = ast.fix_missing_locations(ast.Expression(_Instr().visit(node)))
    g = dict(env)
    g.update({"__ev": ev, "__loadfn": loadfn, "__callfn": callfn, "__iter": it, "__range": rng, "__fmt": fmt})
    try:
        val = eval(compile(tree, "<traced>", "eval"), g)  # noqa: S307
    except SetIteration:
        raise
    except BaseException as e:  # noqa: B902
        if isinstance(e, KeyboardInterrupt):
            raise
        val = e
    return val, [(k, None if v is none else v) for k, v in log]


def compare(py_val: Any, log: List[Tuple[str, Any]], model: str, same_outcome: Callable[[Any, str], bool], exc_kind: Callable[[Any], str]) -> str:
    """'' when the CPython log and the Lean trace (``encTrace``) tell the same story, else what differs."""
    evs = [] if model == "-" else [tuple(e.split("|", 1)) for e in model.split(" ")]
    raised = isinstance(py_val, BaseException)
    if raised:
        if not evs:
            return "CPython raises, the model has no operation that could"
        last = evs[-1]
        evs = evs[:-1]
        if last[1] != exc_kind(py_val):
            return f"the last operation of the model gives {last[1]}, CPython raises {type(py_val).__name__}"
    if len(evs) != len(log):
        return f"{len(log)} operations performed by CPython, {len(evs)} in the model"
    for i, ((mk, mo), (pk, pv)) in enumerate(zip(evs, log)):
        if mk != pk:
            return f"operation {i}: CPython {pk}, model {mk}"
        if pv is None and pk in ("loadfn", "iter", "range"):
            if mo != "ok":
                return f"operation {i} ({pk}): succeeded in CPython, model {mo}"
        elif not same_outcome(pv, mo):
            return f"operation {i} ({pk}): CPython {pv!r}, model {mo}"
    return ""
