"""
C19 — real tool-chains as readers of literals.

Every function takes a list of literal *source texts* (Python ``str``, possibly holding lone
surrogates) and returns, per literal, either ``None`` (the tool-chain rejects it, or it cannot
even be stored in a UTF-8 source file) or the denoted value as a tuple of code units:

* ``read_python``   -> code points of the ``str`` (``kind='str'``) or byte values (``kind='bytes'``)
* ``read_js``       -> UTF-16 code units (``form='quoted'`` single literal token, ``form='template'``
                       template without substitutions; ``form='expr'`` any expression giving Uint8Array)
* ``read_java``     -> UTF-16 code units
* ``read_cpp``      -> ``kind='wide'``: wchar_t values (32 bit with g++ on Linux), ``kind='narrow'``:
                       bytes, ``kind='wchar'``: one wchar_t expression, ``kind='bytes'``: a
                       ``std::vector<std::uint8_t>`` initialiser

Batches: one compiler run for all literals; a literal the compiler rejects is found through the
line numbers of the diagnostics (one literal per line, literals with raw CR/LF are never sent to the
compiled languages' batches — they are rejected by definition of these languages and are decided
without the compiler), and the rest is compiled again.
"""
from __future__ import annotations

import ast
import io
import json
import pathlib
import re
import subprocess
import tokenize
import warnings
from typing import Dict, List, Optional, Sequence, Tuple

Units = Optional[Tuple[int, ...]]


class ToolchainError(Exception):
    pass


def storable(src: str) -> bool:
    """A source text can be written to a UTF-8 file."""
    try:
        src.encode("utf-8")
        return True
    except UnicodeEncodeError:
        return False


# --------------------------------------------------------------------------- Python


def read_python(lits: Sequence[str], kind: str = "str") -> List[Units]:
    out: List[Units] = []
    for lit in lits:
        out.append(_read_python_one(lit, kind))
    return out


def _read_python_one(lit: str, kind: str) -> Units:
    if not storable(lit):
        return None
    data = lit.encode("utf-8")
    # exactly one literal expression: STRING tokens only (adjacent literals allowed for bytes)
    try:
        toks = [
            t
            for t in tokenize.tokenize(io.BytesIO(data).readline)
            if t.type not in (tokenize.ENCODING, tokenize.NEWLINE, tokenize.NL, tokenize.ENDMARKER)
        ]
    except BaseException:
        return None
    if len(toks) == 0 or any(t.type != tokenize.STRING for t in toks):
        return None
    if kind == "str" and len(toks) != 1:
        return None
    try:
        with warnings.catch_warnings():
            warnings.simplefilter("ignore")
            code = compile(b"(" + data + b")" if kind == "bytes" else data, "<lit>", "eval")
        val = eval(code, {"__builtins__": {}}, {})
    except BaseException:
        return None
    if kind == "str":
        if not isinstance(val, str):
            return None
        if lit[:1] not in ("'", '"'):  # no prefixes (r, b, f, u) in the modelled grammar
            return None
        return tuple(ord(c) for c in val)
    if not isinstance(val, bytes):
        return None
    return tuple(val)


def read_python_fstring(bodies: Sequence[Tuple[str, str]]) -> List[Units]:
    """(body, quote) -> the value of f<quote>body<quote> if it has no replacement field."""
    out: List[Units] = []
    for body, q in bodies:
        src = "f" + q + body + q
        if not storable(src):
            out.append(None)
            continue
        # exactly one f-string token sequence (no implicit concatenation with a following literal)
        try:
            toks = [
                t
                for t in tokenize.tokenize(io.BytesIO(src.encode("utf-8")).readline)  # noqa
                if t.type not in (tokenize.ENCODING, tokenize.NEWLINE, tokenize.NL, tokenize.ENDMARKER)
            ]
        except BaseException:
            out.append(None)
            continue
        fstart = getattr(tokenize, "FSTRING_START", None)
        fend = getattr(tokenize, "FSTRING_END", None)
        if fstart is not None:
            if not toks or toks[0].type != fstart or toks[-1].type != fend or sum(t.type == fstart for t in toks) != 1 \
                    or any(t.type == tokenize.STRING for t in toks):
                out.append(None)
                continue
        elif len(toks) != 1 or toks[0].type != tokenize.STRING:
            out.append(None)
            continue
        try:
            with warnings.catch_warnings():
                warnings.simplefilter("ignore")
                tree = ast.parse(src.encode("utf-8"), mode="eval")
        except BaseException:
            out.append(None)
            continue
        node = tree.body
        if isinstance(node, ast.JoinedStr) and all(isinstance(v, ast.Constant) for v in node.values):
            out.append(tuple(ord(c) for v in node.values for c in v.value))
        elif isinstance(node, ast.Constant) and isinstance(node.value, str):
            out.append(tuple(ord(c) for c in node.value))
        else:
            out.append(None)
    return out


# --------------------------------------------------------------------------- JavaScript (node)

_JS = r"""
const fs = require('fs');
const items = JSON.parse(fs.readFileSync(process.argv[2], 'utf8'));
const out = [];
const tagObj = {};
function tag(strs, ...subs) { tagObj.cooked = strs; tagObj.n = subs.length; return tagObj; }
function units(s) { const r = []; for (let i = 0; i < s.length; i++) r.push(s.charCodeAt(i)); return r; }
for (const [form, src] of items) {
  let res = null;
  try {
    if (form === 'quoted') {
      const o = (0, eval)('({' + src + ':1})');
      const ks = Object.keys(o);
      if (ks.length === 1 && o[ks[0]] === 1) res = units(ks[0]);
      // numeric-looking keys are re-ordered but there is only one
    } else if (form === 'template') {
      const plain = (0, eval)('(' + src + ')');
      const f = new Function('tag', 'return tag' + src + ';');
      const t = f(tag);
      if (t === tagObj && t.n === 0 && t.cooked.length === 1 && typeof t.cooked[0] === 'string'
          && typeof plain === 'string' && plain === t.cooked[0]) res = units(plain);
    } else if (form === 'expr') {
      const v = (0, eval)('(' + src + ')');
      if (v instanceof Uint8Array) res = Array.from(v);
    }
  } catch (e) { res = null; }
  out.push(res);
}
process.stdout.write(JSON.stringify(out));
"""


def read_js(lits: Sequence[str], form: str, scratch: pathlib.Path) -> List[Units]:
    idx = [i for i, lit in enumerate(lits) if storable(lit)]
    res: List[Units] = [None] * len(lits)
    if not idx:
        return res
    script = scratch / "read.js"
    script.write_text(_JS)
    data = scratch / "items.json"
    data.write_text(json.dumps([[form, lits[i]] for i in idx], ensure_ascii=True))
    proc = subprocess.run(["node", str(script), str(data)], stdout=subprocess.PIPE, stderr=subprocess.PIPE, timeout=600)
    if proc.returncode != 0:
        raise ToolchainError("node failed: " + proc.stderr.decode(errors="replace")[:500])
    vals = json.loads(proc.stdout.decode("utf-8"))
    if len(vals) != len(idx):
        raise ToolchainError("node answered a different number of items")
    for i, v in zip(idx, vals):
        res[i] = None if v is None else tuple(v)
    return res


# --------------------------------------------------------------------------- compiled batches


def _has_newline(lit: str) -> bool:
    return "\n" in lit or "\r" in lit


def _compile_batches(lits, ok_for_batch, build_and_run, isolate, max_rounds=6) -> List[Units]:
    """Generic: all admissible literals in one build. When the build fails, the literals named by the
    diagnostics are suspects: each suspect is re-checked in a translation unit of its own
    (`isolate`, no cascading diagnostics); the ones that are fine alone rejoin the batch."""
    res: List[Units] = [None] * len(lits)
    alive = [i for i, lit in enumerate(lits) if ok_for_batch(lit)]
    for _ in range(max_rounds):
        if not alive:
            return res
        ok, payload = build_and_run([lits[i] for i in alive])
        if ok:
            if len(payload) != len(alive):
                raise ToolchainError(f"tool-chain printed {len(payload)} values for {len(alive)} literals")
            for i, v in zip(alive, payload):
                res[i] = v
            return res
        # payload: {index: True if a lexical diagnostic (positional, never a follow-up error) names the line}
        if not payload:
            raise ToolchainError("compilation failed but no diagnostic names a literal line")
        really_bad = {k for k, lexical in payload.items() if lexical}
        suspects = sorted(k for k, lexical in payload.items() if not lexical)
        if suspects:
            fine_alone = isolate([lits[alive[k]] for k in suspects])
            really_bad |= {k for k, fine in zip(suspects, fine_alone) if not fine}
        if not really_bad:
            raise ToolchainError("every suspect compiles alone but the batch does not")
        alive = [i for k, i in enumerate(alive) if k not in really_bad]
    raise ToolchainError("compilation still failing after several rounds")


def _run_parallel(cmds: List[List[str]], cwd: pathlib.Path) -> List[Tuple[int, str]]:
    procs = [subprocess.Popen(c, cwd=cwd, stdout=subprocess.PIPE, stderr=subprocess.STDOUT) for c in cmds]
    out = []
    for pr_ in procs:
        o, _ = pr_.communicate(timeout=900)
        out.append((pr_.returncode, o.decode(errors="replace")))
    return out


# --------------------------------------------------------------------------- Java

JAVA_CHUNK = 500
_JAVAC_LEXICAL = re.compile(r"illegal escape character|unclosed string literal|illegal unicode escape|illegal character|unclosed character literal|empty character literal")
_GXX_LEXICAL = re.compile(
    r"missing terminating|unknown escape sequence|escape sequence out of range|not a valid universal character|"
    r"incomplete universal character name|used with no following hex digits|non-ISO-standard escape|"
    r"character constant too long|empty character constant|multi-character|stray|universal character .* is not valid|"
    r"converting .* to execution character set|null character"
)


def read_java(lits: Sequence[str], scratch: pathlib.Path) -> List[Units]:
    def ok_for_batch(lit: str) -> bool:
        # raw line terminators end the line in Java: never inside a literal (JLS 3.10.5 / 3.4)
        return storable(lit) and not _has_newline(lit)

    def build_and_run(batch: List[str]):
        d = scratch / "java"
        if d.exists():
            for p in d.iterdir():
                p.unlink()
        d.mkdir(exist_ok=True)
        files = []
        line_of: Dict[Tuple[str, int], int] = {}
        nchunks = (len(batch) + JAVA_CHUNK - 1) // JAVA_CHUNK
        for c in range(nchunks):
            name = f"L{c}"
            lines = [f"class {name} {{ static final String[] A = new String[] {{"]
            for k in range(c * JAVA_CHUNK, min(len(batch), (c + 1) * JAVA_CHUNK)):
                lines.append(batch[k] + " ,")
                line_of[(name + ".java", len(lines))] = k
            lines.append("}; }")
            p = d / f"{name}.java"
            p.write_bytes(("\n".join(lines) + "\n").encode("utf-8"))
            files.append(p.name)
        main = ["public class Main { public static void main(String[] a) {", " StringBuilder sb = new StringBuilder();"]
        for c in range(nchunks):
            main.append(
                f" for (String s : L{c}.A) {{ for (int i = 0; i < s.length(); i++) {{ sb.append(Integer.toHexString(s.charAt(i))); sb.append('.'); }} sb.append('\\n'); }}"
            )
        main.append(" System.out.print(sb); } }")
        (d / "Main.java").write_text("\n".join(main) + "\n")
        proc = subprocess.run(
            ["javac", "-encoding", "UTF-8", "-Xmaxerrs", "100000", "-nowarn", "-d", str(d), "Main.java", *files],
            cwd=d, stdout=subprocess.PIPE, stderr=subprocess.STDOUT, timeout=900,
        )
        if proc.returncode != 0:
            log = proc.stdout.decode(errors="replace")
            bad: Dict[int, bool] = {}
            for m in re.finditer(r"(L\d+\.java):(\d+): error: ([^\n]*)", log):
                k = line_of.get((m.group(1), int(m.group(2))))
                if k is not None:
                    bad[k] = bad.get(k, False) or bool(_JAVAC_LEXICAL.search(m.group(3)))
            if not bad:
                raise ToolchainError("javac failed: " + log[:600])
            return False, bad
        run = subprocess.run(["java", "-cp", str(d), "Main"], stdout=subprocess.PIPE, stderr=subprocess.PIPE, timeout=600)
        if run.returncode != 0:
            raise ToolchainError("java failed: " + run.stderr.decode(errors="replace")[:500])
        rows = run.stdout.decode("ascii").split("\n")
        if rows and rows[-1] == "":
            rows.pop()
        return True, [tuple(int(x, 16) for x in r.split(".") if x) for r in rows]

    def isolate(sus: List[str]) -> List[bool]:
        d = scratch / "java_iso"
        if d.exists():
            for p in d.iterdir():
                p.unlink()
        d.mkdir(exist_ok=True)
        names = []
        for k, lit in enumerate(sus):
            (d / f"S{k}.java").write_bytes(f"class S{k} {{ static final String A =\n{lit}\n; }}\n".encode("utf-8"))
            names.append(f"S{k}.java")
        results = _run_parallel(
            [["javac", "-encoding", "UTF-8", "-Xmaxerrs", "100000", "-nowarn", "-d", str(d), *ch] for ch in [names[0::2], names[1::2]] if ch], d
        )
        failed = set()
        for rc, log in results:
            found = {int(m.group(1)) for m in re.finditer(r"S(\d+)\.java:\d+: error", log)}
            if rc != 0 and not found:
                raise ToolchainError("javac failed on isolated literals: " + log[:600])
            failed |= found
        return [k not in failed for k in range(len(sus))]

    return _compile_batches(lits, ok_for_batch, build_and_run, isolate)


# --------------------------------------------------------------------------- C++ (g++)

_CPP_HEAD = r"""#include <cstdio>
#include <cstdint>
#include <cstddef>
#include <vector>
template <class T> static void pr(const T* s, size_t n) { for (size_t i = 0; i < n; i++) std::printf("%lx.", (unsigned long)(uint32_t)s[i]); std::printf("\n"); }
static void prn(const char* s, size_t n) { for (size_t i = 0; i < n; i++) std::printf("%x.", (unsigned)(unsigned char)s[i]); std::printf("\n"); }
"""


def _cpp_decl(kind: str, name: str, lit: str) -> str:
    if kind == "wide":
        return f"static const E {name} = {{ {lit} , sizeof( {lit} ) / sizeof(wchar_t) - 1 }};"
    if kind == "narrow":
        return f"static const E {name} = {{ {lit} , sizeof( {lit} ) - 1 }};"
    if kind == "wchar":
        return f"static const E {name} = {lit} ;"
    if kind == "bytes":
        return f"static const E {name} = {lit} ;"
    raise ValueError(kind)


def read_cpp(lits: Sequence[str], kind: str, scratch: pathlib.Path, std: str = "c++17") -> List[Units]:
    def ok_for_batch(lit: str) -> bool:
        # a raw new-line inside a (non-raw) string or character literal is ill-formed [lex.string]
        return storable(lit) and not _has_newline(lit)

    def build_and_run(batch: List[str]):
        d = scratch / "cpp"
        d.mkdir(exist_ok=True)
        lines = _CPP_HEAD.split("\n")
        decl_line: Dict[int, int] = {}
        lines.append({"wide": "struct E { const wchar_t* s; size_t n; };", "narrow": "struct E { const char* s; size_t n; };",
                      "wchar": "typedef wchar_t E;", "bytes": "typedef std::vector<std::uint8_t> E;"}[kind])
        for k, lit in enumerate(batch):
            lines.append(_cpp_decl(kind, f"e{k}", lit))
            decl_line[len(lines)] = k
        lines.append("static const E* const T[] = { " + ", ".join(f"&e{k}" for k in range(len(batch))) + " };")
        lines.append("int main() {")
        lines.append(" for (size_t k = 0; k < sizeof(T) / sizeof(T[0]); k++) {")
        if kind == "wide":
            lines.append("  pr(T[k]->s, T[k]->n); }")
        elif kind == "narrow":
            lines.append("  prn(T[k]->s, T[k]->n); }")
        elif kind == "wchar":
            lines.append("  pr(T[k], 1); }")
        else:
            lines.append("  pr(T[k]->data(), T[k]->size()); }")
        lines.append(" return 0; }")
        src = d / "lits.cpp"
        src.write_bytes(("\n".join(lines) + "\n").encode("utf-8"))
        exe = d / "lits"
        proc = subprocess.run(
            ["g++", f"-std={std}", "-O0", "-pedantic-errors", "-fmax-errors=0", "-o", str(exe), str(src)],
            stdout=subprocess.PIPE, stderr=subprocess.STDOUT, timeout=900,
        )
        if proc.returncode != 0:
            log = proc.stdout.decode(errors="replace")
            bad: Dict[int, bool] = {}
            for m in re.finditer(r"lits\.cpp:(\d+):\d+: error: ([^\n]*)", log):
                k = decl_line.get(int(m.group(1)))
                if k is not None:
                    bad[k] = bad.get(k, False) or bool(_GXX_LEXICAL.search(m.group(2)))
            if not bad:
                raise ToolchainError("g++ failed: " + log[:600])
            return False, bad
        run = subprocess.run([str(exe)], stdout=subprocess.PIPE, stderr=subprocess.PIPE, timeout=600)
        if run.returncode != 0:
            raise ToolchainError("literal program failed")
        rows = run.stdout.decode("ascii").split("\n")
        if rows and rows[-1] == "":
            rows.pop()
        return True, [tuple(int(x, 16) for x in r.split(".") if x) for r in rows]

    def isolate(sus: List[str]) -> List[bool]:
        d = scratch / "cpp_iso"
        if d.exists():
            for p in d.iterdir():
                p.unlink()
        d.mkdir(exist_ok=True)
        head = "#include <cstdint>\n#include <vector>\n" if kind == "bytes" else "typedef unsigned long size_t;\n"
        head += {"wide": "struct E { const wchar_t* s; size_t n; };", "narrow": "struct E { const char* s; size_t n; };",
                 "wchar": "typedef wchar_t E;", "bytes": "typedef std::vector<std::uint8_t> E;"}[kind] + "\n"
        failed = set()
        names = []
        for k, lit in enumerate(sus):
            (d / f"s{k}.cpp").write_bytes((head + _cpp_decl(kind, "e", lit) + "\n").encode("utf-8"))
            names.append(f"s{k}.cpp")
        nproc = 8
        chunks = [names[c::nproc] for c in range(nproc) if names[c::nproc]]
        results = _run_parallel(
            [["g++", f"-std={std}", "-pedantic-errors", "-fmax-errors=0", "-fsyntax-only", *ch] for ch in chunks], d
        )
        for rc, log in results:
            found = {int(m.group(1)) for m in re.finditer(r"s(\d+)\.cpp:\d+:\d+: error", log)}
            if rc != 0 and not found:
                raise ToolchainError("g++ failed on isolated literals: " + log[:600])
            failed |= found
        return [k not in failed for k in range(len(sus))]

    # multi-line bytes initialisers are legal C++: join them on one line (white space is insignificant there)
    if kind == "bytes":
        lits = [" ".join(lit.split("\n")) for lit in lits]
    return _compile_batches(lits, ok_for_batch, build_and_run, isolate)
