"""
Instances of generated meta-models and their documents (see ``harness.mm`` for the overview).

* ``eval_invariant_python`` / ``check_invariants``: the *independent oracle* — the original
  invariant lambda source evaluated by CPython on given values with the meta-model's
  constants, enumerations and verification functions in scope (pattern functions through
  ``re.match``).  It never consults the generated ``verification`` module.
* ``random_instance``: type-conforming instances built through the generated constructors
  of a loaded Python SDK, from boundary value sets, optionally made to satisfy (or to break)
  the invariants by constraint-aware construction plus rejection sampling.
* ``mutate_jsonable`` / ``mutate_xml``: single-edit document mutators.
"""
from __future__ import annotations

import base64
import copy
import enum
import math
import random
import re
import xml.etree.ElementTree as ET
from dataclasses import dataclass, field
from typing import Any, Callable, Dict, Iterator, List, Mapping, Optional, Sequence, Set, Tuple, Union

from harness.mm_model import (
    MM, All, And, Any_, Class, Comparison, Constant, ConstrainedPrimitive, Enum, Expr, FunctionCall,
    ImplSpecificFn, Implication, Invariant, IsIn, IsNone, IsNotNone, ListOf, Member, Name, OptionalOf, Or,
    PatternFn, Prim, Prop, Ref, SELF, TranspilableFn, Type, all_invariants, all_props, ancestors,
    beneath_optional, descendants, is_optional, render_expr, render_verification_fn,
)
from harness.mm_gen import sample_match

# =========================================================================== the oracle


def _py_property_name(name: str) -> str:
    """``aas_core_codegen.python.naming.property_name`` re-stated (lower snake case), to stay independent."""
    return "_".join(part.lower() for part in name.split("_"))


class _View:
    """
    Read-only view of an instance for invariant evaluation: attribute access by *meta-model*
    property name on either a mapping (``{"prop": value}``) or a generated SDK object (whose
    attributes carry Python names).  Values are converted on the way out: nested instances
    become views, SDK enumeration members become the oracle's enumeration members.
    """

    __slots__ = ("_obj", "_env")

    def __init__(self, obj: Any, env: "Env") -> None:
        object.__setattr__(self, "_obj", obj)
        object.__setattr__(self, "_env", env)

    def __getattr__(self, name: str) -> Any:
        obj, env = self._obj, self._env
        if isinstance(obj, Mapping):
            if name not in obj:
                raise AttributeError(name)
            return env.convert(obj[name])
        py = _py_property_name(name)
        value = getattr(obj, py)
        if callable(value) and not isinstance(value, type):
            return lambda *a: env.convert(value(*a))
        return env.convert(value)

    def __eq__(self, other: Any) -> bool:
        return isinstance(other, _View) and other._obj is self._obj

    def __hash__(self) -> int:
        return id(self._obj)

    def __repr__(self) -> str:
        return f"_View({self._obj!r})"


class Env:
    """
    The global scope of the oracle for one meta-model: ``len``, ``match`` (= ``re.match``),
    ``all``/``any``/``range``, one Python ``enum.Enum`` per enumeration, constants, constant sets
    (``frozenset``) and verification functions.  ``impl`` supplies callables for
    implementation-specific verification functions (default: they raise ``NotImplementedError``).
    """

    def __init__(self, mm: MM, impl: Optional[Mapping[str, Callable[..., Any]]] = None) -> None:
        self.mm = mm
        self.enums: Dict[str, Any] = {}
        scope: Dict[str, Any] = {"__builtins__": {}, "len": len, "all": all, "any": any, "range": range, "match": re.match,
                                 "True": True, "False": False, "None": None, "bool": bool, "str": str, "int": int, "float": float}
        for e in mm.enums:
            members = {lit.name: lit.value for lit in e.literals}
            # NOTE: equal literal values would alias in a Python Enum; wrap the value to keep them apart
            cls = enum.Enum(e.name, {n: (n, v) for n, v in members.items()}) if len(set(members.values())) != len(members) else enum.Enum(e.name, members)  # type: ignore[misc]
            self.enums[e.name] = cls
            scope[e.name] = cls
        for c in mm.constants:
            scope[c.name] = bytes(c.value) if c.type == "bytes" else c.value
        for cs in mm.constant_sets:
            if cs.item_type in self.enums:
                scope[cs.name] = frozenset(getattr(self.enums[cs.item_type], v) for v in cs.values)
            else:
                scope[cs.name] = frozenset(cs.values)
        # a declared superset contains its subsets (the front end demands containment; union is harmless)
        changed = True
        while changed:
            changed = False
            for cs in mm.constant_sets:
                for sub in cs.superset_of:
                    if sub in scope and not scope[sub] <= scope[cs.name]:
                        scope[cs.name] = scope[cs.name] | scope[sub]
                        changed = True
        for f in mm.verification_functions:
            if isinstance(f, PatternFn):
                scope[f.name] = (lambda pattern: (lambda text: re.match(pattern, text) is not None))(f.pattern)
            elif isinstance(f, TranspilableFn):
                src = "\n".join(line for line in render_verification_fn(f) if not line.startswith("@"))
                src = re.sub(r"^def (\w+)\((.*)\) -> .*:$", lambda m: f"def {m.group(1)}({', '.join(p.split(':')[0] for p in m.group(2).split(', ') if p)}):", src, count=1, flags=re.M)
                local: Dict[str, Any] = {}
                exec(compile(src, f"<{f.name}>", "exec"), scope, local)  # noqa: S102 - our own rendered text
                scope[f.name] = local[f.name]
            elif isinstance(f, ImplSpecificFn):
                if impl is not None and f.name in impl:
                    scope[f.name] = impl[f.name]
                else:
                    def missing(*a: Any, _n: str = f.name) -> Any:
                        raise NotImplementedError(f"implementation-specific function {_n}")

                    scope[f.name] = missing
        self.scope = scope
        self._compiled: Dict[str, Any] = {}

    def convert(self, value: Any) -> Any:
        """SDK/mapping value -> oracle value (views for instances, oracle enum members, bytes as they are)."""
        if value is None or isinstance(value, (bool, int, float, str, bytes, bytearray)):
            return value
        if isinstance(value, enum.Enum):
            cls = self._oracle_enum_for(value)
            if cls is not None:
                if type(value) is cls:
                    return value
                for member in cls:
                    v = member.value[1] if isinstance(member.value, tuple) else member.value
                    if v == value.value:
                        return member
            return value
        if isinstance(value, (list, tuple)):
            return [self.convert(v) for v in value]
        if isinstance(value, _View):
            return value
        return _View(value, self)

    def _oracle_enum_for(self, member: enum.Enum) -> Any:
        if type(member) in self.enums.values():
            return type(member)
        name = type(member).__name__
        for meta_name, cls in self.enums.items():
            if "".join(p if p.upper() == p else p.capitalize() for p in meta_name.split("_")) == name or meta_name == name:
                return cls
        return None

    def compile(self, expr: Expr) -> Any:
        src = "lambda self: " + render_expr(expr)
        fn = self._compiled.get(src)
        if fn is None:
            fn = eval(compile(src, "<invariant>", "eval"), self.scope)  # noqa: S307 - our own rendered text
            self._compiled[src] = fn
        return fn


_ENV_CACHE: Dict[int, Tuple[MM, Env]] = {}


def invariant_env(mm: MM, impl: Optional[Mapping[str, Callable[..., Any]]] = None) -> Env:
    """The (cached) oracle scope of ``mm``; pass ``impl`` to get a fresh one with implementation-specific functions."""
    if impl is not None:
        return Env(mm, impl)
    hit = _ENV_CACHE.get(id(mm))
    if hit is None or hit[0] is not mm:
        if len(_ENV_CACHE) > 64:
            _ENV_CACHE.clear()
        hit = (mm, Env(mm))
        _ENV_CACHE[id(mm)] = hit
    return hit[1]


def invariant_source(inv: Invariant) -> str:
    """The lambda source of an invariant exactly as ``render`` writes it into the meta-model."""
    return "lambda self: " + render_expr(inv.expr)


def is_exception(result: Any) -> bool:
    """Did ``eval_invariant_python`` return an exception class?"""
    return isinstance(result, type) and issubclass(result, BaseException)


def eval_invariant_python(mm: MM, cls: str, inv: Invariant, instance_values: Any, env: Optional[Env] = None) -> Any:
    """
    Evaluate the ORIGINAL invariant lambda source of ``inv`` (declared by class or constrained
    primitive ``cls``) as Python on ``instance_values`` and return its value — or the exception
    *class* if the evaluation raises (use ``is_exception``).

    ``instance_values``: for a class, a mapping ``{meta property name: value}`` (nested instances
    again mappings or SDK objects; enumeration values as members of ``invariant_env(mm).enums[...]``
    or SDK enumeration members) or a generated SDK object; for a constrained primitive, the
    primitive value itself.  ``cls`` is only used to decide between the two.
    """
    env = env or invariant_env(mm)
    subject = instance_values if isinstance(mm.find(cls), ConstrainedPrimitive) else env.convert(instance_values)
    if isinstance(instance_values, Mapping):
        subject = _View(instance_values, env)
    try:
        return env.compile(inv.expr)(subject)
    except BaseException as e:  # noqa: B902
        if isinstance(e, KeyboardInterrupt):
            raise
        return type(e)


# =========================================================================== walking instances


def type_of_value_class(mm: MM, sdk: Any, obj: Any) -> Optional[str]:
    """Meta-model class name of an SDK object (by its generated class name) or of a mapping with ``"__class__"``."""
    if isinstance(obj, Mapping):
        return obj.get("__class__")
    name = type(obj).__name__
    for c in mm.classes:
        if "".join(p if p == p.upper() else p.capitalize() for p in c.name.split("_")) == name:
            return c.name
    return None


def _get_prop(obj: Any, name: str) -> Any:
    if isinstance(obj, Mapping):
        return obj.get(name)
    return getattr(obj, _py_property_name(name))


@dataclass
class Checked:
    """One evaluated invariant: where, whose, which, and the oracle's result (value or exception class)."""

    path: Tuple[Union[str, int], ...]
    owner: str
    description: str
    result: Any

    @property
    def holds(self) -> bool:
        return self.result is True


def check_invariants(mm: MM, sdk: Any, instance: Any, env: Optional[Env] = None) -> List[Checked]:
    """
    Evaluate, with the oracle, every invariant that applies to ``instance`` and everything
    nested in it: the stacked invariants of each class instance, and the stacked invariants of
    the constrained primitive of each constrained-primitive-typed value (list items included).
    Order: class invariants, then per property (declaration order) the value's invariants /
    the nested instance's — the order the generated verification uses.
    """
    env = env or invariant_env(mm)
    out: List[Checked] = []

    def value(t: Type, v: Any, path: Tuple[Union[str, int], ...]) -> None:
        if v is None:
            return
        t = beneath_optional(t)
        if isinstance(t, ListOf):
            for i, item in enumerate(v):
                value(t.item, item, path + (i,))
        elif isinstance(t, Ref):
            target = mm.find(t.name)
            if isinstance(target, ConstrainedPrimitive):
                for inv, owner in all_invariants(mm, t.name):
                    out.append(Checked(path, owner, inv.description, eval_invariant_python(mm, owner, inv, v, env)))
            elif isinstance(target, Class):
                inst(v, path)

    def inst(obj: Any, path: Tuple[Union[str, int], ...]) -> None:
        cname = type_of_value_class(mm, sdk, obj)
        if cname is None:
            return
        for inv, owner in all_invariants(mm, cname):
            out.append(Checked(path, owner, inv.description, eval_invariant_python(mm, owner, inv, obj, env)))
        for p, _ in all_props(mm, cname):
            value(p.type, _get_prop(obj, p.name), path + (p.name,))

    inst(instance, ())
    return out


# =========================================================================== value pools

INT_POOL = [0, 1, -1, 2, 7, 2**31 - 1, -(2**31), 2**63 - 1, -(2**63)]
FLOAT_POOL = [0.0, -0.0, 1.0, -1.5, 0.1, 1e-9, 1.7976931348623157e308, 5e-324, 123456.789]
FLOAT_SPECIAL = [math.inf, -math.inf, math.nan]
STR_POOL = ["", "a", "abc", "ä", "\U0001F600", "a\rb", "a\nb", '"', "'", "<&>", " x ", "\t", "0", "日本"]
STR_XML_UNSAFE = ["\x00", "\x0b", "\ud800", "￿"]
BYTES_POOL = [b"", b"\x00", b"abc", bytes(range(9)), b"\xff" * 8, b"\r\n"]
FRIENDLY_INT = [1, 2, 3, 5, 10, 42, 100, 0]
FRIENDLY_FLOAT = [1.0, 2.5, 0.75, 10.0, 100.0, 0.0]


# =========================================================================== hints (constraint-aware construction)


@dataclass
class Hint:
    """Recognised constraints on one value: length window, patterns, allowed sets (names of constant sets)."""

    lo: int = 0
    hi: int = 10**6
    patterns: List[str] = field(default_factory=list)
    sets: List[str] = field(default_factory=list)
    #: literals mentioned anywhere in the invariants of the owner (and their int neighbours): good candidates
    literals: List[Any] = field(default_factory=list)

    def merge(self, other: "Hint") -> "Hint":
        return Hint(max(self.lo, other.lo), min(self.hi, other.hi), self.patterns + other.patterns, self.sets + other.sets,
                    self.literals + other.literals)


def _len_bound(e: Expr, subject: Expr) -> Optional[Tuple[int, int]]:
    if not isinstance(e, Comparison):
        return None
    ln = FunctionCall("len", (subject,))
    if e.left == ln and isinstance(e.right, Constant) and isinstance(e.right.value, int):
        n, op = e.right.value, e.op
    elif e.right == ln and isinstance(e.left, Constant) and isinstance(e.left.value, int):
        n, op = e.left.value, {"<": ">", "<=": ">=", ">": "<", ">=": "<=", "==": "==", "!=": "!="}[e.op]
    else:
        return None
    return {"<": (0, n - 1), "<=": (0, n), ">": (n + 1, 10**6), ">=": (n, 10**6), "==": (n, n)}.get(op)


def _hint_from(mm: MM, e: Expr, subject: Expr) -> Hint:
    """Hint contributed by invariant body ``e`` about the value denoted by ``subject`` (plain or guarded forms)."""
    body = e
    if isinstance(e, Implication) and e.antecedent == IsNotNone(subject):
        body = e.consequent
    elif isinstance(e, Or) and len(e.values) == 2 and e.values[0] == IsNone(subject):
        body = e.values[1]
    h = Hint()
    b = _len_bound(body, subject)
    if b is not None:
        h.lo, h.hi = b
    if isinstance(body, FunctionCall) and body.args == (subject,):
        try:
            f = mm.fn(body.name)
            if isinstance(f, PatternFn):
                h.patterns.append(f.pattern)
        except KeyError:
            pass
    if isinstance(body, IsIn) and body.member == subject and isinstance(body.container, Name):
        h.sets.append(body.container.identifier)
    return h


def hints_for_type(mm: MM, t: Type) -> Hint:
    """Constraints a constrained-primitive type (chain) puts on its values."""
    t = beneath_optional(t)
    h = Hint()
    if isinstance(t, Ref) and isinstance(mm.find(t.name), ConstrainedPrimitive):
        from harness.mm_model import walk_expr

        for inv, _ in all_invariants(mm, t.name):
            h = h.merge(_hint_from(mm, inv.expr, SELF))
            for node in walk_expr(inv.expr):
                if isinstance(node, Constant) and not isinstance(node.value, bool):
                    h.literals.append(node.value)
                    if isinstance(node.value, int):
                        h.literals.extend([node.value - 1, node.value + 1])
                    if isinstance(node.value, float):
                        h.literals.extend([node.value - 0.5, node.value + 0.5])
    return h


def hints_for_class(mm: MM, cls_name: str) -> Dict[str, Hint]:
    """Per stacked property of ``cls_name``: merged hints of the class invariants and of the property's type."""
    from harness.mm_model import walk_expr

    out: Dict[str, Hint] = {}
    invs = all_invariants(mm, cls_name)
    literals: List[Any] = []
    for inv, _o in invs:
        for node in walk_expr(inv.expr):
            if isinstance(node, Constant) and not isinstance(node.value, bool):
                literals.append(node.value)
                if isinstance(node.value, int):
                    literals.extend([node.value - 1, node.value + 1])
                if isinstance(node.value, float):
                    literals.extend([node.value - 0.5, node.value + 0.5])
    for p, _ in all_props(mm, cls_name):
        h = hints_for_type(mm, p.type)
        for inv, _o in invs:
            h = h.merge(_hint_from(mm, inv.expr, Member(SELF, p.name)))
        h.literals = h.literals + literals
        out[p.name] = h
    return out


# =========================================================================== random instances


class Impossible(Exception):
    """No instance of the requested type exists (e.g. abstract class without concrete descendants)."""


@dataclass
class Built:
    """
    Result of ``random_instance``: the SDK object (None if impossible), how many candidates were
    built (``tries``), whether the requested condition was met (``satisfied``: all invariants
    hold for ``satisfy_invariants=True``, at least one is falsified for ``False``, None for don't
    care), and the oracle's verdicts for the returned instance (``checks``).
    """

    instance: Any
    tries: int
    satisfied: Optional[bool]
    checks: List[Checked] = field(default_factory=list)
    cls: Optional[str] = None


class _Builder:
    def __init__(self, sdk: Any, mm: MM, rng: random.Random, friendly: bool, special_floats: bool, xml_safe: bool, max_depth: int) -> None:
        self.sdk, self.mm, self.rng = sdk, mm, rng
        self.friendly = friendly
        self.special_floats = special_floats
        self.xml_safe = xml_safe
        self.max_depth = max_depth
        self.env = invariant_env(mm)
        self._cost: Dict[str, float] = {}
        self._hints: Dict[str, Dict[str, Hint]] = {}

    def pick(self, xs: Sequence[Any]) -> Any:
        return xs[self.rng.randrange(len(xs))]

    # -- how deep must an instance of a class be at least?
    def cost(self, cls_name: str) -> float:
        if not self._cost:
            inf = float("inf")
            cost = {c.name: inf for c in self.mm.classes}
            changed = True
            while changed:
                changed = False
                for c in self.mm.classes:
                    if c.abstract:
                        continue
                    worst = 0.0
                    for p, _ in all_props(self.mm, c.name):
                        t = p.type
                        if isinstance(t, Ref) and isinstance(self.mm.find(t.name), Class):
                            worst = max(worst, 1 + min([cost[d] for d in [t.name] + descendants(self.mm, t.name)] or [inf]))
                        elif isinstance(t, Ref) and isinstance(self.mm.find(t.name), Enum) and not self.mm.find(t.name).literals:  # type: ignore[union-attr]
                            worst = inf
                    if worst < cost[c.name]:
                        cost[c.name] = worst
                        changed = True
            self._cost = cost
        return self._cost[cls_name]

    def concrete_choices(self, cls_name: str) -> List[str]:
        return [n for n in [cls_name] + descendants(self.mm, cls_name) if not self.mm.cls(n).abstract and self.cost(n) < float("inf")]

    def hints(self, cls_name: str) -> Dict[str, Hint]:
        if cls_name not in self._hints:
            self._hints[cls_name] = hints_for_class(self.mm, cls_name)
        return self._hints[cls_name]

    # -- values
    def prim(self, name: str, hint: Hint) -> Any:
        rng = self.rng
        if hint.sets and self.friendly:
            allowed = None
            for s in hint.sets:
                vals = set(self.env.scope[s])
                allowed = vals if allowed is None else allowed & vals
            if allowed:
                v = self.pick(sorted(allowed, key=repr))
                return v
        if name == "bool":
            return rng.random() < 0.5
        if self.friendly and hint.literals and rng.random() < 0.4:
            kind = {"int": int, "float": float, "str": str}.get(name)
            cands = [v for v in hint.literals if kind is not None and type(v) is kind]
            if name == "str":
                cands = [v for v in cands if hint.lo <= len(v) <= hint.hi and all(re.match(p, v) for p in hint.patterns)]
            if cands:
                return self.pick(cands)
        if name == "int":
            return self.pick(FRIENDLY_INT if self.friendly and rng.random() < 0.8 else INT_POOL)
        if name == "float":
            pool = FRIENDLY_FLOAT if self.friendly and rng.random() < 0.8 else FLOAT_POOL
            if self.special_floats and rng.random() < 0.2:
                pool = FLOAT_SPECIAL
            return self.pick(pool)
        if name == "str":
            if self.friendly and hint.patterns:
                for _ in range(20):
                    s = sample_match(hint.patterns[0], rng)
                    if s is not None and all(re.match(p, s) for p in hint.patterns) and hint.lo <= len(s) <= hint.hi:
                        return s
            s = self.pick(STR_POOL + ([] if self.xml_safe else STR_XML_UNSAFE))
            if self.friendly:
                if len(s) < hint.lo:
                    s = s + "a" * (hint.lo - len(s))
                if len(s) > hint.hi:
                    s = s[: hint.hi]
            return s
        if name == "bytes":
            b = self.pick(BYTES_POOL)
            if self.friendly:
                if len(b) < hint.lo:
                    b = b + b"\x01" * (hint.lo - len(b))
                if len(b) > hint.hi:
                    b = b[: hint.hi]
            return b
        raise AssertionError(name)

    def value(self, t: Type, hint: Hint, depth: int) -> Any:
        rng = self.rng
        if isinstance(t, OptionalOf):
            p_none = 0.5 if self.friendly else 0.3
            if depth >= self.max_depth:
                p_none = 0.9
            if depth > self.max_depth + 1 or rng.random() < p_none:
                return None
            return self.value(t.item, hint, depth)
        if isinstance(t, ListOf):
            n = self.pick([0, 0, 1, 2, 3]) if depth < self.max_depth else 0
            if self.friendly and depth <= self.max_depth + 1:  # deeper: give up on the hint, terminate
                n = max(n, hint.lo)
                n = min(n, hint.hi)
            item_hint = hints_for_type(self.mm, t.item)
            try:
                return [self.value(t.item, item_hint, depth + 1) for _ in range(n)]
            except Impossible:
                if hint.lo == 0 or not self.friendly:
                    return []
                raise
        if isinstance(t, Prim):
            return self.prim(t.name, hint)
        assert isinstance(t, Ref), t
        target = self.mm.find(t.name)
        if isinstance(target, Enum):
            if not target.literals:
                raise Impossible(f"enumeration {t.name} has no literals")
            if hint.sets and self.friendly:
                allowed = None
                for s in hint.sets:
                    vals = set(self.env.scope[s])
                    allowed = vals if allowed is None else allowed & vals
                if allowed:
                    member = self.pick(sorted(allowed, key=lambda m: m.name))
                    return self.sdk_enum_member(t.name, member.name)
            return self.sdk_enum_member(t.name, self.pick(target.literals).name)
        if isinstance(target, ConstrainedPrimitive):
            return self.prim(target.base, hint)
        if isinstance(target, Class):
            return self.instance(t.name, depth + 1)
        raise Impossible(f"unknown type {t.name}")

    def sdk_enum_member(self, enum_name: str, literal_name: str) -> Any:
        cls = self.sdk.enum_of(enum_name)
        return getattr(cls, "_".join(p.upper() for p in literal_name.split("_")))

    def instance(self, cls_name: str, depth: int) -> Any:
        choices = self.concrete_choices(cls_name)
        if not choices:
            raise Impossible(f"no instantiable concrete class for {cls_name}")
        if depth >= self.max_depth:
            best = min(self.cost(n) for n in choices)
            choices = [n for n in choices if self.cost(n) == best]
        chosen = self.pick(choices)
        hints = self.hints(chosen)
        kwargs = {}
        for p, _ in all_props(self.mm, chosen):
            kwargs[_py_property_name(p.name)] = self.value(p.type, hints[p.name], depth)
        return self.sdk.class_of(chosen)(**kwargs)


def random_value(sdk: Any, mm: MM, t: Type, rng: random.Random, friendly: bool = False, special_floats: bool = False,
                 xml_safe: bool = True, max_depth: int = 3) -> Any:
    """A random value conforming to type ``t`` (see ``random_instance`` for the pools); raises ``Impossible``."""
    return _Builder(sdk, mm, rng, friendly, special_floats, xml_safe, max_depth).value(t, hints_for_type(mm, t), 0)


def random_instance(
    sdk: Any,
    mm: MM,
    cls_name: str,
    rng: random.Random,
    satisfy_invariants: Optional[bool] = None,
    *,
    max_tries: int = 300,
    max_depth: int = 3,
    special_floats: bool = False,
    xml_safe: bool = True,
) -> Built:
    """
    A type-conforming instance of ``cls_name`` (a concrete descendant is chosen for abstract
    classes and, randomly, for concrete ones with descendants) built through the generated
    constructors of ``sdk`` (``load_python_sdk``).

    Values come from boundary sets: ``None`` (only under ``Optional``), ints 0, 1, -1, 2**31-1,
    ±2**63 borders; floats incl. -0.0, 5e-324, 1.8e308 (``inf``/``nan`` only with
    ``special_floats``); strings "", "a", non-ASCII, astral, CR, LF, quotes, ``<&>`` (characters
    XML cannot carry — NUL, U+000B, lone surrogates, U+FFFF — only with ``xml_safe=False``);
    bytes ``b""`` .. 9 bytes; empty and short lists; nested instances up to ``max_depth``.

    ``satisfy_invariants``:
    * ``None``  first candidate, whatever the invariants say;
    * ``True``  constraint-aware construction (lengths, patterns and set memberships recognised
      in the invariants are honoured, friendly numbers) + rejection sampling until the *oracle*
      (``check_invariants``) finds every invariant true;
    * ``False`` rejection sampling until at least one invariant is false (not raising).

    Returns ``Built`` (instance, number of candidates built, whether the goal was reached, the
    oracle's verdicts).  Never raises for unsatisfiable requests: ``Built.instance`` is then the
    last candidate (or None when no instance exists at all) and ``satisfied`` is False.
    """
    builder = _Builder(sdk, mm, rng, friendly=bool(satisfy_invariants), special_floats=special_floats, xml_safe=xml_safe, max_depth=max_depth)
    last: Any = None
    checks: List[Checked] = []
    tries = 0
    for tries in range(1, max_tries + 1):
        try:
            last = builder.instance(cls_name, 0)
        except Impossible:
            return Built(None, tries, False if satisfy_invariants is not None else None, [], cls_name)
        checks = check_invariants(mm, sdk, last, builder.env)
        if satisfy_invariants is None:
            return Built(last, tries, None, checks, cls_name)
        if satisfy_invariants and all(c.holds for c in checks):
            return Built(last, tries, True, checks, cls_name)
        if satisfy_invariants is False and any(c.result is False for c in checks):
            return Built(last, tries, True, checks, cls_name)
    return Built(last, tries, False, checks, cls_name)


# =========================================================================== document mutators

_JSON_SAMPLES: List[Any] = [None, True, False, 0, 1, -1, 1.5, "", "text", "1", "true", [], {}, [1], {"x": 1}]


def _json_paths(doc: Any, path: Tuple[Any, ...] = ()) -> Iterator[Tuple[Tuple[Any, ...], Any]]:
    yield path, doc
    if isinstance(doc, dict):
        for k in doc:
            yield from _json_paths(doc[k], path + (k,))
    elif isinstance(doc, list):
        for i, v in enumerate(doc):
            yield from _json_paths(v, path + (i,))


def _json_set(doc: Any, path: Tuple[Any, ...], value: Any) -> Any:
    if not path:
        return value
    parent = doc
    for k in path[:-1]:
        parent = parent[k]
    parent[path[-1]] = value
    return doc


def _looks_base64(s: str) -> bool:
    return len(s) > 0 and len(s) % 4 == 0 and re.fullmatch(r"[A-Za-z0-9+/]*={0,2}", s) is not None


def mutate_jsonable(doc: Any, rng: random.Random) -> Tuple[Any, str]:
    """
    One random single edit of a JSON-able document (a deep copy is edited): returns
    ``(mutated, label)`` with ``label`` = ``<kind>@<json path>``.  Kinds: ``type_swap`` (a value
    replaced by one of another JSON type: bool/int/float/str/null/list/object, incl. bool<->int,
    int->float, number->numeric string), ``null``, ``missing_property``, ``extra_property``,
    ``wrong_model_type``, ``missing_model_type``, ``renamed_property`` (case change),
    ``bad_base64`` / ``non_ascii_base64`` (on strings that look like base64, else any string),
    ``wrap_in_list`` / ``unwrap_list`` / ``wrap_in_object`` (wrong nesting), ``bad_list_item``,
    ``huge_int``, ``empty_string``.  (Duplicate keys cannot exist in a Python ``dict``; use
    ``duplicate_key_json_text`` for that.)
    """
    doc = copy.deepcopy(doc)
    nodes = list(_json_paths(doc))
    for _ in range(50):
        path, node = nodes[rng.randrange(len(nodes))]
        kinds = ["type_swap", "null"]
        if isinstance(node, dict):
            kinds += ["extra_property", "wrap_in_list"]
            if node:
                kinds += ["missing_property", "renamed_property"]
            if "modelType" in node:
                kinds += ["wrong_model_type", "missing_model_type", "wrong_model_type"]
        elif isinstance(node, list):
            kinds += ["bad_list_item", "wrap_in_object"]
            if node:
                kinds += ["unwrap_list"]
        elif isinstance(node, str):
            kinds += ["bad_base64", "non_ascii_base64", "empty_string"]
        elif isinstance(node, bool):
            kinds += ["type_swap"]
        elif isinstance(node, (int, float)):
            kinds += ["huge_int", "type_swap"]
        kind = kinds[rng.randrange(len(kinds))]
        label = f"{kind}@{'/'.join(str(p) for p in path) or '.'}"
        if kind == "type_swap":
            if isinstance(node, bool):
                new: Any = rng.choice([int(node), str(node).lower(), float(node), None, [node]])
            elif isinstance(node, int):
                new = rng.choice([bool(node % 2), float(node) + 0.5, str(node), float(node), [node], {"value": node}])
            elif isinstance(node, float):
                new = rng.choice([str(node), True, [node], int(node) if math.isfinite(node) else 0])
            elif isinstance(node, str):
                new = rng.choice([0, 1.5, True, [node], {"text": node}])
            else:
                new = rng.choice([x for x in _JSON_SAMPLES if type(x) is not type(node)])
            return _json_set(doc, path, new), label
        if kind == "null":
            if node is None:
                continue
            return _json_set(doc, path, None), label
        if kind == "missing_property":
            key = rng.choice(sorted(node))
            del node[key]
            return doc, label + "/" + key
        if kind == "extra_property":
            node["unexpectedProperty" if "unexpectedProperty" not in node else "anotherUnexpectedProperty"] = rng.choice(_JSON_SAMPLES)
            return doc, label
        if kind == "renamed_property":
            key = rng.choice(sorted(node))
            new_key = key.swapcase() if key.swapcase() != key else key + "_"
            items = [(new_key if k == key else k, v) for k, v in node.items()]
            node.clear()
            node.update(items)
            return doc, label + "/" + key
        if kind == "wrong_model_type":
            node["modelType"] = rng.choice(["NoSuchClass", "", node["modelType"].lower() if isinstance(node["modelType"], str) else "x", 1, None, [node["modelType"]]])
            return doc, label
        if kind == "missing_model_type":
            del node["modelType"]
            return doc, label
        if kind == "wrap_in_list":
            return _json_set(doc, path, [node]), label
        if kind == "wrap_in_object":
            return _json_set(doc, path, {"items": node}), label
        if kind == "unwrap_list":
            return _json_set(doc, path, node[0]), label
        if kind == "bad_list_item":
            node.insert(rng.randrange(len(node) + 1), rng.choice([None, 1, "x", [], {}]))
            return doc, label
        if kind == "bad_base64":
            base = node if _looks_base64(node) else "QUJD"
            new = rng.choice([base[:-1], base + "=", "!" + base[1:], base[:2] + " " + base[2:], "====", base + "A"])
            return _json_set(doc, path, new), label
        if kind == "non_ascii_base64":
            return _json_set(doc, path, rng.choice(["é", "QUJDé", "\U0001F600", "QUI "])), label
        if kind == "empty_string":
            if node == "":
                continue
            return _json_set(doc, path, ""), label
        if kind == "huge_int":
            return _json_set(doc, path, rng.choice([2**63, -(2**63) - 1, 10**40, 1e400])), label
    return _json_set(doc, (), None), "null@."


def duplicate_key_json_text(doc: Any, rng: random.Random) -> Optional[Tuple[str, str]]:
    """JSON *text* of ``doc`` in which one property of one object occurs twice (second value mistyped); None if no object has properties."""
    import json

    objs = [(p, n) for p, n in _json_paths(doc) if isinstance(n, dict) and n]
    if not objs:
        return None
    path, node = objs[rng.randrange(len(objs))]
    key = rng.choice(sorted(node))
    marker = "\u0000DUP\u0000"
    clone = copy.deepcopy(doc)
    target = clone
    for k in path:
        target = target[k]
    target[marker] = rng.choice([None, 1, "x", [], {}])
    text = json.dumps(clone)
    text = text.replace(json.dumps(marker), json.dumps(key), 1)
    return text, f"duplicate_key@{'/'.join(str(p) for p in path) or '.'}/{key}"


def _local(tag: str) -> str:
    return tag.rsplit("}", 1)[-1]


def _ns(tag: str) -> str:
    return tag[1:].split("}", 1)[0] if tag.startswith("{") else ""


def mutate_xml(text: str, rng: random.Random) -> Tuple[str, str]:
    """
    One random single edit of an XML document given as text: returns ``(mutated_text, label)``.
    Kinds: ``missing_element``, ``duplicated_element``, ``extra_element``, ``renamed_element``
    (also the way to give a wrong concrete class / model type), ``wrong_text`` (text of another
    lexical type: ``abc`` / ``1.5`` / ``maybe`` / empty), ``bad_base64``, ``text_in_container``,
    ``wrap_children`` / ``unwrap_children`` (wrong nesting), ``wrong_namespace``,
    ``no_namespace``, ``attribute``, ``swap_children`` (order), ``truncate`` (not well-formed),
    ``garbage``.  The document is re-serialised with its default namespace kept un-prefixed.
    """
    try:
        root = ET.fromstring(text)
    except ET.ParseError:
        return text[: len(text) // 2], "truncate@."
    ns = _ns(root.tag)
    if ns:
        ET.register_namespace("", ns)
    elems = list(root.iter())
    parent_of = {child: parent for parent in elems for child in parent}
    for _ in range(50):
        el = elems[rng.randrange(len(elems))]
        kinds = ["renamed_element", "attribute", "wrong_namespace", "no_namespace"]
        if len(el):
            kinds += ["missing_element", "duplicated_element", "extra_element", "text_in_container", "wrap_children", "swap_children", "missing_element"]
        else:
            kinds += ["wrong_text", "wrong_text", "bad_base64", "extra_element"]
        if el in parent_of:
            kinds += ["unwrap_children"] if len(el) else []
        if rng.random() < 0.05:
            kinds = ["truncate", "garbage"]
        kind = kinds[rng.randrange(len(kinds))]
        label = f"{kind}@{_local(el.tag)}"
        q = (lambda name: f"{{{ns}}}{name}") if ns else (lambda name: name)
        if kind == "missing_element":
            child = el[rng.randrange(len(el))]
            el.remove(child)
            label += "/" + _local(child.tag)
        elif kind == "duplicated_element":
            i = rng.randrange(len(el))
            el.insert(i, copy.deepcopy(el[i]))
            label += "/" + _local(el[i].tag)
        elif kind == "extra_element":
            extra = ET.Element(q("unexpectedElement"))
            extra.text = rng.choice(["", "x", "1"])
            el.insert(rng.randrange(len(el) + 1), extra)
        elif kind == "renamed_element":
            el.tag = q(rng.choice(["noSuchElement", _local(el.tag).swapcase(), _local(el.tag) + "x"]))
        elif kind == "wrong_text":
            old = el.text or ""
            cands = [c for c in ["abc", "1.5", "maybe", "", " 1 ", "1e400", "TRUE", "0x10", "\n"] if c != old]
            el.text = rng.choice(cands)
        elif kind == "bad_base64":
            base = el.text if el.text and _looks_base64(el.text) else "QUJD"
            el.text = rng.choice([base[:-1], "!" + base[1:], base + "=", "é", "===="])
        elif kind == "text_in_container":
            el.text = "unexpected text"
        elif kind == "wrap_children":
            wrapper = ET.Element(q("wrapper"))
            for child in list(el):
                el.remove(child)
                wrapper.append(child)
            el.append(wrapper)
        elif kind == "unwrap_children":
            parent = parent_of[el]
            i = list(parent).index(el)
            parent.remove(el)
            for j, child in enumerate(list(el)):
                parent.insert(i + j, child)
        elif kind == "swap_children":
            if len(el) < 2:
                continue
            i = rng.randrange(len(el) - 1)
            a, b = el[i], el[i + 1]
            if _local(a.tag) == _local(b.tag) and (a.text or "") == (b.text or "") and len(a) == 0 and len(b) == 0:
                continue
            el.remove(b)
            el.insert(i, b)
        elif kind == "wrong_namespace":
            el.tag = "{https://example.com/wrong}" + _local(el.tag)
        elif kind == "no_namespace":
            if not ns:
                continue
            el.tag = _local(el.tag)
        elif kind == "attribute":
            el.set("unexpected", "1")
        elif kind == "truncate":
            cut = rng.randrange(1, max(2, len(text) - 1))
            return text[:cut], "truncate@."
        elif kind == "garbage":
            return rng.choice(["", "<", "not xml", "<a><b></a></b>", text + "<x/>", "﻿" + text[1:]]), "garbage@."
        return ET.tostring(root, encoding="unicode"), label
    return text[: len(text) // 2], "truncate@."
