#pragma once
// Minimal stand-in so that the generated common.hpp compiles for stand-alone
// fragments (revm, pattern) that never instantiate expected<>.
#include <utility>
namespace tl {
template <class E> class unexpected { public: explicit unexpected(E e) : e_(std::move(e)) {} E& value() { return e_; } private: E e_; };
template <class E> unexpected<typename std::decay<E>::type> make_unexpected(E&& e) { return unexpected<typename std::decay<E>::type>(std::forward<E>(e)); }
template <class T, class E> class expected;
}
