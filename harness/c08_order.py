"""
C08, enumerated family ``order``: boolean invariants in which evaluation ORDER and short-circuiting are observable.

Every invariant is built from a *subject* — a triple of leaves over one property

    E   true exactly when evaluating R would raise     (``len(self.items) == 0``, ``self.other is None`` ...)
    N   its negation                                     (``len(self.items) >= 1``, ``self.other is not None`` ...)
    R   the raiser                                       (``self.items[0] == 0``   -> IndexError,
                                                          ``self.other.n > 0``     -> AttributeError on None,
                                                          ``len(self.s) > 1``      -> TypeError on None,
                                                          ``self.n > 0`` with the int property set to None behind
                                                          the constructor's back   -> TypeError)
    F   a free boolean property

— and a *shape*: every nesting of ``or`` / ``and`` (two and three operands), the implication spelling ``not A or B``,
``not`` over leaves and over binary terms, up to three leaves and depth two, with exactly one occurrence of R and at
least one of E / N, in EVERY operand order.  So each operand position of every operator the parse rules recognise is
paired with instances on which evaluating it raises while an earlier operand decides (and, for the operand orders with
the raiser first, with instances on which the source itself raises).

The instances are the small product domain of the subject's property x the free booleans.  The direct oracle is
CPython's evaluation of the source lambda (``mm.check_invariants``); invariants that can raise on some instance of
the domain live alone in their class (the generated verification stops at the first exception), the others are packed.
"""
from __future__ import annotations

import ast
import itertools
from types import SimpleNamespace
from typing import Any, Dict, Iterator, List, Optional, Sequence, Tuple

from harness import mm
from harness.src_expr import expr_of

#: subject -> leaves; ``domain``: values of the subject's property (``ILL`` = set to None after construction)
ILL = "<ill-typed None>"
SUBJECTS: Dict[str, Dict[str, Any]] = {
    "idx": dict(E="len(self.items) == 0", N="len(self.items) >= 1", R="self.items[0] == 0", F="self.b",
                prop="items", domain=[[], [0], [5], [0, 7], [3, 0]]),
    "idx2": dict(E="len(self.items) < 2", N="len(self.items) > 1", R="self.items[1] > self.items[0]", F="self.b",
                 prop="items", domain=[[], [4], [1, 2], [2, 1], [0, 0, 9]]),
    "inst": dict(E="self.other is None", N="self.other is not None", R="self.other.n > 0", F="self.b",
                 prop="other", domain=[None, {"n": 0}, {"n": 4}]),
    "optstr": dict(E="self.s is None", N="self.s is not None", R="len(self.s) > 1", F="self.b",
                   prop="s", domain=[None, "", "a", "abc"]),
    "optint": dict(E="self.o is None", N="self.o is not None", R="self.o > 0", F="self.b",
                   prop="o", domain=[None, 0, 3]),
    "ill": dict(E="self.b", N="self.c", R="self.n > 0", F="self.d",
                prop="n", domain=[ILL, 0, 2]),
    "quant": dict(E="all(x != 0 for x in self.items)", N="any(x == 0 for x in self.items)",
                  R="self.items[len(self.items) - 1] == 0 and self.items[0] == 0", F="self.b",
                  prop="items", domain=[[], [0], [5], [0, 7], [3, 0]]),
    "inquant": dict(E="self.b", N="self.c", R="all(self.items[i] >= 0 for i in range(0, self.n))", F="self.d",
                    prop="items", domain=[[], [1], [1, -2], [3, 4, 5]]),
}

DEFAULTS: Dict[str, Any] = dict(items=[1], other=None, s=None, o=None, b=False, c=False, d=False, n=2)


def _neg(x: str) -> str:
    return f"not ({x})"


def templates() -> List[str]:
    """Shape templates over ``{E} {N} {R} {F}`` (each leaf at most once, exactly one R, at least one of E/N)."""
    leaves = ["E", "N", "R", "F"]
    ops2 = ["({0}) or ({1})", "({0}) and ({1})", "not ({0}) or ({1})"]
    ops3 = ["({0}) or ({1}) or ({2})", "({0}) and ({1}) and ({2})", "not ({0}) or ({1}) or ({2})"]

    def ok(ls: Sequence[str]) -> bool:
        return list(ls).count("R") == 1 and ("E" in ls or "N" in ls) and len(set(ls)) == len(ls)

    out: List[str] = []
    ph = {k: "{" + k + "}" for k in leaves}
    # binary, every negation pattern of the two leaves
    for a, b in itertools.permutations(leaves, 2):
        if not ok([a, b]):
            continue
        for na, nb in itertools.product([False, True], repeat=2):
            for op in ops2:
                t = op.format(_neg(ph[a]) if na else ph[a], _neg(ph[b]) if nb else ph[b])
                out.append(t)
                out.append(_neg(t))
    # ternary, plain leaves (+ the last operand negated: the shape ``... or not X``)
    for ls in itertools.permutations(leaves, 3):
        if not ok(ls):
            continue
        for op in ops3:
            out.append(op.format(*(ph[x] for x in ls)))
            out.append(op.format(ph[ls[0]], ph[ls[1]], _neg(ph[ls[2]])))
    # nested: a binary term as the left / right operand of a binary operator
    for ls in itertools.permutations(leaves, 3):
        if not ok(ls):
            continue
        for inner in ops2:
            for outer in ops2:
                out.append(outer.format(inner.format(ph[ls[0]], ph[ls[1]]), ph[ls[2]]))
                out.append(outer.format(ph[ls[0]], inner.format(ph[ls[1]], ph[ls[2]])))
    return list(dict.fromkeys(out))


def _strip_parens(text: str) -> str:
    """Minimal parentheses (the way a person writes it), via the CPython unparser."""
    return ast.unparse(ast.parse(text, mode="eval").body)


def sources(subject: str) -> List[str]:
    s = SUBJECTS[subject]
    out = []
    for t in templates():
        out.append(_strip_parens(t.format(E=s["E"], N=s["N"], R=s["R"], F=s["F"])))
    return list(dict.fromkeys(out))


def domain(subject: str) -> List[Dict[str, Any]]:
    """Property values of the instances of one subject: its domain x the free booleans the leaves mention."""
    s = SUBJECTS[subject]
    frees = sorted({p for p in ("b", "c", "d") if any(f"self.{p}" in s[k] for k in "ENRF")})
    out = []
    for v in s["domain"]:
        for bits in itertools.product([False, True], repeat=len(frees)):
            d = dict(DEFAULTS)
            d[s["prop"]] = v
            d.update(dict(zip(frees, bits)))
            if subject == "inquant":
                for n in (0, 2):
                    out.append(dict(d, n=n))
            else:
                out.append(d)
    return out


def plain_eval(source: str, values: Dict[str, Any]) -> Any:
    """The source on plain values (pre-classification only; the oracle of the check is ``mm.check_invariants``)."""
    d = dict(values)
    if isinstance(d.get("other"), dict):
        d["other"] = SimpleNamespace(**d["other"])
    if d.get("n") == ILL:
        d["n"] = None
    try:
        return bool(eval(source, {"__builtins__": {}, "len": len, "any": any, "all": all, "range": range,  # noqa: S307
                                  "self": SimpleNamespace(**d)}))
    except Exception as e:  # noqa: B902
        return type(e)


def classify(subject: str, source: str) -> Tuple[bool, bool]:
    """(can raise on the domain, short-circuit observable: does not raise although a leaf on its own would)"""
    s = SUBJECTS[subject]
    can_raise = False
    observable = False
    for d in domain(subject):
        r = plain_eval(source, d)
        if isinstance(r, type):
            can_raise = True
        elif isinstance(plain_eval(s["R"], d), type):
            observable = True
    return can_raise, observable


PROPS = [("items", "List[int]"), ("other", "Optional[Other]"), ("s", "Optional[str]"), ("o", "Optional[int]"),
         ("b", "bool"), ("c", "bool"), ("d", "bool"), ("n", "int")]


def _props() -> List[Any]:
    P, L, O, R, Pr = mm.Prim, mm.ListOf, mm.OptionalOf, mm.Ref, mm.Prop
    return [Pr("items", L(P("int"))), Pr("other", O(R("Other"))), Pr("s", O(P("str"))), Pr("o", O(P("int"))),
            Pr("b", P("bool")), Pr("c", P("bool")), Pr("d", P("bool")), Pr("n", P("int"))]


def other_class() -> Any:
    return mm.Class("Other", props=[mm.Prop("n", mm.Prim("int"))], description="Represent the other thing.")


def make_class(name: str, invariants: Sequence[Tuple[str, str]]) -> Any:
    return mm.Class(name, props=_props(), invariants=[mm.Invariant(d, expr_of(src)) for d, src in invariants],
                    description="Represent a thing.")


def make_mm(classes: Sequence[Any]) -> Any:
    return mm.MM(classes=[other_class()] + list(classes), version="V1", xml_namespace="urn:aasv:order")


def build_instance(sdk: Any, cls_name: str, values: Dict[str, Any]) -> Any:
    kw = dict(values)
    if isinstance(kw.get("other"), dict):
        kw["other"] = sdk.class_of("Other")(**kw["other"])
    ill = kw.get("n") == ILL
    if ill:
        kw["n"] = 0
    inst = sdk.class_of(cls_name)(**kw)
    if ill:
        inst.n = None
    return inst


class Group:
    """One class of the family: its subject, its invariants (description, source) and whether they may raise."""

    def __init__(self, name: str, subject: str, invariants: List[Tuple[str, str]], raising: bool) -> None:
        self.name, self.subject, self.invariants, self.raising = name, subject, invariants, raising


def _thin(xs: List[str], cap: Optional[int]) -> List[str]:
    if cap is None or len(xs) <= cap:
        return xs
    step = len(xs) / cap
    return [xs[int(i * step)] for i in range(cap)]


def groups(accepted: Optional[Any] = None, pack: int = 24, cap_raising: Optional[Dict[str, int]] = None,
           cap_safe: Optional[Dict[str, int]] = None, only: Optional[str] = None) -> List[Group]:
    """The family, deterministic.  ``accepted(subject, source) -> bool``: the front end's verdict (type inference).
    Of the invariants that can raise, those whose short-circuiting is observable on other instances come first."""
    cap_raising = cap_raising or {}
    cap_safe = cap_safe or {}
    out: List[Group] = []
    for si, subject in enumerate(SUBJECTS):
        if only is not None and subject != only:
            continue
        safe: List[str] = []
        raising_obs: List[str] = []
        raising_rest: List[str] = []
        for src in sources(subject):
            if accepted is not None and not accepted(subject, src):
                continue
            can_raise, observable = classify(subject, src)
            (safe if not can_raise else raising_obs if observable else raising_rest).append(src)
        safe = _thin(safe, cap_safe.get(subject))
        cap = cap_raising.get(subject)
        if cap is None:
            raising = raising_obs + raising_rest
        else:
            n_obs = min(len(raising_obs), max(cap - min(len(raising_rest), cap // 4), 0))
            raising = _thin(raising_obs, n_obs) + _thin(raising_rest, cap - n_obs)
        for k in range(0, len(safe), pack):
            chunk = safe[k:k + pack]
            out.append(Group(f"S{si}_safe_{k // pack}", subject, [(f"{subject} safe {k + j}: {s}", s) for j, s in enumerate(chunk)], False))
        for k, s in enumerate(raising):
            out.append(Group(f"S{si}_raise_{k}", subject, [(f"{subject} raising {k}: {s}", s)], True))
    return out


def singles(g: Group) -> List[Group]:
    """One class per invariant of a packed group."""
    return [Group(f"{g.name}_i{j}", g.subject, [inv], g.raising) for j, inv in enumerate(g.invariants)]


def all_candidates() -> Iterator[Tuple[str, str]]:
    for subject in SUBJECTS:
        for src in sources(subject):
            yield subject, src
