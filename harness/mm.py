"""
Facade of the meta-model platform library: ``from harness import mm``.

Modules
-------
* ``harness.mm_model``  abstract meta-model (dataclasses), ``render``, ``render_expr``
* ``harness.mm_gen``    ``enumerate_hierarchies``, ``random_mm``, ``mutants``
* ``harness.mm_run``    ``load``, ``snippets_for``, ``generate``, ``smoke``, ``load_python_sdk``
* ``harness.mm_inst``   ``random_instance``, ``mutate_jsonable``, ``mutate_xml``, ``eval_invariant_python``

API at a glance (details in the docstrings; ``tools/selftest_mm.py`` exercises everything)
-----------------------------------------------------------------------------------------
model       MM(classes, enums, constrained_primitives, constants, constant_sets, verification_functions,
               version, xml_namespace, description, order)
            Class(name, bases, abstract, props, invariants, methods, with_model_type, description, impl_specific, ctor)
            Prop(name, type, description)   types: Prim('str'|'int'|'float'|'bool'|'bytes') | Ref(name) | ListOf(T) | OptionalOf(T)
            Invariant(description, expr)    Enum(name, [EnumLiteral(name, value, description)])  /  Enum.of(name, [(n, v)])
            ConstrainedPrimitive(name, base, bases, invariants)   ConstantPrimitive(name, type, value)
            ConstantSet(name, item_type, values, superset_of)     Method, Arg, Ctor (explicit constructor)
            PatternFn(name, parts, variables, arg, style) / PatternFn.simple(name, pattern); TranspilableFn; ImplSpecificFn
expressions Name Member Index Comparison IsIn Implication MethodCall FunctionCall Constant IsNone IsNotNone Not And Or
            Add Sub JoinedStr Any_ All ForEach ForRange;  helpers SELF, prop(name), length(e); statements Assign, Return
render      render(mm, header=True) -> str      render_expr(expr, full_parens=False) -> str      render_type, render_constant
structure   ancestors, descendants, concrete_descendants, all_props, all_invariants, default_ctor, walk_expr
generators  enumerate_hierarchies(max_classes, abstract_mixes=True, all_orders_up_to=4, base_orders=False) -> Iterator[Hierarchy]
            hierarchy_to_mm(h, props_per_class=1, invariants=True, holder=False, with_model_type="roots") -> MM
            dag_shapes(n), legal_orders(parents)
            random_mm(rng, size=4, features=Features()) -> MM        Features (toggles + hazard flags), Features.everything()
            mutants(mm, rng=None, max_sites_per_rule=2) -> Iterator[(rule_id, source_text)]      RULES
            safe_pattern(rng, depth=2) -> str    sample_match(pattern, rng) -> str | None    reserved_names(), is_safe_name(n)
running     load(source_text, scratch_dir=None) -> Loaded  (unpacks as (symbol_table | None, error_text | None); .crash .traceback .atok)
            snippets_for(target, symbol_table, module_name="aasv_dummy") -> {relpath: text}        TARGETS
            generate(target, source_text, out_dir, snippets=None, *, symbol_table=None, module_name=..., cache_dir=None,
                     discover=True) -> Result(rc, stdout, stderr, exception, traceback, seconds, snippets, out_dir)
            smoke(source_text) -> Result
            load_python_sdk(source_text, scratch_dir=None) -> SDK  (.types .verification .jsonization .xmlization .stringification
                     .constants .common .error .class_of(n) .enum_of(n) .from_jsonable(n) .from_xml_str(n) .to_jsonable .to_xml_str .close())
            parse_expr(text) -> Expr, expr_from_project_tree(node)   (the project's parse rules -> our expression type)
            new_scratch(prefix), scratch_root(), redirected_tempdir(path)
instances   random_instance(sdk, mm, cls_name, rng, satisfy_invariants=None, *, max_tries=300, max_depth=3,
                            special_floats=False, xml_safe=True) -> Built(instance, tries, satisfied, checks, cls)
            random_value(sdk, mm, type, rng, ...)      check_invariants(mm, sdk, instance) -> [Checked(path, owner, description, result)]
            eval_invariant_python(mm, cls, inv, instance_values, env=None) -> value | exception class    is_exception(r)
            invariant_env(mm, impl=None) -> Env (.scope, .enums)     invariant_source(inv)     hints_for_class, hints_for_type
            mutate_jsonable(doc, rng) -> (doc, label)   mutate_xml(text, rng) -> (text, label)   duplicate_key_json_text(doc, rng)
"""
from harness.mm_model import *  # noqa: F401,F403
from harness.mm_model import Any_, _prec  # noqa: F401
from harness.mm_run import *  # noqa: F401,F403
from harness.mm_run import (  # noqa: F401
    Loaded, Result, SDK, TARGETS, REPO, generate, load, load_python_sdk, missing_snippet_keys, new_scratch,
    redirected_tempdir, scratch_root, smoke, snippets_for, expr_from_project_tree, parse_expr,
)
from harness.mm_gen import *  # noqa: F401,F403
from harness.mm_gen import (  # noqa: F401
    Features, Hierarchy, RULES, dag_shapes, enumerate_hierarchies, hierarchy_to_mm, is_safe_name, legal_orders,
    mutants, random_mm, reserved_names, safe_pattern, sample_match,
)
from harness.mm_inst import *  # noqa: F401,F403
from harness.mm_inst import (  # noqa: F401
    Built, Checked, Env, Hint, Impossible, check_invariants, duplicate_key_json_text, eval_invariant_python,
    hints_for_class, hints_for_type, invariant_env, invariant_source, is_exception, mutate_jsonable, mutate_xml,
    random_instance, random_value,
)
