"""
Facade of the meta-model platform library: ``from harness import mm``.

* ``harness.mm_model``  abstract meta-model (dataclasses), ``render``, ``render_expr``
* ``harness.mm_gen``    ``enumerate_hierarchies``, ``random_mm``, ``mutants``
* ``harness.mm_run``    ``load``, ``snippets_for``, ``generate``, ``smoke``, ``load_python_sdk``
* ``harness.mm_inst``   ``random_instance``, ``mutate_jsonable``, ``mutate_xml``, ``eval_invariant_python``

See the module docstrings for the conventions; ``tools/selftest_mm.py`` exercises everything.
"""
from harness.mm_model import *  # noqa: F401,F403
from harness.mm_model import Any_, _prec  # noqa: F401
from harness.mm_run import *  # noqa: F401,F403
from harness.mm_run import (  # noqa: F401
    Loaded, Result, SDK, TARGETS, generate, load, load_python_sdk, missing_snippet_keys, new_scratch,
    redirected_tempdir, scratch_root, smoke, snippets_for,
)
from harness.mm_gen import *  # noqa: F401,F403
from harness.mm_gen import (  # noqa: F401
    Features, Hierarchy, RULES, dag_shapes, enumerate_hierarchies, hierarchy_to_mm, is_safe_name, legal_orders,
    mutants, random_mm, reserved_names, safe_pattern, sample_match,
)
from harness.mm_inst import *  # noqa: F401,F403
from harness.mm_inst import (  # noqa: F401
    Built, Checked, Env, Hint, Impossible, check_invariants, duplicate_key_json_text, eval_invariant_python,
    hints_for_class, hints_for_type, invariant_env, invariant_source, is_exception, mutate_jsonable, mutate_xml,
    random_instance, random_value,
)
