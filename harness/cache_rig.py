"""
Rig for C23/C24: runs the REAL ``run.load_model`` as N cooperative "processes" (threads that hand
control back at every file-system relevant call) under wrappers of ``pathlib.Path.*``, ``pickle.*``,
``tempfile.gettempdir``, ``uuid.uuid4``, ``hashlib.sha256`` and ``parse.source_to_atok``.

A *schedule* is the list of events of the Lean model (`Cache.Event`):
  ("sp", text_id, flag)  spawn a run on model text `text_id`
  ("st", i)              run i executes up to (and including) its next op
  ("ex", i)              the next op of run i raises instead (exception; finally/with still run)
  ("ki", i)              run i is killed (nothing runs any more, unflushed data are lost)
The same schedule is executed by the Lean driver; both sides print the same canonical state.
"""
from __future__ import annotations

import hashlib
import os
import pathlib
import pickle
import shutil
import tempfile
import threading
import uuid
from typing import Any, Callable, Dict, List, Optional, Sequence, Tuple

Event = Tuple[Any, ...]

_ORIG: Dict[str, Any] = {}
_TLS = threading.local()


class InjectedFault(OSError):
    pass


class Killed(BaseException):
    pass


class _Proc:
    def __init__(self, world: "World", idx: int, text_id: int, flag: bool) -> None:
        self.world = world
        self.idx = idx
        self.text_id = text_id
        self.flag = flag
        self.go = threading.Semaphore(0)
        self.arrived = threading.Semaphore(0)
        self.cmd = "go"
        self.at: Optional[str] = None
        self.finished = False
        self.dead = False
        self.raised = False
        self.outcome: Optional[str] = None
        self.exc_type: Optional[str] = None
        self.uuids: List[str] = []
        self.result: Any = None
        self.thread: Optional[threading.Thread] = None
        self.depth = 0


def _cur() -> Optional[_Proc]:
    pr = getattr(_TLS, "proc", None)
    return pr


class _WProxy:
    """Write handle with the buffering of io.BufferedWriter made explicit, so that a kill can lose it."""

    def __init__(self, pr: _Proc, path: pathlib.Path) -> None:
        self.pr = pr
        self.raw = open(path, "wb", buffering=0)
        self.buf = bytearray()
        self.closed = False

    def write(self, data: bytes) -> int:
        self.buf += data
        while len(self.buf) >= 8192:
            self.raw.write(bytes(self.buf[:8192]))
            del self.buf[:8192]
        return len(data)

    def flush(self) -> None:
        if self.buf:
            self.raw.write(bytes(self.buf))
            self.buf.clear()

    def close(self) -> None:
        if not self.closed:
            if not self.pr.dead:
                self.flush()
            self.raw.close()
            self.closed = True

    def __enter__(self) -> "_WProxy":
        return self

    def __exit__(self, et: Any, ev: Any, tb: Any) -> None:
        pr = self.pr
        if pr.dead:
            self.close()
            return
        if et is None:
            # normal end of the with block: the op closeW
            try:
                pr.world.gate(pr, "closeW")
            except BaseException:
                self.close()
                raise
            self.close()
        else:
            self.close()


class World:
    """One scenario: its own temp directory, model files and runs."""

    def __init__(self, root: pathlib.Path, texts: Dict[int, str]) -> None:
        self.root = root
        self.tmpdir = root / "tmp"
        self.tmpdir.mkdir(parents=True, exist_ok=True)
        self.models = root / "models"
        self.models.mkdir(exist_ok=True)
        self.texts = texts
        self.sha_to_id = {hashlib.sha256(t.encode()).hexdigest(): k for k, t in texts.items()}
        self.text_to_id = {t: k for k, t in texts.items()}
        self.procs: List[_Proc] = []
        self.log: List[str] = []
        self.trace: List[str] = []
        self.cache_dirs: List[pathlib.Path] = []

    # ---------------------------------------------------------------- canonical names
    def cache_dir(self) -> Optional[pathlib.Path]:
        ds = [d for d in self.tmpdir.iterdir() if d.is_dir()] if self.tmpdir.exists() else []
        return ds[0] if len(ds) == 1 else None

    def under_cache(self, p: Any) -> bool:
        try:
            pp = pathlib.Path(os.fspath(p))
        except TypeError:
            return False
        try:
            pp.relative_to(self.tmpdir)
            return True
        except ValueError:
            return False

    def kind(self, p: Any) -> str:
        name = pathlib.Path(os.fspath(p)).name
        if pathlib.Path(os.fspath(p)) == self.tmpdir or pathlib.Path(os.fspath(p)).parent == self.tmpdir:
            return "dir"
        if name.endswith(".pickle") and name.startswith("model-"):
            return "final"
        if name.endswith(".tmp"):
            return "tmp"
        return "other"

    def canon(self, p: Any) -> str:
        name = pathlib.Path(os.fspath(p)).name
        k = self.kind(p)
        if k == "final":
            sha = name[len("model-") : -len(".pickle")]
            return f"F{self.sha_to_id.get(sha, '?' + sha[:6])}"
        if k == "tmp":
            parts = name[len("model-") :].split(".") if name.startswith("model-") else ["?"]
            sha = parts[0]
            owner = "?"
            for pr in self.procs:
                if any(u in name for u in pr.uuids):
                    owner = str(pr.idx)
                    break
            return f"T{self.sha_to_id.get(sha, '?' + sha[:6])}.{owner}"
        return f"X{name}"

    # ---------------------------------------------------------------- gates
    def gate(self, pr: _Proc, name: str, mid: bool = False) -> None:
        pr.at = name
        pr.arrived.release()
        pr.go.acquire()
        cmd = pr.cmd
        if cmd == "kill":
            pr.dead = True
            if mid:
                # killed inside dump: the op never completed (the model has no entry for it)
                for k in range(len(self.trace) - 1, -1, -1):
                    if self.trace[k] == f"{pr.idx}:dump":
                        del self.trace[k]
                        break
            raise Killed()
        if cmd == "exc":
            if not mid:
                self.trace.append(f"{pr.idx}:{name}!")
            else:
                self._mark_raised(pr, "dump")
            pr.raised = True
            raise InjectedFault(f"injected at {name}")
        if not mid:
            self.trace.append(f"{pr.idx}:{name}")

    def _mark_raised(self, pr: _Proc, name: str) -> None:
        for k in range(len(self.trace) - 1, -1, -1):
            if self.trace[k] == f"{pr.idx}:{name}":
                self.trace[k] += "!"
                return

    def op(self, pr: _Proc, name: str, real: Callable[[], Any], acc: Sequence[str] = ()) -> Any:
        """Gate, then the real call; a raising real call is marked in the trace."""
        self.gate(pr, name)
        try:
            r = real()
        except Killed:
            raise
        except BaseException:
            self._mark_raised(pr, name)
            pr.raised = True
            raise
        for a in acc:
            self.log.append(f"{pr.idx}:{a}")
        return r

    # ---------------------------------------------------------------- runs
    def model_path(self, text_id: int) -> pathlib.Path:
        p = self.models / f"m{text_id}.py"
        if not p.exists():
            p.write_text(self.texts[text_id], encoding="utf-8")
        return p

    def _target(self, pr: _Proc) -> None:
        from aas_core_codegen import run

        _TLS.proc = pr
        try:
            res = run.load_model(self.model_path(pr.text_id), cache_model=pr.flag)
            if res[1] is None:
                self.gate(pr, "return")
                text = res[0][1].text
                pr.outcome = f"ok:{self.text_to_id.get(text, '?')}"
            else:
                pr.outcome = f"err:{pr.text_id}"
            pr.result = res
        except Killed:
            pr.outcome = "killed"
        except BaseException as e:  # noqa
            pr.outcome = "crashed"
            pr.exc_type = type(e).__name__
        finally:
            _TLS.proc = None
            pr.finished = True
            pr.arrived.release()

    def spawn(self, text_id: int, flag: bool) -> None:
        pr = _Proc(self, len(self.procs), text_id, flag)
        self.procs.append(pr)
        self.model_path(text_id)
        pr.thread = threading.Thread(target=self._target, args=(pr,), daemon=True)
        pr.thread.start()
        self._wait(pr)

    def _wait(self, pr: _Proc) -> None:
        if not pr.arrived.acquire(timeout=60):
            raise RuntimeError(f"run {pr.idx} did not come back to the controller (at {pr.at})")

    def _release(self, pr: _Proc, cmd: str) -> None:
        pr.cmd = cmd
        pr.go.release()
        self._wait(pr)

    def event(self, ev: Event, mid_dump: bool = False) -> None:
        if ev[0] == "sp":
            self.spawn(ev[1], bool(ev[2]))
            return
        i = ev[1]
        if i >= len(self.procs):
            return
        pr = self.procs[i]
        if pr.finished:
            return
        if ev[0] == "st":
            self._release(pr, "go")
            while not pr.finished and pr.at == "dump-mid":
                self._release(pr, "go")
        elif ev[0] in ("ex", "ki"):
            cmd = "exc" if ev[0] == "ex" else "kill"
            if mid_dump and pr.at == "dump":
                self._release(pr, "go")  # first half written
                if pr.finished or pr.at != "dump-mid":
                    return
            self._release(pr, cmd)
        else:
            raise ValueError(ev)

    def finish_all(self) -> None:
        """Let every unfinished thread die (used at the end of a scenario)."""
        for pr in self.procs:
            guard = 0
            while not pr.finished and guard < 100:
                self._release(pr, "kill")
                guard += 1

    # ---------------------------------------------------------------- observation
    def load_file(self, p: pathlib.Path) -> Tuple[bool, str]:
        """(complete?, src id) of a cache file, judged by really unpickling it."""
        try:
            with open(p, "rb") as f:
                obj = _ORIG["pickle.load"](f)
            text = obj.atok.text
            return True, str(self.text_to_id.get(text, "?"))
        except BaseException:  # noqa
            return False, "-"

    def files(self) -> List[str]:
        out = []
        d = self.cache_dir()
        if d is not None:
            for p in sorted(d.iterdir()):
                ok, src = self.load_file(p)
                out.append(f"{self.canon(p)}:{src}:{1 if ok else 0}")
        return sorted(out)

    def state(self) -> Dict[str, Any]:
        procs = []
        for pr in self.procs:
            if pr.finished:
                procs.append(pr.outcome)
            else:
                procs.append(("unw@" if pr.raised else "run@") + str(pr.at))
        return {
            "dir": "1" if self.cache_dir() is not None else "0",
            "files": self.files(),
            "procs": procs,
            "log": list(self.log),
            "trace": list(self.trace),
        }


# -------------------------------------------------------------------------- wrappers


def _w_gettempdir() -> str:
    pr = _cur()
    if pr is None or pr.dead or pr.depth:
        return _ORIG["tempfile.gettempdir"]()
    return pr.world.op(pr, "tempDir", lambda: str(pr.world.tmpdir), ["probe"])


def _w_uuid4() -> Any:
    pr = _cur()
    if pr is None or pr.dead or pr.depth:
        return _ORIG["uuid.uuid4"]()

    def real() -> Any:
        u = _ORIG["uuid.uuid4"]()
        pr.uuids.append(str(u))
        return u

    return pr.world.op(pr, "freshUid", real)


def _w_sha256(*a: Any, **kw: Any) -> Any:
    pr = _cur()
    if pr is None or pr.dead or pr.depth:
        return _ORIG["hashlib.sha256"](*a, **kw)
    return pr.world.op(pr, "hashText", lambda: _ORIG["hashlib.sha256"](*a, **kw))


def _w_source_to_atok(*a: Any, **kw: Any) -> Any:
    pr = _cur()
    if pr is None or pr.dead or pr.depth:
        return _ORIG["parse.source_to_atok"](*a, **kw)

    def real() -> Any:
        pr.depth += 1
        try:
            return _ORIG["parse.source_to_atok"](*a, **kw)
        finally:
            pr.depth -= 1

    return pr.world.op(pr, "compute", real)


def _w_read_text(self: pathlib.Path, *a: Any, **kw: Any) -> Any:
    pr = _cur()
    if pr is None or pr.dead or pr.depth or self.parent != pr.world.models:
        return _ORIG["Path.read_text"](self, *a, **kw)

    def real() -> Any:
        pr.depth += 1
        try:
            return _ORIG["Path.read_text"](self, *a, **kw)
        finally:
            pr.depth -= 1

    return pr.world.op(pr, "readText", real)


def _path_wrapper(name: str) -> Callable[..., Any]:
    orig_key = f"Path.{name}"

    def w(self: pathlib.Path, *a: Any, **kw: Any) -> Any:
        pr = _cur()
        if pr is None or pr.depth:
            return _ORIG[orig_key](self, *a, **kw)
        world = pr.world
        if not world.under_cache(self):
            return _ORIG[orig_key](self, *a, **kw)
        if pr.dead:
            return None  # a killed run does nothing any more

        def real() -> Any:
            pr.depth += 1
            try:
                return _ORIG[orig_key](self, *a, **kw)
            finally:
                pr.depth -= 1

        c = world.canon(self)
        k = world.kind(self)
        if name == "exists":
            return world.op(pr, f"exists.{k}", real, [f"look:{c}"])
        if name == "mkdir":
            return world.op(pr, "mkdir", real, ["mkdir"])
        if name in ("rename", "replace"):
            c2 = world.canon(a[0])
            k2 = world.kind(a[0])
            # the tmp name may only be attributable after the rename; canonicalise before
            return world.op(pr, f"rename.{k}.{k2}", real, [f"write:{c}", f"write:{c2}"])
        if name == "unlink":
            return world.op(pr, f"unlink.{k}", real, [f"write:{c}"])
        if name == "open":
            mode = a[0] if a else kw.get("mode", "r")
            if "w" in mode or "a" in mode or "+" in mode or "x" in mode:

                def real_w() -> Any:
                    pr.depth += 1
                    try:
                        return _WProxy(pr, self)
                    finally:
                        pr.depth -= 1

                return world.op(pr, f"openW.{k}", real_w, [f"write:{c}"])
            return world.op(pr, f"openR.{k}", real, [f"read:{c}"])
        raise AssertionError(name)

    return w


def _w_pickle_load(f: Any, *a: Any, **kw: Any) -> Any:
    pr = _cur()
    if pr is None or pr.dead or pr.depth:
        return _ORIG["pickle.load"](f, *a, **kw)

    def real() -> Any:
        pr.depth += 1
        try:
            return _ORIG["pickle.load"](f, *a, **kw)
        finally:
            pr.depth -= 1

    return pr.world.op(pr, "load", real)


def _w_pickle_dump(obj: Any, f: Any, *a: Any, **kw: Any) -> Any:
    pr = _cur()
    if pr is None or pr.dead or pr.depth:
        return _ORIG["pickle.dump"](obj, f, *a, **kw)

    def real() -> Any:
        pr.depth += 1
        try:
            data = _ORIG["pickle.dumps"](obj, *a, **kw)
        finally:
            pr.depth -= 1
        half = len(data) // 2
        f.write(data[:half])
        pr.world.gate(pr, "dump-mid", mid=True)
        f.write(data[half:])

    return pr.world.op(pr, "dump", real)


class Patched:
    """Context manager installing the wrappers (pass-through for every thread that is not a run)."""

    def __enter__(self) -> "Patched":
        import aas_core_codegen.parse as parse_pkg

        assert not _ORIG, "rig already installed"
        _ORIG["tempfile.gettempdir"] = tempfile.gettempdir
        _ORIG["uuid.uuid4"] = uuid.uuid4
        _ORIG["hashlib.sha256"] = hashlib.sha256
        _ORIG["parse.source_to_atok"] = parse_pkg.source_to_atok
        _ORIG["pickle.load"] = pickle.load
        _ORIG["pickle.dump"] = pickle.dump
        _ORIG["pickle.dumps"] = pickle.dumps
        _ORIG["Path.read_text"] = pathlib.Path.read_text
        for n in ("exists", "mkdir", "rename", "replace", "unlink", "open"):
            _ORIG[f"Path.{n}"] = getattr(pathlib.Path, n)
        tempfile.gettempdir = _w_gettempdir  # type: ignore
        uuid.uuid4 = _w_uuid4  # type: ignore
        hashlib.sha256 = _w_sha256  # type: ignore
        parse_pkg.source_to_atok = _w_source_to_atok  # type: ignore
        pickle.load = _w_pickle_load  # type: ignore
        pickle.dump = _w_pickle_dump  # type: ignore
        pathlib.Path.read_text = _w_read_text  # type: ignore
        for n in ("exists", "mkdir", "rename", "replace", "unlink", "open"):
            setattr(pathlib.Path, n, _path_wrapper(n))
        self.parse_pkg = parse_pkg
        return self

    def __exit__(self, *a: Any) -> None:
        tempfile.gettempdir = _ORIG["tempfile.gettempdir"]  # type: ignore
        uuid.uuid4 = _ORIG["uuid.uuid4"]  # type: ignore
        hashlib.sha256 = _ORIG["hashlib.sha256"]  # type: ignore
        self.parse_pkg.source_to_atok = _ORIG["parse.source_to_atok"]  # type: ignore
        pickle.load = _ORIG["pickle.load"]  # type: ignore
        pickle.dump = _ORIG["pickle.dump"]  # type: ignore
        pathlib.Path.read_text = _ORIG["Path.read_text"]  # type: ignore
        for n in ("exists", "mkdir", "rename", "replace", "unlink", "open"):
            setattr(pathlib.Path, n, _ORIG[f"Path.{n}"])
        _ORIG.clear()


# -------------------------------------------------------------------------- scenarios


def enc_event(ev: Event) -> str:
    if ev[0] == "sp":
        return f"sp.{ev[1]}.{1 if ev[2] else 0}"
    return f"{ev[0]}.{ev[1]}"


def model_request(invalid: Sequence[int], sched: Sequence[Event]) -> str:
    inv = ",".join(str(x) for x in sorted(invalid)) if invalid else "-"
    return " ".join(["run", inv] + [enc_event(e) for e in sched])


def parse_model_state(line: str) -> Dict[str, Any]:
    out: Dict[str, Any] = {}
    for part in line.split("|"):
        k, _, v = part.partition("=")
        out[k] = v
    st = {"dir": out.get("dir", "?")}
    for k in ("files", "procs", "log", "trace"):
        v = out.get(k, "-")
        st[k] = [] if v == "-" else v.split(",")
    files = []
    for f in st["files"]:
        name, src, comp = f.split(":")
        files.append(f"{name}:{src if comp == '1' else '-'}:{comp}")
    st["files"] = sorted(files)
    return st


def run_real(root: pathlib.Path, texts: Dict[int, str], sched: Sequence[Event], mid_dump: bool = False,
             observer: Optional[Callable[[World, int], None]] = None) -> Tuple[Dict[str, Any], World]:
    """Execute the schedule on the real code (the rig must be installed). Returns (state, world)."""
    world = World(root, texts)
    try:
        for k, ev in enumerate(sched):
            world.event(ev, mid_dump=mid_dump)
            if observer is not None:
                observer(world, k)
        st = world.state()
    finally:
        world.finish_all()
    return st, world
