"""
Rig for C23/C24: runs the REAL ``run.load_model`` as N cooperative "processes" (threads that hand
control back at every file-system relevant call) under wrappers of ``pathlib.Path.*``, ``pickle.*``,
``tempfile.gettempdir``, ``uuid.uuid4``, ``hashlib.sha256`` and ``parse.source_to_atok``.

A *schedule* is the list of events of the Lean model (`Cache.Event`):
  ("sp", text_id, flag)  spawn a run on model text `text_id`
  ("st", i)              run i executes up to (and including) its next op
  ("ex", i)              the next op of run i raises instead (exception; finally/with still run)
  ("ki", i)              run i is killed (nothing runs any more, unflushed data are lost)
  ("ed", i, text_id)     the model FILE that run i was started on is saved with text `text_id` (an editor saving while the
                         run is under way).  Not an event of the Lean model: the model's run carries the text it READS, so
                         the schedule is reduced (`reduce_edits`) to one without edits in which run i is spawned on the text
                         its file holds when it executes `readText` (theorem `Props.C23.reads_once`: exactly one read, first op).
The same schedule is executed by the Lean driver; both sides print the same canonical state.

Robustness contract (strengthening after the seeded changes C24-1/C24-3): nothing the code under test does may
surface as a Python exception of the harness.  A run that raises is the observation ``crashed`` (+ exception type),
a run that does not come back to the controller within the step timeout is the observation ``hang`` (the thread is
abandoned, its later wrapper calls are no-ops), an entry on which ``pickle.load`` does not terminate is found out in
a child process (``Prober``) BEFORE the run thread enters the C unpickler (a spinning C call can neither be interrupted
nor does it release the GIL reliably) and is the observation ``hang`` at op ``load``.  The schedule-level oracle
(``cache_common.Judge``) judges these observations; the schedule is the replay.

The rig does not make temporary names unique: ``uuid.uuid4`` is wrapped only to gate it and to remember which run drew
which value (it returns what the real ``uuid4`` returns, a distinct value per call); ``os.getpid``,
``threading.get_ident``, ``time.*`` … are untouched, so a tmp name that does not contain the uuid is shared between
the runs of one process exactly as it would be between threads of a real process.
"""
from __future__ import annotations

import atexit
import hashlib
import json
import os
import pathlib
import pickle
import select
import shutil
import subprocess
import sys
import tempfile
import threading
import time
import uuid
from typing import Any, Callable, Dict, List, Optional, Sequence, Tuple

Event = Tuple[Any, ...]

_ORIG: Dict[str, Any] = {}
_TLS = threading.local()


class InjectedFault(OSError):
    pass


class Killed(BaseException):
    pass


class Hung(BaseException):
    """Raised inside a run thread instead of entering a call that is known not to terminate."""


def _env_float(name: str, default: float) -> float:
    try:
        return float(os.environ.get(name, "") or default)
    except ValueError:
        return default


STEP_TIMEOUT = _env_float("VERIF_CACHE_STEP_TIMEOUT", 60.0)  # one op of one run (the compute op parses the model)
PROBE_TIMEOUT = _env_float("VERIF_CACHE_PROBE_TIMEOUT", 20.0)  # unpickling one cache file in the child process
HANGS = {"n": 0}  # hang observations of this process (the time-outs shrink once hangs are known to happen)


def step_timeout() -> float:
    return STEP_TIMEOUT if HANGS["n"] < 2 else min(STEP_TIMEOUT, 10.0)


# -------------------------------------------------------------------------- fingerprint of a load_model result


def fingerprint(res: Any) -> Any:
    """What two results of load_model are compared by (error text | source text + types, properties, literals)."""
    if res[1] is not None:
        return res[1]
    stbl, atok = res[0]
    out: List[Any] = [atok.text]
    for t in stbl.our_types:
        out.append([type(t).__name__, str(t.name), [str(p.name) for p in getattr(t, "properties", [])], [str(x.name) for x in getattr(t, "literals", [])]])
    return out


def fp_digest(fp: Any) -> str:
    return hashlib.sha256(json.dumps(fp, ensure_ascii=True, default=str).encode()).hexdigest()[:24]


# -------------------------------------------------------------------------- unpickling under a time limit


def _probe_main() -> None:  # runs in the child process (no wrappers installed there)
    for line in sys.stdin:
        path = line.rstrip("\n")
        if not path:
            continue
        try:
            with open(path, "rb") as f:
                obj = pickle.load(f)
            text = obj.atok.text
            ans = {"st": "ok", "text": hashlib.sha256(text.encode("utf-8", "surrogatepass")).hexdigest(),
                   "fp": fp_digest(fingerprint(((obj.symbol_table, obj.atok), None)))}
        except BaseException as e:  # noqa
            ans = {"st": "err:" + type(e).__name__}
        sys.stdout.write(json.dumps(ans) + "\n")
        sys.stdout.flush()


class Prober:
    """(status, sha256 of the unpickled source text, digest of the fingerprint) of the bytes of a cache file; status is
    ``ok`` | ``err:<Type>`` | ``hang``.  Decided by really unpickling in a child process that imports the repo under test;
    memoised by content."""

    def __init__(self) -> None:
        self.proc: Optional[subprocess.Popen] = None  # type: ignore
        self.memo: Dict[bytes, Tuple[str, str, str]] = {}
        self.lock = threading.Lock()
        self.dir: Optional[str] = None
        self.calls = 0

    def _start(self) -> None:
        from harness.core import REPO, VERIF

        code = f"import sys; sys.path[:0] = [{str(REPO)!r}, {str(VERIF)!r}]; from harness.cache_rig import _probe_main; _probe_main()"
        self.proc = subprocess.Popen([sys.executable, "-B", "-c", code], stdin=subprocess.PIPE, stdout=subprocess.PIPE, stderr=subprocess.DEVNULL)
        if self.dir is None:
            self.dir = tempfile.mkdtemp(prefix="aasverif-probe-", dir=os.environ.get("TMPDIR", "/tmp"))

    def stop(self) -> None:
        with self.lock:
            self._kill()
            if self.dir is not None:
                shutil.rmtree(self.dir, ignore_errors=True)
                self.dir = None

    def _kill(self) -> None:
        if self.proc is not None:
            try:
                self.proc.kill()
                self.proc.wait(timeout=10)
            except BaseException:  # noqa
                pass
            self.proc = None

    def probe(self, data: bytes) -> Tuple[str, str, str]:
        key = hashlib.blake2b(data, digest_size=16).digest()
        with self.lock:
            if key in self.memo:
                return self.memo[key]
            res = self._ask(data)
            self.memo[key] = res
            return res

    def _ask(self, data: bytes) -> Tuple[str, str, str]:
        self.calls += 1
        for attempt in (0, 1):
            if self.proc is None or self.proc.poll() is not None:
                self._start()
            assert self.proc is not None and self.dir is not None
            path = os.path.join(self.dir, "entry.bin")
            fd = os.open(path, os.O_WRONLY | os.O_CREAT | os.O_TRUNC, 0o600)
            try:
                view = memoryview(data)
                while len(view):
                    view = view[os.write(fd, view[: 1 << 20]) :]
            finally:
                os.close(fd)
            try:
                self.proc.stdin.write((path + "\n").encode())  # type: ignore
                self.proc.stdin.flush()  # type: ignore
                fdo = self.proc.stdout.fileno()  # type: ignore
                buf = b""
                deadline = time.time() + PROBE_TIMEOUT
                while not buf.endswith(b"\n"):
                    left = deadline - time.time()
                    if left <= 0:
                        self._kill()
                        return ("hang", "", "")
                    r, _, _ = select.select([fdo], [], [], left)
                    if r:
                        chunk = os.read(fdo, 65536)
                        if not chunk:
                            raise OSError("probe child closed its pipe")
                        buf += chunk
                ans = json.loads(buf.decode())
                return (ans["st"], ans.get("text", ""), ans.get("fp", ""))
            except (OSError, ValueError):
                # the child died (e.g. the unpickler ran out of memory or segfaulted on garbage): once more, then give up
                self._kill()
                if attempt == 1:
                    return ("err:ProbeChildDied", "", "")
        return ("err:ProbeChildDied", "", "")


PROBER = Prober()
atexit.register(PROBER.stop)


class _Proc:
    def __init__(self, world: "World", idx: int, text_id: int, flag: bool) -> None:
        self.world = world
        self.idx = idx
        self.text_id = text_id
        self.flag = flag
        self.lock = threading.Lock()
        self.go = threading.Semaphore(0)
        self.arrived = threading.Semaphore(0)
        self.cmd = "go"
        self.at: Optional[str] = None
        self.finished = False
        self.dead = False
        self.hung = False
        self.hang_at: Optional[str] = None
        self.raised = False
        self.outcome: Optional[str] = None
        self.exc_type: Optional[str] = None
        self.exc_msg = ""
        self.uuids: List[str] = []
        self.path: Optional[pathlib.Path] = None  # the model file of this run (one file per run: edits are per run)
        self.read_ids: List[Any] = []  # text ids the model file held at each read_text of this run
        self.result: Any = None
        self.thread: Optional[threading.Thread] = None
        self.depth = 0


def _cur() -> Optional[_Proc]:
    pr = getattr(_TLS, "proc", None)
    return pr


class _WProxy:
    """Write handle with the buffering of io.BufferedWriter made explicit, so that a kill can lose it."""

    def __init__(self, pr: _Proc, path: pathlib.Path) -> None:
        self.pr = pr
        self.raw = open(path, "wb", buffering=0)
        self.buf = bytearray()
        self.closed = False

    def write(self, data: bytes) -> int:
        self.buf += data
        while len(self.buf) >= 8192:
            self.raw.write(bytes(self.buf[:8192]))
            del self.buf[:8192]
        return len(data)

    def flush(self) -> None:
        if self.buf:
            self.raw.write(bytes(self.buf))
            self.buf.clear()

    def close(self) -> None:
        if not self.closed:
            if not self.pr.dead:
                self.flush()
            self.raw.close()
            self.closed = True

    # the rest of the file API, so that a harmless rewrite of the code under test (fsync, tell, name …) is not a crash
    def fileno(self) -> int:
        if not self.pr.dead:
            self.flush()
        return self.raw.fileno()

    def tell(self) -> int:
        return self.raw.tell() + len(self.buf)

    def writable(self) -> bool:
        return True

    def readable(self) -> bool:
        return False

    def seekable(self) -> bool:
        return False

    @property
    def name(self) -> Any:
        return self.raw.name

    @property
    def mode(self) -> str:
        return "wb"

    def writelines(self, lines: Any) -> None:
        for ln in lines:
            self.write(ln)

    def __enter__(self) -> "_WProxy":
        return self

    def __exit__(self, et: Any, ev: Any, tb: Any) -> None:
        pr = self.pr
        if pr.dead:
            self.close()
            return
        if et is None:
            # normal end of the with block: the op closeW
            try:
                pr.world.gate(pr, "closeW")
            except BaseException:
                self.close()
                raise
            self.close()
        else:
            self.close()


def kind_of_name(name: str) -> str:
    """Kind of a file of the cache directory by its name."""
    if name.endswith(".pickle") and name.startswith("model-"):
        return "final"
    if name.endswith(".tmp"):
        return "tmp"
    return "other"


class World:
    """One scenario: its own temp directory, model files and runs."""

    def __init__(self, root: pathlib.Path, texts: Dict[int, str]) -> None:
        self.root = root
        self.tmpdir = root / "tmp"
        self.tmpdir.mkdir(parents=True, exist_ok=True)
        self.models = root / "models"
        self.models.mkdir(exist_ok=True)
        self.texts = texts
        self.sha_to_id = {hashlib.sha256(t.encode()).hexdigest(): k for k, t in texts.items()}
        self.text_to_id = {t: k for k, t in texts.items()}
        self.procs: List[_Proc] = []
        self.log: List[str] = []
        self.trace: List[str] = []
        self.trace_dels = 0  # entries taken back (a dump that was killed in the middle never completed)
        self.cache_dirs: List[pathlib.Path] = []

    # ---------------------------------------------------------------- canonical names
    def cache_dir(self) -> Optional[pathlib.Path]:
        ds = [d for d in self.tmpdir.iterdir() if d.is_dir()] if self.tmpdir.exists() else []
        return ds[0] if len(ds) == 1 else None

    def under_cache(self, p: Any) -> bool:
        try:
            pp = pathlib.Path(os.fspath(p))
        except TypeError:
            return False
        try:
            pp.relative_to(self.tmpdir)
            return True
        except ValueError:
            return False

    def kind(self, p: Any) -> str:
        name = pathlib.Path(os.fspath(p)).name
        if pathlib.Path(os.fspath(p)) == self.tmpdir or pathlib.Path(os.fspath(p)).parent == self.tmpdir:
            return "dir"
        if name.endswith(".pickle") and name.startswith("model-"):
            return "final"
        if name.endswith(".tmp"):
            return "tmp"
        return "other"

    def canon(self, p: Any) -> str:
        name = pathlib.Path(os.fspath(p)).name
        k = self.kind(p)
        if k == "final":
            sha = name[len("model-") : -len(".pickle")]
            return f"F{self.sha_to_id.get(sha, '?' + sha[:6])}"
        if k == "tmp":
            parts = name[len("model-") :].split(".") if name.startswith("model-") else ["?"]
            sha = parts[0]
            owner = "?"
            for pr in self.procs:
                if any(u in name for u in pr.uuids):
                    owner = str(pr.idx)
                    break
            return f"T{self.sha_to_id.get(sha, '?' + sha[:6])}.{owner}"
        return f"X{name}"

    # ---------------------------------------------------------------- gates
    def gate(self, pr: _Proc, name: str, mid: bool = False) -> None:
        pr.at = name
        pr.arrived.release()
        pr.go.acquire()
        cmd = pr.cmd
        if cmd == "kill":
            pr.dead = True
            if mid:
                # killed inside dump: the op never completed (the model has no entry for it)
                for k in range(len(self.trace) - 1, -1, -1):
                    if self.trace[k] == f"{pr.idx}:dump":
                        del self.trace[k]
                        self.trace_dels += 1
                        break
            raise Killed()
        if cmd == "exc":
            if not mid:
                self.trace.append(f"{pr.idx}:{name}!")
            else:
                self._mark_raised(pr, "dump")
            pr.raised = True
            raise InjectedFault(f"injected at {name}")
        if not mid:
            self.trace.append(f"{pr.idx}:{name}")

    def _mark_raised(self, pr: _Proc, name: str) -> None:
        for k in range(len(self.trace) - 1, -1, -1):
            if self.trace[k] == f"{pr.idx}:{name}":
                self.trace[k] += "!"
                return

    def op(self, pr: _Proc, name: str, real: Callable[[], Any], acc: Sequence[str] = ()) -> Any:
        """Gate, then the real call; a raising real call is marked in the trace."""
        self.gate(pr, name)
        try:
            r = real()
        except (Killed, Hung):
            raise
        except BaseException:
            self._mark_raised(pr, name)
            pr.raised = True
            raise
        for a in acc:
            self.log.append(f"{pr.idx}:{a}")
        return r

    # ---------------------------------------------------------------- runs
    def model_path(self, pr: _Proc) -> pathlib.Path:
        if pr.path is None:
            pr.path = self.models / f"m{pr.text_id}.r{pr.idx}.py"
            pr.path.write_text(self.texts[pr.text_id], encoding="utf-8")
        return pr.path

    def edit(self, i: int, text_id: int) -> None:
        """An editor saves the model file of run i with another text (atomically: write aside + rename)."""
        if i >= len(self.procs):
            return
        pr = self.procs[i]
        path = self.model_path(pr)
        tmp = path.with_name(path.name + ".save")
        with open(tmp, "w", encoding="utf-8") as f:
            f.write(self.texts[text_id])
        os.replace(tmp, path)

    def _target(self, pr: _Proc) -> None:
        from aas_core_codegen import run

        _TLS.proc = pr
        outcome: Optional[str] = None
        result: Any = None
        exc: Tuple[Optional[str], str] = (None, "")
        hung_here = False
        try:
            res = run.load_model(self.model_path(pr), cache_model=pr.flag)
            if res[1] is None:
                self.gate(pr, "return")
                text = res[0][1].text
                outcome = f"ok:{self.text_to_id.get(text, '?')}"
            else:
                # the error report of the text that was read (the file may have been saved with another text before)
                rid = pr.read_ids[0] if pr.read_ids and pr.read_ids[0] != "?" else pr.text_id
                outcome = f"err:{rid}"
            result = res
        except Killed:
            outcome = "killed"
        except Hung:
            outcome = "hang"
            hung_here = True
        except BaseException as e:  # noqa
            outcome = "crashed"
            exc = (type(e).__name__, str(e)[:200])
        finally:
            _TLS.proc = None
            with pr.lock:
                if not pr.hung:  # otherwise the controller gave this run up already: what it does now is not observed
                    pr.outcome, pr.result = outcome, result
                    pr.exc_type, pr.exc_msg = exc
                    if hung_here:
                        pr.hung = True
                        pr.hang_at = pr.at
                        HANGS["n"] += 1
                    pr.finished = True
            pr.arrived.release()

    def spawn(self, text_id: int, flag: bool) -> None:
        pr = _Proc(self, len(self.procs), text_id, flag)
        self.procs.append(pr)
        self.model_path(pr)
        pr.thread = threading.Thread(target=self._target, args=(pr,), daemon=True)
        pr.thread.start()
        self._wait(pr)

    def _wait(self, pr: _Proc) -> None:
        if pr.arrived.acquire(timeout=step_timeout()):
            return
        # The run did not come back: an OBSERVATION (it blocks on something another run did, or spins), never an error of
        # the harness.  The thread is abandoned (daemon); whatever it does later through the wrappers is a no-op.
        with pr.lock:
            if pr.finished:  # it finished in the very moment of the time-out
                return
            pr.hung = True
            pr.hang_at = pr.at
            pr.dead = True
            pr.outcome = "hang"
            pr.finished = True
            HANGS["n"] += 1

    def _release(self, pr: _Proc, cmd: str) -> None:
        pr.cmd = cmd
        pr.go.release()
        self._wait(pr)

    def event(self, ev: Event, mid_dump: bool = False) -> None:
        if ev[0] == "sp":
            self.spawn(ev[1], bool(ev[2]))
            return
        if ev[0] == "ed":
            self.edit(ev[1], ev[2])
            return
        i = ev[1]
        if i >= len(self.procs):
            return
        pr = self.procs[i]
        if pr.finished:
            return
        if ev[0] == "st":
            self._release(pr, "go")
            while not pr.finished and pr.at == "dump-mid":
                self._release(pr, "go")
        elif ev[0] in ("ex", "ki"):
            cmd = "exc" if ev[0] == "ex" else "kill"
            if mid_dump and pr.at == "dump":
                self._release(pr, "go")  # first half written
                if pr.finished or pr.at != "dump-mid":
                    return
            self._release(pr, cmd)
        else:
            raise ValueError(ev)

    def finish_all(self) -> None:
        """Let every unfinished thread die (used at the end of a scenario)."""
        for pr in self.procs:
            guard = 0
            while not pr.finished and guard < 100:
                self._release(pr, "kill")
                guard += 1
            if not pr.finished:
                # swallows the kill again and again (a `while True: try … except BaseException`): abandon it
                pr.dead = True
                pr.finished = True
                pr.outcome = pr.outcome or "hang"

    # ---------------------------------------------------------------- observation
    def probe_file(self, p: pathlib.Path) -> Tuple[str, str, str]:
        """(status, src id, fingerprint digest) of a cache file, judged by really unpickling it (in the probe child:
        the content may come from a changed tree and need not be something pickle.load terminates on)."""
        try:
            with open(p, "rb") as f:
                data = f.read()
        except OSError as e:
            return ("err:" + type(e).__name__, "-", "")
        st, text_sha, fp = PROBER.probe(data)
        if st != "ok":
            return (st, "-", "")
        return (st, str(self.sha_to_id.get(text_sha, "?")), fp)

    def load_file(self, p: pathlib.Path) -> Tuple[bool, str]:
        """(complete?, src id) of a cache file."""
        st, src, _ = self.probe_file(p)
        return (st == "ok", src)

    def files(self) -> List[str]:
        out = []
        d = self.cache_dir()
        if d is not None:
            for p in sorted(d.iterdir()):
                ok, src = self.load_file(p)
                out.append(f"{self.canon(p)}:{src}:{1 if ok else 0}")
        return sorted(out)

    def state(self) -> Dict[str, Any]:
        procs = []
        for pr in self.procs:
            if pr.hung:
                procs.append(f"hang@{pr.hang_at}")
            elif pr.finished:
                procs.append(pr.outcome)
            else:
                procs.append(("unw@" if pr.raised else "run@") + str(pr.at))
        return {
            "dir": "1" if self.cache_dir() is not None else "0",
            "files": self.files(),
            "procs": procs,
            "log": list(self.log),
            "trace": list(self.trace),
        }


# -------------------------------------------------------------------------- wrappers


def _w_gettempdir() -> str:
    pr = _cur()
    if pr is None or pr.dead or pr.depth:
        return _ORIG["tempfile.gettempdir"]()
    return pr.world.op(pr, "tempDir", lambda: str(pr.world.tmpdir), ["probe"])


def _w_uuid4() -> Any:
    pr = _cur()
    if pr is None or pr.dead or pr.depth:
        return _ORIG["uuid.uuid4"]()

    def real() -> Any:
        u = _ORIG["uuid.uuid4"]()
        pr.uuids.append(str(u))
        return u

    return pr.world.op(pr, "freshUid", real)


def _w_sha256(*a: Any, **kw: Any) -> Any:
    pr = _cur()
    if pr is None or pr.dead or pr.depth:
        return _ORIG["hashlib.sha256"](*a, **kw)
    return pr.world.op(pr, "hashText", lambda: _ORIG["hashlib.sha256"](*a, **kw))


def _w_source_to_atok(*a: Any, **kw: Any) -> Any:
    pr = _cur()
    if pr is None or pr.dead or pr.depth:
        return _ORIG["parse.source_to_atok"](*a, **kw)

    def real() -> Any:
        pr.depth += 1
        try:
            return _ORIG["parse.source_to_atok"](*a, **kw)
        finally:
            pr.depth -= 1

    return pr.world.op(pr, "compute", real)


def _w_read_text(self: pathlib.Path, *a: Any, **kw: Any) -> Any:
    pr = _cur()
    if pr is None or pr.dead or pr.depth or self.parent != pr.world.models:
        return _ORIG["Path.read_text"](self, *a, **kw)

    def real() -> Any:
        pr.depth += 1
        try:
            text = _ORIG["Path.read_text"](self, *a, **kw)
        finally:
            pr.depth -= 1
        pr.read_ids.append(pr.world.text_to_id.get(text, "?"))
        return text

    return pr.world.op(pr, "readText", real)


def _path_wrapper(name: str) -> Callable[..., Any]:
    orig_key = f"Path.{name}"

    def w(self: pathlib.Path, *a: Any, **kw: Any) -> Any:
        pr = _cur()
        if pr is None or pr.depth:
            return _ORIG[orig_key](self, *a, **kw)
        world = pr.world
        if not world.under_cache(self):
            return _ORIG[orig_key](self, *a, **kw)
        if pr.dead:
            return None  # a killed run does nothing any more

        def real() -> Any:
            pr.depth += 1
            try:
                return _ORIG[orig_key](self, *a, **kw)
            finally:
                pr.depth -= 1

        c = world.canon(self)
        k = world.kind(self)
        if name == "exists":
            return world.op(pr, f"exists.{k}", real, [f"look:{c}"])
        if name == "mkdir":
            return world.op(pr, "mkdir", real, ["mkdir"])
        if name in ("rename", "replace"):
            tgt = a[0] if a else kw.get("target", self)
            c2 = world.canon(tgt)
            k2 = world.kind(tgt)
            # the tmp name may only be attributable after the rename; canonicalise before
            return world.op(pr, f"rename.{k}.{k2}", real, [f"write:{c}", f"write:{c2}"])
        if name == "unlink":
            return world.op(pr, f"unlink.{k}", real, [f"write:{c}"])
        if name == "open":
            mode = str(a[0] if a else kw.get("mode", "r"))
            if "w" in mode or "a" in mode or "+" in mode or "x" in mode:

                def real_w() -> Any:
                    pr.depth += 1
                    try:
                        return _WProxy(pr, self)
                    finally:
                        pr.depth -= 1

                return world.op(pr, f"openW.{k}", real_w, [f"write:{c}"])
            return world.op(pr, f"openR.{k}", real, [f"read:{c}"])
        raise AssertionError(name)

    return w


def _w_pickle_load(f: Any, *a: Any, **kw: Any) -> Any:
    pr = _cur()
    if pr is None or pr.dead or pr.depth:
        return _ORIG["pickle.load"](f, *a, **kw)

    def real() -> Any:
        pr.depth += 1
        try:
            # what is about to be unpickled may be anything if another run damaged the entry: find out in the probe child
            # whether pickle.load terminates on it before entering the C unpickler in this thread
            try:
                pos = f.tell()
                data = f.read()
                f.seek(pos)
            except BaseException:  # noqa  (not a real file: nothing to probe)
                data = None
            if data is not None and PROBER.probe(data)[0] == "hang":
                raise Hung("pickle.load does not terminate on this entry")
            return _ORIG["pickle.load"](f, *a, **kw)
        finally:
            pr.depth -= 1

    return pr.world.op(pr, "load", real)


def _w_pickle_dump(obj: Any, f: Any, *a: Any, **kw: Any) -> Any:
    pr = _cur()
    if pr is None or pr.dead or pr.depth:
        return _ORIG["pickle.dump"](obj, f, *a, **kw)

    def real() -> Any:
        pr.depth += 1
        try:
            data = _ORIG["pickle.dumps"](obj, *a, **kw)
        finally:
            pr.depth -= 1
        half = len(data) // 2
        f.write(data[:half])
        pr.world.gate(pr, "dump-mid", mid=True)
        f.write(data[half:])

    return pr.world.op(pr, "dump", real)


class Patched:
    """Context manager installing the wrappers (pass-through for every thread that is not a run)."""

    def __enter__(self) -> "Patched":
        import aas_core_codegen.parse as parse_pkg

        assert not _ORIG, "rig already installed"
        _ORIG["tempfile.gettempdir"] = tempfile.gettempdir
        _ORIG["uuid.uuid4"] = uuid.uuid4
        _ORIG["hashlib.sha256"] = hashlib.sha256
        _ORIG["parse.source_to_atok"] = parse_pkg.source_to_atok
        _ORIG["pickle.load"] = pickle.load
        _ORIG["pickle.dump"] = pickle.dump
        _ORIG["pickle.dumps"] = pickle.dumps
        _ORIG["Path.read_text"] = pathlib.Path.read_text
        for n in ("exists", "mkdir", "rename", "replace", "unlink", "open"):
            _ORIG[f"Path.{n}"] = getattr(pathlib.Path, n)
        tempfile.gettempdir = _w_gettempdir  # type: ignore
        uuid.uuid4 = _w_uuid4  # type: ignore
        hashlib.sha256 = _w_sha256  # type: ignore
        parse_pkg.source_to_atok = _w_source_to_atok  # type: ignore
        pickle.load = _w_pickle_load  # type: ignore
        pickle.dump = _w_pickle_dump  # type: ignore
        pathlib.Path.read_text = _w_read_text  # type: ignore
        for n in ("exists", "mkdir", "rename", "replace", "unlink", "open"):
            setattr(pathlib.Path, n, _path_wrapper(n))
        self.parse_pkg = parse_pkg
        return self

    def __exit__(self, *a: Any) -> None:
        tempfile.gettempdir = _ORIG["tempfile.gettempdir"]  # type: ignore
        uuid.uuid4 = _ORIG["uuid.uuid4"]  # type: ignore
        hashlib.sha256 = _ORIG["hashlib.sha256"]  # type: ignore
        self.parse_pkg.source_to_atok = _ORIG["parse.source_to_atok"]  # type: ignore
        pickle.load = _ORIG["pickle.load"]  # type: ignore
        pickle.dump = _ORIG["pickle.dump"]  # type: ignore
        pathlib.Path.read_text = _ORIG["Path.read_text"]  # type: ignore
        for n in ("exists", "mkdir", "rename", "replace", "unlink", "open"):
            setattr(pathlib.Path, n, _ORIG[f"Path.{n}"])
        _ORIG.clear()


# -------------------------------------------------------------------------- scenarios


def enc_event(ev: Event) -> str:
    if ev[0] == "sp":
        return f"sp.{ev[1]}.{1 if ev[2] else 0}"
    return f"{ev[0]}.{ev[1]}"


def reduce_edits(sched: Sequence[Event]) -> List[Event]:
    """The schedule without its ("ed", i, t) events, for the Lean model: run i is spawned on the text its model file holds
    when it executes its first op (`readText`: `Props.C23.reads_once` — the skeleton reads the file exactly once, first);
    an edit after that moment changes nothing for the run (the model carries the text that was read)."""
    if not any(e[0] == "ed" for e in sched):
        return list(sched)
    text: Dict[int, int] = {}  # run -> text its file holds now
    started: Dict[int, bool] = {}  # run -> has executed (or failed at) its first op
    n = 0
    for e in sched:
        if e[0] == "sp":
            text[n] = e[1]
            started[n] = False
            n += 1
        elif e[0] == "ed":
            if e[1] in text and not started[e[1]]:
                text[e[1]] = e[2]
        elif e[1] in started:
            started[e[1]] = True
    out: List[Event] = []
    n = 0
    for e in sched:
        if e[0] == "sp":
            out.append(("sp", text[n], e[2]))
            n += 1
        elif e[0] != "ed":
            out.append(e)
    return out


def model_request(invalid: Sequence[int], sched: Sequence[Event]) -> str:
    inv = ",".join(str(x) for x in sorted(invalid)) if invalid else "-"
    return " ".join(["run", inv] + [enc_event(e) for e in reduce_edits(sched)])


def parse_model_state(line: str) -> Dict[str, Any]:
    out: Dict[str, Any] = {}
    for part in line.split("|"):
        k, _, v = part.partition("=")
        out[k] = v
    st = {"dir": out.get("dir", "?")}
    for k in ("files", "procs", "log", "trace"):
        v = out.get(k, "-")
        st[k] = [] if v == "-" else v.split(",")
    files = []
    for f in st["files"]:
        name, src, comp = f.split(":")
        files.append(f"{name}:{src if comp == '1' else '-'}:{comp}")
    st["files"] = sorted(files)
    return st


def run_real(root: pathlib.Path, texts: Dict[int, str], sched: Sequence[Event], mid_dump: bool = False,
             observer: Optional[Callable[[World, int], None]] = None) -> Tuple[Dict[str, Any], World]:
    """Execute the schedule on the real code (the rig must be installed). Returns (state, world)."""
    world = World(root, texts)
    try:
        for k, ev in enumerate(sched):
            world.event(ev, mid_dump=mid_dump)
            if observer is not None:
                observer(world, k)
            if any(pr.hung for pr in world.procs):
                break  # observed and judged; the rest of the schedule would only wait for more time-outs
        st = world.state()
    finally:
        world.finish_all()
    return st, world
