"""Hand-written probes of the front end for C01: small models, each with one rarely written construct (seed independent).

Every probe is a complete model body; `probes()` appends the version/namespace tail.  New probes: append to `_PROBES` (separator line `#---`).
"""
from typing import List

TAIL = '\n\n__version__ = "dummy"\n__xml_namespace__ = "https://dummy.com"\n'

_PROBES = r'''class E(Enum):
    A = "a"
    A = "b"
#---
def __init__(x: int) -> None:
    pass
#---
@verification
def f(self, x: int) -> bool:
    return True
#---
@verification
@implementation_specific
def f(self, x: int) -> bool:
    pass
#---
class A:
    x: Set[int]
#---
class A:
    x: List[int, str]
#---
class A:
    x: Optional[int, str]
#---
class A:
    x: "List[A]"
#---
class A:
    x: ""
#---
@invariant(lambda self: f()(self.x), "d")
class A:
    x: int
#---
@invariant(lambda self: self.x[0](1), "d")
class A:
    x: int
#---
@invariant(lambda self: "a"(1), "d")
class A:
    x: int
#---
class A(B, B):
    pass
class B:
    pass
#---
class A(str, B):
    pass
class B:
    pass
#---
class A(str, int):
    pass
#---
class A(int):
    x: int
#---
@abstract
class A(int):
    pass
#---
class A(int):
    def f(self) -> int:
        return 1
#---
class A:
    """:class:`a.b.A`"""
#---
@verification
def f(x: str) -> bool:
    f"a"
    return match("a", x) is not None
#---
class Größe:
    pass
#---
class A:
    größe: int
#---
class A:
    x: Größe
#---
@invariant(lambda self: self.größe > 0, "d")
class A:
    x: int
#---
@invariant(lambda self: f(größe=1), "d")
class A:
    x: int
#---
@verification
def f(größe: int) -> bool:
    return True
#---
@verification
def größe(x: int) -> bool:
    return True
#---
X: Set[str] = constant_set(values=["a"], superset_of=[Größe])
#---
@invariant(lambda größe: True, "d")
class A:
    x: int
#---
class A:
    def __init__(self, self: int) -> None:
        pass
#---
class A:
    def f(self, x: int, x: int) -> None:
        pass
#---
@verification
def f(x: Unknown) -> bool:
    return True
#---
@verification
def f(x: int) -> Unknown:
    return True
#---
@verification
def f(x: List[int, int]) -> bool:
    return True
#---
@verification
def f(x: Optional) -> bool:
    return True
#---
@verification
def f(x: int) -> Set[str]:
    return True
#---
@verification
@implementation_specific
def f(x: Set[str]) -> bool:
    pass
#---
class A:
    def __init__(self) -> None:
        """Do something."""
        """Do something."""
#---
class A:
    def f(self) -> None:
        """Do something."""
        """Do something."""
#---
class A:
    x: int
    def __init__(self, x: Set[int]) -> None:
        self.x = x
#---
class A:
    def f(self, x: int) -> Set[int]:
        pass
#---
class E(Enum):
    A = "a"
    B = "a"
#---
class E(Enum):
    A = "a"
    B = "b"

X: Set[E] = constant_set(values=[E.A, E.A])
#---
X: Set[str] = constant_set(values=["a", "a"])
#---
X: Set[int] = constant_set(values=[1, 1])
#---
X: Set[int] = constant_set(values=[1, True])
#---
X: Set[str] = constant_set(values=["a", 1])
#---
X: Set[bytearray] = constant_set(values=[b"a", b"a"])
#---
X: Set[float] = constant_set(values=[1.0, 1])
#---
X: Set[bool] = constant_set(values=[True, True])
#---
class A:
    x: int
    def __init__(self, x: int, x: int) -> None:
        self.x = x
#---
@abstract
class A:
    x: int
@abstract
class B:
    x: int
class C(A, B):
    pass
#---
@abstract
class A:
    x: int
@abstract
class B:
    x: str
class C(A, B):
    pass
#---
@abstract
class A:
    def f(self) -> int:
        pass
@abstract
class B:
    def f(self) -> int:
        pass
class C(A, B):
    pass
#---
class A:
    x: int
class C(A):
    x: int
#---
class A:
    def f(self) -> int:
        pass
class C(A):
    def f(self) -> int:
        pass
#---
class A:
    x: List[Optional[int, str]]
#---
class A:
    x: Optional[List[int, str]]
#---
class A:
    x: List[List[int]]
#---
class A:
    x: Optional[Optional[int]]
#---
class A:
    x: List[Optional[int]]
#---
class A:
    x: Optional[List[Optional[List[int]]]]
#---
class A:
    x: Optional[()]
#---
class A:
    x: List[()]
#---
class A:
    x: Optional[int,]
#---
class A:
    x: A
#---
class A:
    x: List[A]
#---
class E(Enum):
    a = "a"
class A:
    x: List[E]
#---
X: Set[A] = constant_set(values=[])
class A:
    pass
#---
X: Set[E] = constant_set(values=[])
class E(Enum):
    pass
#---
X: Set[E] = constant_set(values=["a"])
class E(Enum):
    a = "a"
#---
X: Set[E] = constant_set(values=[E.b])
class E(Enum):
    a = "a"
#---
X: Set[E] = constant_set(values=[F.a])
class E(Enum):
    a = "a"
#---
X: Set[E] = constant_set(values=[E.a.b])
class E(Enum):
    a = "a"
#---
X: Set[E] = constant_set(values=[f().a])
class E(Enum):
    a = "a"
#---
X: Set[str] = constant_set(values=[E.a])
class E(Enum):
    a = "a"
#---
X: Set[int] = constant_set(values=[None])
#---
X: Set[str] = constant_set(values=[...])
#---
X: Set[int] = constant_set(values=[2**70])
#---
X: Set[float] = constant_set(values=[1e400])
#---
X: Set[int] = constant_set(values=[1j])
#---
X: Set[Code] = constant_set(values=["a"])
class Code(str):
    pass
#---
class A:
    def f(self, x: int) -> int:
        """
        Do.

        :param: y
        """
#---
class A:
    def f(self, x: int) -> int:
        """
        Do.

        :param:
        """
#---
class A:
    def f(self, x: int) -> int:
        """
        Do.

        :param x y: z
        """
#---
class A:
    def f(self, x: int) -> int:
        """
        Do.

        :returns x: z
        """
#---
class A:
    def f(self, x: int) -> int:
        """
        :param x: z
        """
#---
class A:
    def f(self, x: int) -> int:
        """
        * a
        * b
        """
#---
class A:
    """
    Do.

    :constraint:
    """
#---
class A:
    """
    Do.

    :constraint A:
        x
    :constraint A:
        y
    """
#---
class A:
    """
    Do.

    :param x: y

    More.

    :param z: y
    """
#---
@verification
def f(x: int) -> bool:
    """
    Do.

    :param: y
    """
    return True
#---
class A:
    x: int
    """
    Do :attr:`x` and :attr:`A.x` and :attr:`B.x` and :attr:`A.y` :class:`B` :class:`~A` :const:`X` :const:`Y` :paramref:`z`.
    """
X: int = constant_int(value=1)
#---
class A:
    """Do :attr:`A.x.y`."""
#---
class A:
    """Do :attr:`x()`."""
#---
class A:
    """Do :class:`A B`."""
#---
class A:
    """Do :class:``."""
#---
class A:
    """Do :const:`a.b`."""
#---
class A:
    """Do :const:`a b`."""
#---
class A:
    """Do :class:`~!A`."""
#---
class A:
    """Do :class:`A <B>`."""
#---
class E(Enum):
    a = "a"
    """Do :attr:`a` :attr:`E.a` :attr:`E.b` :class:`Unknown`."""
#---
X: int = constant_int(value=1, description="Do :class:`a.b`.")
#---
"""Do :class:`a.b`."""
#---
class A:
    x: int
    """Do :class:`a.b`."""
#---
class A:
    def f(self, x: int) -> int:
        """Do :class:`a.b`.

        :param x: Do :class:`a.b`
        :returns: Do :class:`a.b`
        """
#---
@serialization(with_model_type=True)
class A(int):
    pass
#---
class A(int):
    pass
class B(str):
    pass
class C(A, B):
    pass
#---
class A(int):
    pass
class B:
    pass
class C(A, B):
    pass
#---
class A(int):
    pass
class B(A):
    x: int
#---
class A(int):
    pass
@abstract
class B(A):
    pass
#---
@implementation_specific
class A(int):
    pass
#---
@template
class A(int):
    pass
#---
@invariant(lambda self: self > 0, "d")
@invariant(lambda self: len(self) > 0, "e")
@invariant(lambda self: self.x > 0, "f")
class A(int):
    pass
#---
class A(int):
    def __init__(self) -> None:
        pass
#---
@verification
def f(x: str) -> bool:
    return match("^a{4294967296}$", x) is not None
#---
@verification
def f(x: str) -> bool:
    return match("^a{99999999999999999999}$", x) is not None
#---
@verification
def f(x: str) -> bool:
    return match("^a{4294967294}$", x) is not None
#---
@verification
def f(x: str) -> bool:
    "abc"
    return match("^a$", x) is not None
#---
@verification
def f(x: str) -> bool:
    y
    return match("^a$", x) is not None
#---
@verification
def f(x: str) -> bool:
    y = "a"
    y = y
    return match(f"^{y}{y}$", x) is not None
#---
@verification
def f(x: str) -> bool:
    match = "a"
    return match(match, x) is not None
#---
@verification
def f(x: str) -> bool:
    return match("^a$", x) is not None
    return match("^b$", x) is not None
#---
@verification
def f(x: str) -> bool:
    return match("^(?i)a$", x) is not None
#---
@verification
def f(x: str) -> bool:
    return match("^\\1$", x) is not None
#---
@verification
def f(x: str) -> bool:
    return match("^(a)\\1$", x) is not None
#---
@verification
def f(x: str) -> bool:
    return match("^a{2}{3}$", x) is not None
#---
@verification
def f(x: str) -> bool:
    return match("^(?#comment)a$", x) is not None
#---
@verification
def f(x: str) -> bool:
    return match("^(?=a)a$", x) is not None
#---
@verification
def f(x: str) -> bool:
    return match("^\\d\\w\\s\\b\\A\\Z$", x) is not None
#---
class A(str):
    def __init__(self) -> None:
        str.__init__(self)
#---
class A:
    x: int
    def __init__(self, x: int) -> None:
        self.x = x
class B(A):
    def __init__(self, x: int) -> None:
        A.__init__(self, x)
        A.__init__(self, x)
#---
class A:
    x: int
    def __init__(self, x: int) -> None:
        self.x = x
        self.x = x
#---
class A:
    x: int
    def __init__(self, x: int) -> None:
        """Do."""
        self.x = x
#---
class A:
    x: int
    def __init__(self, x: int) -> None:
        self.x = x
class B(A):
    def __init__(self, x: int) -> None:
        A.__init__(self, x, x=x)
#---
class A:
    x: int
    def __init__(self, x: int) -> None:
        self.x = x
class B(A):
    def __init__(self, x: int) -> None:
        A.__init__(x=x, self=self)
#---
class A:
    x: int
    def __init__(self, x: int) -> None:
        self.x = x
class B(A):
    def __init__(self, x: int) -> None:
        A.__init__(x, self)
#---
class A:
    x: int
    def __init__(self, x: int) -> None:
        self.x = x
class B(A):
    y: int
    def __init__(self, y: int) -> None:
        self.y = y
#---
class A:
    x: int
    def __init__(self, x: int) -> None:
        self.x = x
class B(A):
    y: int
    def __init__(self, x: int, y: int) -> None:
        self.y = y
        A.__init__(self, x)
#---
class A:
    x: int
    @implementation_specific
    def __init__(self, x: int) -> None:
        pass
class B(A):
    def __init__(self, x: int) -> None:
        A.__init__(self, x)
#---
class A:
    x: Optional[List[int]]
    def __init__(self, x: Optional[List[int]] = None) -> None:
        self.x = x if x is not None else []
#---
class A:
    x: List[int]
    def __init__(self, x: Optional[List[int]] = None) -> None:
        self.x = x if x is not None else []
#---
class E(Enum):
    a = "a"
class A:
    x: E
    def __init__(self, x: Optional[E] = None) -> None:
        self.x = x if x is not None else E.a
#---
class E(Enum):
    a = "a"
class A:
    x: E
    def __init__(self, x: E = E.a) -> None:
        self.x = x
#---
class A:
    x: int
    def __init__(self, x: int = 1) -> None:
        self.x = x
#---
class A:
    x: int
    def __init__(self, x: int = -1, y: str = "a", z: bool = True, w: float = 1.5, v: bytearray = b"x") -> None:
        self.x = x
#---
class A:
    x: Optional[int]
    def __init__(self, x: Optional[int] = None) -> None:
        self.x = x
#---
class A:
    x: Optional[int]
    def __init__(self, x: Optional[int] = f()) -> None:
        self.x = x
#---
class A:
    x: Optional[int]
    def __init__(self, x: Optional[int] = A.b) -> None:
        self.x = x
#---
class A:
    x: Optional[int]
    def __init__(self, x: Optional[int] = []) -> None:
        self.x = x
#---
class A:
    x: Optional[int]
    def __init__(self, x: Optional[int] = ...) -> None:
        self.x = x
#---
class A:
    x: Optional[int]
    def __init__(self, x: Optional[int] = 1j) -> None:
        self.x = x
#---
class A:
    x: int
    def __init__(self, x: int = None) -> None:
        self.x = x
#---
class A:
    def f(self, x: int = 2**100) -> None:
        pass
#---
@verification
@implementation_specific
def f(x: int = E.a.b) -> bool:
    pass
#---
class E(Enum):
    a = "a"
@verification
@implementation_specific
def f(x: E = E.b, y: E = F.a, z: E = E.a) -> bool:
    pass
#---
@invariant(lambda self: all(all(x > 0 for x in self.xs) for x in self.xs), "d")
class A:
    xs: List[int]
    def __init__(self, xs: List[int]) -> None:
        self.xs = xs
#---
@invariant(lambda self: any(all(x > 0 for x in x) for x in self.xs), "d")
class A:
    xs: List[List[int]]
    def __init__(self, xs: List[List[int]]) -> None:
        self.xs = xs
#---
@invariant(lambda self: all(any(y > x for y in self.xs) and all(y >= 0 for y in self.xs) for x in self.xs), "d")
class A:
    xs: List[int]
    def __init__(self, xs: List[int]) -> None:
        self.xs = xs
#---
@invariant(lambda self: all(all(x > 0 for x in self) for x in self), "d")
class A(str, DBC):
    pass
#---
@verification
def f(xs: List[int]) -> bool:
    return all(all(x > 0 for x in xs) for x in xs)
#---
@verification
def f(xs: List[int]) -> bool:
    x = 1
    return all(x > 0 for x in xs)
#---
@verification
def f(xs: List[int]) -> bool:
    return all(xs > 0 for xs in xs)
'''


def probes() -> List[str]:
    out = []
    for case in _PROBES.split("#---\n"):
        if case.strip():
            out.append(case if "__version__" in case else case + TAIL)
    return out
