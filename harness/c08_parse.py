"""
C08, token level of the Python transpiler model.

``PyEmit.print`` (Lean) gives the token sequence of an emitted expression, ``PyEmit.parse`` reads a token sequence along
Python's expression grammar; ``Lemmas/PyParse.lean`` proves ``parse (print x) = strip x``.  This module is the tie of both
functions to CPython:

* ``model_tokens`` / ``real_tokens``: the model's token sequence, every symbolic name rendered with the project's naming
  functions, against ``tokenize`` of the real transpiler text (``emit`` stream);
* ``pyexpr_ast``: the tree the Lean reader reads, as a CPython ``ast``, against ``ast.parse`` of the real text;
* stream ``pyparse``: the Lean reader against CPython's parser on texts of the emitted sub-grammar with all, some or none of
  the parentheses a precedence-aware printer would write (an enumerated family parent-position x child-construct with and
  without the parentheses, hand-written edge texts, seeded random trees): equal trees, comparison chains / ``not in``
  reported as ``outside``, syntax errors rejected.

Identifiers of the synthetic texts carry their role as a prefix (``v_`` generator variable, ``fn_`` function, ``p_`` /
``l_`` / ``m_`` attribute kinds, ``aas_constants.C_`` / ``aas_types.E_`` references), so that tokens and trees can be
converted in both directions without a symbol table.
"""
from __future__ import annotations

import ast
import io
import tokenize
from typing import Any, Callable, Dict, Iterator, List, Optional, Sequence, Tuple

from harness.core import dec_text, enc_text

CMP_TOK = {"lt": "<", "le": "<=", "gt": ">", "ge": ">=", "eq": "==", "ne": "!="}
CMP_OF = {v: k for k, v in CMP_TOK.items()}
_PLAIN = {"(": "(", ")": ")", "[": "[", "]": "]", "c": ",", "d": ".", "pl": "+", "mi": "-", "{": "{", "}": "}",
          "in": "in", "is": "is", "not": "not", "and": "and", "or": "or", "for": "for", "any": "any", "all": "all",
          "range": "range", "N": "None", "t": "True", "f": "False", "T": "that"}


class Names:
    """How the symbolic names of the model are spelled."""

    def __init__(self, var: Callable[[str], str], const: Callable[[str], str], enum: Callable[[str], str],
                 fn: Callable[[str], str], attr: Callable[[str, str], str]) -> None:
        self.var, self.const, self.enum, self.fn, self.attr = var, const, enum, fn, attr


def project_names(naming: Any) -> Names:
    from aas_core_codegen.common import Identifier as Id

    kinds = {"P": naming.property_name, "L": naming.enum_literal_name, "M": naming.method_name}
    return Names(lambda x: str(naming.variable_name(Id(x))), lambda x: str(naming.constant_name(Id(x))),
                 lambda x: str(naming.enum_name(Id(x))), lambda x: str(naming.function_name(Id(x))),
                 lambda k, x: str(kinds[k](Id(x))))


SYNTH = Names(lambda x: "v_" + x, lambda x: "C_" + x, lambda x: "E_" + x, lambda x: "fn_" + x,
              lambda k, x: {"P": "p_", "L": "l_", "M": "m_"}[k] + x)


# --------------------------------------------------------------------------- tokens


def real_tokens(code: str) -> List[Tuple[str, Any]]:
    """CPython's tokens of an expression text, canonical: numbers and strings by value, the literal pieces of an f-string
    dropped (they are compared through the ``ast``)."""
    out: List[Tuple[str, Any]] = []
    toks = list(tokenize.generate_tokens(io.StringIO("(" + code + "\n)").readline))
    skip = (tokenize.NL, tokenize.NEWLINE, tokenize.INDENT, tokenize.DEDENT, tokenize.ENDMARKER, tokenize.COMMENT)
    for t in toks:
        if t.type in skip:
            continue
        if t.type == tokenize.STRING:
            out.append(("str", ast.literal_eval(t.string)))
        elif t.type == tokenize.NUMBER:
            out.append(("num", repr(ast.literal_eval(t.string))))
        elif t.type == tokenize.FSTRING_START:
            out.append(("fs", None))
        elif t.type == tokenize.FSTRING_MIDDLE:
            continue
        elif t.type == tokenize.FSTRING_END:
            out.append(("fe", None))
        else:
            out.append(("tok", t.string))
    assert out[0] == ("tok", "(") and out[-1] == ("tok", ")"), out
    return out[1:-1]


def model_tokens(wire: str, names: Names) -> List[Tuple[str, Any]]:
    """The Lean token sequence (``Drive/C08.lean`` ``encTok``) as the CPython tokens it stands for."""
    out: List[Tuple[str, Any]] = []
    if wire == "[]":
        return out
    for w in wire.split(","):
        k, _, arg = w.partition(":")
        if k in _PLAIN:
            out.append(("tok", _PLAIN[k]))
        elif k in CMP_TOK:
            out.append(("tok", CMP_TOK[k]))
        elif k == "V":
            out.append(("tok", names.var(dec_text(arg))))
        elif k == "C":
            out += [("tok", "aas_constants"), ("tok", "."), ("tok", names.const(dec_text(arg)))]
        elif k == "E":
            out += [("tok", "aas_types"), ("tok", "."), ("tok", names.enum(dec_text(arg)))]
        elif k == "F":
            out.append(("tok", names.fn(dec_text(arg))))
        elif k == "I":
            out.append(("num", repr(int(arg))))
        elif k == "D":
            r = dec_text(arg)
            if r == "inf":
                out += [("tok", "math"), ("tok", "."), ("tok", "inf")]
            else:
                out.append(("num", repr(float(r))))
        elif k == "S":
            out.append(("str", dec_text(arg)))
        elif k == "fs":
            out.append(("fs", None))
        elif k == "fm":
            continue
        elif k == "fe":
            out.append(("fe", None))
        elif k in ("aP", "aL", "aM"):
            out.append(("tok", names.attr(k[1], dec_text(arg))))
        else:
            raise ValueError(w)
    return out


# --------------------------------------------------------------------------- PyExpr wire -> ast


def pyexpr_ast(toks: Sequence[str], names: Names) -> ast.AST:
    """``encPy`` tokens of a (paren-free) ``PyExpr`` as a CPython ``ast`` expression."""
    pos = 0

    def nxt() -> str:
        nonlocal pos
        pos += 1
        return toks[pos - 1]

    def many() -> List[ast.AST]:
        return [go() for _ in range(int(nxt()))]

    def name(s: str) -> ast.AST:
        return ast.Name(id=s, ctx=ast.Load())

    def go() -> ast.AST:
        k = nxt()
        if k == "T":
            return name("that")
        if k == "V":
            return name(names.var(dec_text(nxt())))
        if k == "C":
            return ast.Attribute(value=name("aas_constants"), attr=names.const(dec_text(nxt())), ctx=ast.Load())
        if k == "E":
            return ast.Attribute(value=name("aas_types"), attr=names.enum(dec_text(nxt())), ctx=ast.Load())
        if k == "F":
            return name(names.fn(dec_text(nxt())))
        if k == "N":
            return ast.Constant(value=None)
        if k == "t":
            return ast.Constant(value=True)
        if k == "f":
            return ast.Constant(value=False)
        if k == "I":
            return ast.Constant(value=int(nxt()))
        if k == "D":
            r = dec_text(nxt())
            if r == "inf":
                return ast.Attribute(value=name("math"), attr="inf", ctx=ast.Load())
            return ast.Constant(value=float(r))
        if k == "S":
            return ast.Constant(value=dec_text(nxt()))
        if k == "-":
            return ast.UnaryOp(op=ast.USub(), operand=go())
        if k == "A":
            e = go()
            kind = nxt()
            return ast.Attribute(value=e, attr=names.attr(kind, dec_text(nxt())), ctx=ast.Load())
        if k == "X":
            e = go()
            return ast.Subscript(value=e, slice=go(), ctx=ast.Load())
        if k == "M":
            e = go()
            m = names.attr("M", dec_text(nxt()))
            return ast.Call(func=ast.Attribute(value=e, attr=m, ctx=ast.Load()), args=many(), keywords=[])
        if k == "U":
            f = names.fn(dec_text(nxt()))
            return ast.Call(func=name(f), args=many(), keywords=[])
        if k == "c":
            op = {"lt": ast.Lt, "le": ast.LtE, "gt": ast.Gt, "ge": ast.GtE, "eq": ast.Eq, "ne": ast.NotEq, "in": ast.In,
                  "is": ast.Is, "isnot": ast.IsNot}[nxt()]()
            left = go()
            return ast.Compare(left=left, ops=[op], comparators=[go()])
        if k == "!":
            return ast.UnaryOp(op=ast.Not(), operand=go())
        if k == "B":
            op2 = ast.And() if nxt() == "1" else ast.Or()
            return ast.BoolOp(op=op2, values=many())
        if k == "b":
            op3 = ast.Add() if nxt() == "1" else ast.Sub()
            left = go()
            return ast.BinOp(left=left, op=op3, right=go())
        if k == "J":
            values: List[ast.AST] = []
            for _ in range(int(nxt())):
                if nxt() == "l":
                    values.append(ast.Constant(value=dec_text(nxt())))
                else:
                    values.append(ast.FormattedValue(value=go(), conversion=-1, format_spec=None))
            return ast.JoinedStr(values=values)
        if k == "Q":
            fn = "any" if nxt() == "1" else "all"
            elt = go()
            var = names.var(dec_text(nxt()))
            if nxt() == "e":
                it = go()
            else:
                a = go()
                it = ast.Call(func=name("range"), args=[a, go()], keywords=[])
            gen = ast.GeneratorExp(elt=elt, generators=[ast.comprehension(target=ast.Name(id=var, ctx=ast.Store()), iter=it,
                                                                          ifs=[], is_async=0)])
            return ast.Call(func=name(fn), args=[gen], keywords=[])
        raise ValueError(k)

    node = go()
    if pos != len(toks):
        raise ValueError((pos, len(toks)))
    return node


def canonical_dump(node: ast.AST) -> str:
    """``ast.dump`` after one ``unparse`` / ``parse`` (merges the literal pieces of f-strings, fixes contexts)."""
    return ast.dump(ast.parse("(" + ast.unparse(node) + "\n)", mode="eval").body)


# --------------------------------------------------------------------------- synthetic texts: tokens and expected trees


class Unsupported(Exception):
    """The text uses something outside the emitted sub-grammar."""


def synth_tokens(text: str) -> str:
    """CPython's tokens of a synthetic text as the wire of ``decToks`` (raises ``Unsupported``)."""
    toks = [t for t in tokenize.generate_tokens(io.StringIO("(" + text + "\n)").readline)
            if t.type not in (tokenize.NL, tokenize.NEWLINE, tokenize.INDENT, tokenize.DEDENT, tokenize.ENDMARKER, tokenize.COMMENT)]
    toks = toks[1:-1]
    out: List[str] = []
    i = 0
    depth_f = 0
    while i < len(toks):
        t = toks[i]
        s = t.string
        prev_dot = i > 0 and toks[i - 1].type == tokenize.OP and toks[i - 1].string == "."
        if t.type == tokenize.NUMBER:
            v = ast.literal_eval(s)
            if isinstance(v, int) and not isinstance(v, bool):
                if i + 1 < len(toks) and toks[i + 1].string == ".":
                    raise Unsupported("`5 .real`: the token model cannot tell it from `5.real`")
                if not s.isdigit():
                    raise Unsupported(s)
                out.append(f"I:{v}")
            elif isinstance(v, float):
                out.append("D:" + enc_text(s))
            else:
                raise Unsupported(s)
        elif t.type == tokenize.STRING:
            v = ast.literal_eval(s)
            if not isinstance(v, str) or s[0] not in "'\"":
                raise Unsupported(s)
            if i + 1 < len(toks) and toks[i + 1].type in (tokenize.STRING, tokenize.FSTRING_START) or \
                    i > 0 and toks[i - 1].type in (tokenize.STRING, tokenize.FSTRING_END):
                raise Unsupported("implicit concatenation of adjacent literals is not part of the emitted sub-grammar")
            out.append("S:" + enc_text(v))
        elif t.type == tokenize.FSTRING_START:
            if s not in ("f'", 'f"') or (i > 0 and toks[i - 1].type in (tokenize.STRING, tokenize.FSTRING_END)):
                raise Unsupported(s)
            depth_f += 1
            out.append("fs")
        elif t.type == tokenize.FSTRING_MIDDLE:
            out.append("fm:" + enc_text(s))
        elif t.type == tokenize.FSTRING_END:
            depth_f -= 1
            out.append("fe")
        elif t.type == tokenize.NAME:
            if prev_dot:
                for p, k in (("p_", "aP"), ("l_", "aL"), ("m_", "aM")):
                    if s.startswith(p):
                        out.append(k + ":" + enc_text(s[2:]))
                        break
                else:
                    raise Unsupported("attribute " + s)
            elif s in ("aas_constants", "aas_types"):
                pre = "C_" if s == "aas_constants" else "E_"
                if i + 2 < len(toks) and toks[i + 1].string == "." and toks[i + 2].type == tokenize.NAME \
                        and toks[i + 2].string.startswith(pre):
                    out.append(("C:" if pre == "C_" else "E:") + enc_text(toks[i + 2].string[2:]))
                    i += 3
                    continue
                raise Unsupported(s)
            elif s == "that":
                out.append("T")
            elif s.startswith("v_"):
                out.append("V:" + enc_text(s[2:]))
            elif s.startswith("fn_"):
                out.append("F:" + enc_text(s[3:]))
            elif s in ("None", "True", "False"):
                out.append({"None": "N", "True": "t", "False": "f"}[s])
            elif s in ("in", "is", "not", "and", "or", "for", "any", "all", "range"):
                out.append(s)
            else:
                raise Unsupported("name " + s)
        elif t.type == tokenize.OP:
            if s in CMP_OF:
                out.append(CMP_OF[s])
            elif s in ("(", ")", "[", "]"):
                out.append(s)
            elif s in ("{", "}"):
                if depth_f == 0:
                    raise Unsupported(s)
                out.append(s)
            elif s == ",":
                out.append("c")
            elif s == ".":
                out.append("d")
            elif s == "+":
                out.append("pl")
            elif s == "-":
                out.append("mi")
            else:
                raise Unsupported(s)
        else:
            raise Unsupported(s)
        i += 1
    return ",".join(out) if out else "[]"


class Outside(Exception):
    """A comparison chain or ``not in``."""


def synth_expected(node: ast.AST) -> str:
    """The ``encPy`` wire of the tree CPython read from a synthetic text; ``outside`` for chains / ``not in`` in an
    otherwise supported tree; raises ``Unsupported``."""
    out: List[str] = []
    outside = False
    cmpk = {ast.Lt: "lt", ast.LtE: "le", ast.Gt: "gt", ast.GtE: "ge", ast.Eq: "eq", ast.NotEq: "ne", ast.In: "in",
            ast.Is: "is", ast.IsNot: "isnot"}

    def many(xs: Sequence[ast.AST]) -> None:
        out.append(str(len(xs)))
        for x in xs:
            go(x)

    def attr_kind(a: str) -> Tuple[str, str]:
        for p, k in (("p_", "P"), ("l_", "L"), ("m_", "M")):
            if a.startswith(p):
                return k, a[2:]
        raise Unsupported("attribute " + a)

    def go(n: ast.AST) -> None:
        nonlocal outside
        if isinstance(n, ast.Name):
            if n.id == "that":
                out.append("T")
            elif n.id.startswith("v_"):
                out.extend(["V", enc_text(n.id[2:])])
            elif n.id.startswith("fn_"):
                out.extend(["F", enc_text(n.id[3:])])
            else:
                raise Unsupported("name " + n.id)
        elif isinstance(n, ast.Constant):
            v = n.value
            if v is None:
                out.append("N")
            elif v is True:
                out.append("t")
            elif v is False:
                out.append("f")
            elif isinstance(v, int):
                out.extend(["I", str(v)])
            elif isinstance(v, float):
                out.extend(["D", enc_text(ast.get_source_segment(SOURCE[0], n) or repr(v))])
            elif isinstance(v, str):
                out.extend(["S", enc_text(v)])
            else:
                raise Unsupported(repr(v))
        elif isinstance(n, ast.Attribute):
            if isinstance(n.value, ast.Name) and n.value.id == "aas_constants" and n.attr.startswith("C_"):
                out.extend(["C", enc_text(n.attr[2:])])
            elif isinstance(n.value, ast.Name) and n.value.id == "aas_types" and n.attr.startswith("E_"):
                out.extend(["E", enc_text(n.attr[2:])])
            else:
                k, a = attr_kind(n.attr)
                out.append("A")
                go(n.value)
                out.extend([k, enc_text(a)])
        elif isinstance(n, ast.Subscript):
            if isinstance(n.slice, (ast.Slice, ast.Tuple, ast.Starred)):
                raise Unsupported("slice")
            out.append("X")
            go(n.value)
            go(n.slice)
        elif isinstance(n, ast.Call):
            if n.keywords:
                raise Unsupported("keywords")
            f = n.func
            if isinstance(f, ast.Name) and f.id in ("any", "all"):
                if len(n.args) != 1 or not isinstance(n.args[0], ast.GeneratorExp):
                    raise Unsupported("any/all")
                g = n.args[0]
                if len(g.generators) != 1:
                    raise Unsupported("generators")
                c = g.generators[0]
                if c.ifs or c.is_async or not isinstance(c.target, ast.Name) or not c.target.id.startswith("v_"):
                    raise Unsupported("comprehension")
                out.extend(["Q", "1" if f.id == "any" else "0"])
                go(g.elt)
                out.append(enc_text(c.target.id[2:]))
                it = c.iter
                if isinstance(it, ast.Call) and isinstance(it.func, ast.Name) and it.func.id == "range":
                    if len(it.args) != 2 or it.keywords:
                        raise Unsupported("range")
                    out.append("r")
                    go(it.args[0])
                    go(it.args[1])
                else:
                    out.append("e")
                    go(it)
            elif isinstance(f, ast.Name) and f.id.startswith("fn_"):
                out.extend(["U", enc_text(f.id[3:])])
                many(n.args)
            elif isinstance(f, ast.Attribute) and f.attr.startswith("m_"):
                out.append("M")
                go(f.value)
                out.append(enc_text(f.attr[2:]))
                many(n.args)
            else:
                raise Unsupported("callee")
        elif isinstance(n, ast.Compare):
            if len(n.ops) != 1 or isinstance(n.ops[0], ast.NotIn):
                outside = True
                go(n.left)
                for c2 in n.comparators:
                    go(c2)
                return
            out.extend(["c", cmpk[type(n.ops[0])]])
            go(n.left)
            go(n.comparators[0])
        elif isinstance(n, ast.UnaryOp):
            if isinstance(n.op, ast.Not):
                out.append("!")
            elif isinstance(n.op, ast.USub):
                out.append("-")
            else:
                raise Unsupported("unary")
            go(n.operand)
        elif isinstance(n, ast.BoolOp):
            out.extend(["B", "1" if isinstance(n.op, ast.And) else "0"])
            many(n.values)
        elif isinstance(n, ast.BinOp):
            if not isinstance(n.op, (ast.Add, ast.Sub)):
                raise Unsupported("binop")
            out.extend(["b", "1" if isinstance(n.op, ast.Add) else "0"])
            go(n.left)
            go(n.right)
        elif isinstance(n, ast.JoinedStr):
            out.extend(["J", str(len(n.values))])
            for v2 in n.values:
                if isinstance(v2, ast.Constant) and isinstance(v2.value, str):
                    out.extend(["l", enc_text(v2.value)])
                elif isinstance(v2, ast.FormattedValue) and v2.conversion == -1 and v2.format_spec is None:
                    out.append("v")
                    go(v2.value)
                else:
                    raise Unsupported("f-string part")
        else:
            raise Unsupported(type(n).__name__)

    go(node)
    return "outside" if outside else "ok " + ",".join(out)


#: the text whose tree ``synth_expected`` is walking (for the spelling of float literals)
SOURCE: List[str] = [""]


def cpython_reading(text: str) -> str:
    """``ok <wire>`` / ``outside`` / ``fail`` (syntax error) / ``unsupported``."""
    src = "(" + text + "\n)"
    try:
        tree = ast.parse(src, mode="eval").body
    except SyntaxError:
        return "fail"
    SOURCE[0] = src
    try:
        return synth_expected(tree)
    except Unsupported:
        return "unsupported"


# --------------------------------------------------------------------------- synthetic trees and their printers

# trees are tuples: (kind, *children/fields), rendered by ``render`` with a policy for the parentheses

LEVEL = {"or": 1, "and": 2, "not": 3, "cmp": 4, "arith": 5, "neg": 6}


def level(t: Any) -> int:
    return LEVEL.get(t[0], 7)


def render(t: Any, paren: Callable[[Any, int], bool]) -> str:
    """Text of a tree; ``paren(child, need)`` decides whether the child at a position that needs binding strength
    ``need`` is parenthesised."""

    def sub(c: Any, need: int) -> str:
        s = go(c)
        return "(" + s + ")" if paren(c, need) else s

    def go(t: Any) -> str:
        k = t[0]
        if k == "atom":
            return t[1]
        if k == "or":
            return " or ".join(sub(c, 2) for c in t[1])
        if k == "and":
            return " and ".join(sub(c, 3) for c in t[1])
        if k == "not":
            return "not " + sub(t[1], 3)
        if k == "cmp":
            return sub(t[1], 5) + " " + t[2] + " " + sub(t[3], 5)
        if k == "arith":
            return sub(t[1], 5) + " " + t[2] + " " + sub(t[3], 6)
        if k == "neg":
            return "-" + sub(t[1], 6)
        if k == "attr":
            return sub(t[1], 8) + "." + t[2]
        if k == "index":
            return sub(t[1], 7) + "[" + sub(t[2], 1) + "]"
        if k == "mcall":
            return sub(t[1], 8) + "." + t[2] + "(" + ", ".join(sub(a, 1) for a in t[3]) + ")"
        if k == "fcall":
            return t[1] + "(" + ", ".join(sub(a, 1) for a in t[2]) + ")"
        if k == "quant":
            it = t[4]
            its = "range(" + sub(it[1], 1) + ", " + sub(it[2], 1) + ")" if it[0] == "range" else sub(it, 1)
            return t[1] + "(" + sub(t[2], 1) + " for " + t[3] + " in " + its + ")"
        if k == "fstr":
            return "f'" + "".join(p if isinstance(p, str) else "{" + sub(p[1], 1) + "}" for p in t[1]) + "'"
        raise ValueError(k)

    return go(t)


def needs(c: Any, need: int) -> bool:
    """the parentheses a precedence-aware printer writes (``need`` 8: a receiver of ``.name``, where an integer literal
    needs them too)"""
    if need == 8:
        return level(c) < 7 or (c[0] == "atom" and c[1].isdigit())
    return level(c) < need


ATOMS = ["that", "v_x", "v_y", "aas_constants.C_k", "aas_types.E_e", "None", "True", "False", "0", "7", "1.5", "'s'", "''"]
CMPS = ["<", "<=", ">", ">=", "==", "!=", "in", "is", "is not"]

A = ("atom", "that")
B = ("atom", "v_x")
C = ("atom", "v_y")

#: one tree of every construct (the child of the enumerated family)
CHILDREN: List[Tuple[str, Any]] = [
    ("or", ("or", [A, B])), ("and", ("and", [A, B])), ("not", ("not", A)), ("cmp", ("cmp", A, "<", B)),
    ("is", ("cmp", A, "is", ("atom", "None"))), ("isnot", ("cmp", A, "is not", B)), ("in", ("cmp", A, "in", B)),
    ("add", ("arith", A, "+", B)), ("sub", ("arith", A, "-", B)), ("neg", ("neg", A)), ("negint", ("neg", ("atom", "5"))),
    ("int", ("atom", "5")), ("float", ("atom", "1.5")), ("str", ("atom", "'s'")), ("name", A), ("const", ("atom", "aas_constants.C_k")),
    ("attr", ("attr", A, "p_a")), ("index", ("index", A, B)), ("mcall", ("mcall", A, "m_f", [B])), ("fcall", ("fcall", "fn_g", [B, C])),
    ("fcall0", ("fcall", "fn_g", [])), ("any", ("quant", "any", ("cmp", B, ">", ("atom", "0")), "v_x", ("attr", A, "p_xs"))),
    ("allrange", ("quant", "all", ("cmp", B, ">", ("atom", "0")), "v_x", ("range", ("atom", "0"), C))),
    ("fstr", ("fstr", ["a", ("fv", B), "b"])), ("implication", ("or", [("not", A), B])),
]

#: parent positions: name, minimal binding strength, tree with the hole filled
PARENTS: List[Tuple[str, int, Callable[[Any], Any]]] = [
    ("or-first", 2, lambda c: ("or", [c, C])), ("or-last", 2, lambda c: ("or", [C, c])), ("or-mid", 2, lambda c: ("or", [C, c, C])),
    ("and-first", 3, lambda c: ("and", [c, C])), ("and-last", 3, lambda c: ("and", [C, c])),
    ("not", 3, lambda c: ("not", c)),
    ("cmp-left", 5, lambda c: ("cmp", c, "==", C)), ("cmp-right", 5, lambda c: ("cmp", C, "==", c)),
    ("is-left", 5, lambda c: ("cmp", c, "is", ("atom", "None"))), ("isnot-right", 5, lambda c: ("cmp", C, "is not", c)),
    ("is-right", 5, lambda c: ("cmp", C, "is", c)), ("in-left", 5, lambda c: ("cmp", c, "in", C)), ("in-right", 5, lambda c: ("cmp", C, "in", c)),
    ("add-left", 5, lambda c: ("arith", c, "+", C)), ("add-right", 6, lambda c: ("arith", C, "+", c)),
    ("sub-left", 5, lambda c: ("arith", c, "-", C)), ("sub-right", 6, lambda c: ("arith", C, "-", c)),
    ("neg", 6, lambda c: ("neg", c)),
    ("attr", 8, lambda c: ("attr", c, "p_a")), ("index-coll", 7, lambda c: ("index", c, C)), ("index-idx", 1, lambda c: ("index", C, c)),
    ("mcall-recv", 8, lambda c: ("mcall", c, "m_f", [])), ("mcall-arg", 1, lambda c: ("mcall", C, "m_f", [C, c])),
    ("fcall-arg", 1, lambda c: ("fcall", "fn_g", [c])), ("quant-elt", 1, lambda c: ("quant", "all", c, "v_z", A)),
    ("quant-iter", 1, lambda c: ("quant", "any", C, "v_z", c)), ("range-start", 1, lambda c: ("quant", "any", C, "v_z", ("range", c, C))),
    ("range-stop", 1, lambda c: ("quant", "any", C, "v_z", ("range", C, c))), ("fstr-field", 1, lambda c: ("fstr", ["p", ("fv", c)])),
    ("top", 1, lambda c: c),
]

EDGE_TEXTS = [
    "v_a < v_b < v_c", "(v_a < v_b) < v_c", "v_a < (v_b < v_c)", "v_a not in v_b", "not v_a in v_b", "v_a is not v_b", "v_a is (not v_b)",
    "not not v_a", "not v_a == v_b", "(not v_a) == v_b", "- -5", "-5[0]", "(-5)[0]", "-that.p_n", "(-that).p_n", "v_a - (v_b - v_c)",
    "v_a - v_b - v_c", "v_a - -v_b", "not v_a or v_b", "not (v_a or v_b)", "v_a or v_b and v_c", "(v_a or v_b) and v_c", "v_a and v_b or v_c",
    "v_a == v_b or v_c == v_d and not v_e", "v_a + v_b < v_c - 1", "v_a < v_b + v_c", "v_a in v_b in v_c", "v_a is None is v_b",
    "v_a < v_b == v_c", "any(v_x for v_x in that.p_xs)", "all(v_x > 0 for v_x in range(0, fn_len(that.p_xs)))",
    "any(v_x in that.p_ys for v_x in that.p_xs)", "any(v_x for v_x in v_a or v_b)", "all(not v_x for v_x in that.p_xs)",
    "fn_f()", "fn_f(v_a)", "fn_f(v_a, v_b, v_c)", "that.m_g(v_a).p_b[0].m_h()", "(that.m_g)(v_a)", "(fn_f)(v_a)", "that.p_a(v_a)", "v_a(v_b)",
    "f'a{v_x}b'", "f'{v_x}{v_y}'", "f'{v_x != v_y}'", "f'{not v_x}'", "f'{v_x or v_y}'", "f''", "f'{f\"{v_x}\"}'",
    "aas_types.E_e.l_lit", "aas_constants.C_k[0]", "v_a in aas_constants.C_k", "that.p_a is None", "that.p_a is not None",
    "((v_a))", "(v_a)", "v_a or", "or v_a", "v_a < not v_b", "-not v_a", "v_a +", "(v_a", "v_a)", "v_a v_b", "fn_f(v_a,)", "fn_f(,)",
    "v_a[", "v_a[]", "that.", "that.p_a.", "v_a if v_b else v_c", "v_a * v_b", "+v_a", "v_a[0:1]", "(v_a, v_b)", "[v_a]", "v_a == -1",
    "v_a >= -1.5", "1 - -1", "not -v_a", "- (not v_a)", "v_a and not v_b", "v_a is not None and v_a > 0", "not v_a is None",
    "any(v_x for v_x in range(0, 3) )", "all(v_x for v_x in range(0, 3)[0])", "any(v_x for v_y in v_a for v_x in v_y)", "any(v_x for v_x in v_a if v_x)",
    "'a' 'b'", "v_a.p_b.p_c", "v_a.p_b . p_c", "True and False or None", "0 < 1", "v_a<v_b",
]


def random_tree(rng: Any, depth: int) -> Any:
    if depth <= 0 or rng.random() < 0.2:
        return ("atom", rng.choice(ATOMS))
    k = rng.choice(["or", "and", "not", "cmp", "cmp", "arith", "neg", "attr", "index", "mcall", "fcall", "quant", "fstr", "atom"])
    sub = lambda: random_tree(rng, depth - 1)  # noqa: E731
    if k == "atom":
        return ("atom", rng.choice(ATOMS))
    if k in ("or", "and"):
        return (k, [sub() for _ in range(rng.choice([2, 2, 3]))])
    if k == "not":
        return ("not", sub())
    if k == "cmp":
        return ("cmp", sub(), rng.choice(CMPS), sub())
    if k == "arith":
        return ("arith", sub(), rng.choice("+-"), sub())
    if k == "neg":
        return ("neg", sub())
    if k == "attr":
        return ("attr", sub(), rng.choice(["p_a", "l_b", "m_c"]))
    if k == "index":
        return ("index", sub(), sub())
    if k == "mcall":
        return ("mcall", sub(), rng.choice(["m_f", "m_g"]), [sub() for _ in range(rng.choice([0, 1, 2]))])
    if k == "fcall":
        return ("fcall", rng.choice(["fn_f", "fn_len"]), [sub() for _ in range(rng.choice([0, 1, 2, 3]))])
    if k == "quant":
        it = ("range", sub(), sub()) if rng.random() < 0.4 else sub()
        return ("quant", rng.choice(["any", "all"]), sub(), rng.choice(["v_i", "v_x"]), it)
    parts: List[Any] = []
    for _ in range(rng.choice([0, 1, 2, 3])):
        parts.append(rng.choice(["a", "b c", "-"]) if rng.random() < 0.5 else ("fv", random_tree(rng, min(depth - 1, 1))))
    # strings inside a replacement field need the other quote: keep the fields free of string atoms
    parts = [p if isinstance(p, str) or "'" not in render(p[1], needs) else ("fv", B) for p in parts]
    return ("fstr", parts)


def family_texts() -> Iterator[Tuple[str, str]]:
    """label, text — every construct at every operand position, with the parentheses a printer writes, without any, and
    with redundant ones around the hole; then the edge texts."""
    for pn, _need, mk in PARENTS:
        for cn, child in CHILDREN:
            tree = mk(child)
            yield f"{pn}/{cn}/needed", render(tree, needs)
            yield f"{pn}/{cn}/bare", render(tree, lambda c, n: needs(c, n) and c is not child)
            yield f"{pn}/{cn}/wrapped", render(tree, lambda c, n: needs(c, n) or c is child)
    for i, t in enumerate(EDGE_TEXTS):
        yield f"edge/{i}", t


def random_texts(rng: Any, n: int) -> Iterator[Tuple[str, str]]:
    for i in range(n):
        tree = random_tree(rng, rng.choice([2, 3, 3, 4]))
        yield f"random/{i}/needed", render(tree, needs)
        extra, omit = rng.choice([(0.2, 0.0), (0.0, 0.25), (0.15, 0.15)])
        yield f"random/{i}/varied", render(tree, lambda c, nd: (needs(c, nd) and rng.random() >= omit) or rng.random() < extra)


def check_texts(ctx: Any, texts: Sequence[Tuple[str, str]], stream: str = "pyparse") -> None:
    """The Lean reader against CPython's parser on each text."""
    cases: List[Tuple[str, str, str, str]] = []
    seen = set()
    for label, text in texts:
        if text in seen:
            continue
        seen.add(text)
        want = cpython_reading(text)
        try:
            wire = synth_tokens(text)
        except (Unsupported, tokenize.TokenError, SyntaxError, IndentationError):
            ctx.hit(stream + ":untokenisable")
            continue
        cases.append((label, text, wire, want))
    if not cases or not ctx.driver_ok:
        return
    answers = ctx.model(["pyparse " + w for _, _, w, _ in cases])
    for (label, text, wire, want), ans in zip(cases, answers):
        ctx.count(("pyparse", text), nontrivial=len(text) > 6, stream=stream)
        ctx.traces_validated += 1
        kind = want.split(" ")[0]
        ctx.hit(f"{stream}:cpython-{kind}")
        if kind == "ok":
            agree = ans == want
        elif kind == "outside":
            agree = ans == "outside"
        else:
            # a syntax error, or valid Python outside the emitted sub-grammar: the reader must not read a tree
            agree = not ans.startswith("ok")
        if not agree:
            ctx.disagree(stream, {"text": text, "label": label, "tokens": wire}, want, ans)


def stream_pyparse(ctx: Any) -> None:
    check_texts(ctx, list(family_texts()), "pyparse")
    check_texts(ctx, list(random_texts(ctx.rng, ctx.n(400, 6000))), "pyparse-random")
