"""
C08 families ``layout`` and ``cpmi`` (enumerated, seed-independent + one seeded random model each).

``layout``  LAYOUT-DEPENDENT branches of the Python generator.  ``python/lib/_generate_verification.py`` and
            ``python/transpilation.py`` choose between textual alternatives by the LENGTH of what they are about to write
            (``len(for_error) > 70``, ``len(expr) > 50 or "\\n" in expr``, ``len(function_name) + len(joined_args) > 50``,
            ``len(pattern_expr) < 50``, ``"\\n" in antecedent`` ...).  The alternatives must mean the same; which one is taken
            depends on the lengths of type names, property names, class names and on HOW MANY list properties a class has
            (the loop variables grow: ``an_item``, ``another_item``, ``yet_another_item``, ``yet_yet_another_item`` ...).
            Parts: ``names`` (names of 30 .. 80 characters around every threshold, held as property / optional property /
            list item / optional list item), ``many`` (16 list properties, 14 optional properties in one class),
            ``exprs`` (invariants whose emitted text is short / over 50 characters / multi-line in every position that
            looks at it, long descriptions, long and short patterns).

``cpmi``    MULTIPLE INHERITANCE among constrained primitives: two and three parents in every order, diamonds, parents
            with their own ancestors, descendants of such types, such types as parents of one another, str and int
            constrainees, each shape in several DECLARATION orders (constrained primitives need not be declared
            ancestors-first).  Values are held as property, optional property, list item, optional-list item and are
            verified directly with ``verify_<name>``.

The expected invariants come from the abstract meta-model (``mm.all_invariants``: ALL ancestors through ``bases``), never
from the intermediate symbol table's stacked list; ``assert_source_reading`` re-derives them a second time from the
RENDERED SOURCE TEXT with the CPython ``ast`` (decorators and base lists of the class statements) and demands that both
readings agree (lambda ``ast`` for lambda ``ast``) before anything is judged.
"""
from __future__ import annotations

import ast
import itertools
from typing import Any, Dict, Iterator, List, Optional, Sequence, Tuple

from harness import mm
from harness.src_expr import expr_of, inv

P, R, L, O, Pr = mm.Prim, mm.Ref, mm.ListOf, mm.OptionalOf, mm.Prop

# =========================================================================== independent reading of the source


def source_stacks(src: str) -> Dict[str, List[Tuple[str, str, str]]]:
    """``{type name: [(declaring type, description, ast dump of the lambda body)]}`` of every class statement of the
    meta-model text: its own ``@invariant`` decorators and those of ALL its ancestors (each declaring type once)."""
    module = ast.parse(src)
    own: Dict[str, List[Tuple[str, str]]] = {}
    bases: Dict[str, List[str]] = {}
    for stmt in module.body:
        if not isinstance(stmt, ast.ClassDef):
            continue
        own[stmt.name] = []
        for dec in stmt.decorator_list:
            if isinstance(dec, ast.Call) and isinstance(dec.func, ast.Name) and dec.func.id == "invariant":
                lam, desc = dec.args[0], dec.args[1]
                assert isinstance(lam, ast.Lambda) and isinstance(desc, ast.Constant) and isinstance(desc.value, str)
                own[stmt.name].append((desc.value, ast.dump(lam.body)))
        bases[stmt.name] = [b.id for b in stmt.bases if isinstance(b, ast.Name)]
    out: Dict[str, List[Tuple[str, str, str]]] = {}
    for name in own:
        seen: List[str] = []

        def visit(n: str) -> None:
            if n in seen or n not in own:
                return
            seen.append(n)
            for b in bases[n]:
                visit(b)

        visit(name)
        out[name] = [(n, d, lam) for n in seen for d, lam in own[n]]
    return out


def assert_source_reading(m: Any, src: str) -> None:
    """The two independent readings of "which invariants apply to a value of this type" must coincide."""
    stacks = source_stacks(src)
    for t in list(m.classes) + list(m.constrained_primitives):
        from_mm = sorted((owner, i.description, ast.dump(ast.parse(mm.render_expr(i.expr), mode="eval").body))
                         for i, owner in mm.all_invariants(m, t.name))
        from_src = sorted(stacks.get(t.name, []))
        if from_mm != from_src:
            raise AssertionError(f"harness: the invariants of {t.name} read from the abstract meta-model and from the rendered "
                                 f"source differ: {from_mm} / {from_src}")


# =========================================================================== names of a given length

_WORDS = ["value", "format", "code", "for", "data", "specification", "of", "the", "embedded", "content", "reference", "element"]


def long_name(prefix: str, n: int) -> str:
    """A safe identifier of exactly ``n`` characters starting with ``prefix`` (capitalised first word, snake case)."""
    s = prefix
    for w in itertools.cycle(_WORDS):
        if len(s) >= n:
            break
        s += "_" + w
    s = s[:n]
    while s.endswith("_") or "__" in s:
        s = s.rstrip("_") + "x"
        s = s.replace("__", "_x")
    s = (s + "x" * n)[:n]
    assert len(s) == n and mm.is_safe_name(s), s
    return s


def py_snake(name: str) -> str:
    return "_".join(x.lower() for x in name.split("_"))


# =========================================================================== parts: what one model of a family is


class Part:
    """One generated SDK of a family: the model, and per holder class the explicit instances (constructor keywords by
    meta-model property name; ``{"__class__": name, ...}`` = nested instance) + the classes its world needs."""

    def __init__(self, family: str, name: str, model: Any, cases: List[Tuple[str, Dict[str, Any], Tuple[str, ...]]],
                 direct: List[Tuple[str, List[Any]]], halves: Optional[Any] = None) -> None:
        self.family, self.name, self.model, self.cases, self.direct = family, name, model, cases, direct
        #: ``halves() -> [Part, Part]`` (or None): the same inputs in two smaller models, for a changed front end that
        #: rejects the packed model because of ONE of its types
        self.halves = halves


def build_value(sdk: Any, v: Any) -> Any:
    if isinstance(v, dict):
        kw = {py_snake(k): build_value(sdk, x) for k, x in v.items() if k != "__class__"}
        return sdk.class_of(v["__class__"])(**kw)
    if isinstance(v, list):
        return [build_value(sdk, x) for x in v]
    return v


# --------------------------------------------------------------------------- layout: shared small types

TAG_INVS = [("The tag must not be empty.", "len(self) >= 1"), ("The tag must have at most three characters.", "len(self) <= 3")]
#: lists chosen so that ``len(list)`` and ``len(item)`` disagree about both invariants
TEXT_LISTS: List[List[str]] = [[], [""], ["ab"], ["abcd"], ["", "ab"], ["ab", "abcd", "", "c"], ["a", "b", "c", "d"], ["a", "b", "c", "d", ""]]
TEXTS = ["", "ab", "abcd"]


def _cp(name: str, what: str = "tag") -> Any:
    return mm.ConstrainedPrimitive(name, "str", invariants=[inv(d.replace("tag", what), s) for d, s in TAG_INVS])


def _item_class(name: str, what: str = "value") -> Any:
    return mm.Class(name, props=[Pr("value", P("int"))], invariants=[inv(f"The {what} must not be negative.", "self.value >= 0")],
                    description="Represent an item.")


def _item(cls: str, v: int) -> Dict[str, Any]:
    return {"__class__": cls, "value": v}


ITEM_LISTS: List[List[int]] = [[], [1], [-1], [3, -2, 0, -7]]


def part_names() -> Part:
    """Names around the thresholds.  ``for error in verify_<N>(an_item)`` > 70 needs len(N) >= 42;
    ``for error in verify_<N>(that.<p>)`` > 70 needs len(N) + len(p) >= 44; ``for error in self.transform(that.<p>)`` > 70
    needs len(p) >= 38; ``for i, an_item in enumerate(that.<p>)`` > 70 needs len(p) >= 37."""
    cps = [_cp("Tag")]
    classes = [_item_class("Item")]
    cases: List[Tuple[str, Dict[str, Any], Tuple[str, ...]]] = []
    direct: List[Tuple[str, List[Any]]] = [("Tag", list(TEXTS))]
    # (a) long type names, short property names
    for n in (30, 41, 42, 43, 60, 80):
        cp_name = long_name("Text", n)
        cps.append(_cp(cp_name, f"text{n}"))
        direct.append((cp_name, list(TEXTS)))
        holder = f"Holder_of_type_{n}"
        classes.append(mm.Class(holder, props=[Pr("one_value", R(cp_name)), Pr("some_value", O(R(cp_name))), Pr("all_values", L(R(cp_name))),
                                               Pr("some_values", O(L(R(cp_name)))), Pr("tags", L(R("Tag")))],
                                description="Represent a holder."))
        for k, xs in enumerate(TEXT_LISTS):
            cases.append((holder, {"one_value": TEXTS[k % 3], "some_value": None if k % 2 else TEXTS[(k + 1) % 3], "all_values": xs,
                                   "some_values": None if k % 3 == 0 else list(reversed(xs)), "tags": TEXT_LISTS[-1 - k]}, (holder,)))
    # (b) long class names (items and holders)
    for n in (40, 60, 80):
        cls_name = long_name("Item", n)
        classes.append(_item_class(cls_name, f"value{n}"))
        holder = long_name("Holder_of_class", n)
        classes.append(mm.Class(holder, props=[Pr("one_value", R(cls_name)), Pr("some_value", O(R(cls_name))), Pr("all_values", L(R(cls_name))),
                                               Pr("some_values", O(L(R(cls_name))))], description="Represent a holder."))
        for k, xs in enumerate(ITEM_LISTS):
            cases.append((holder, {"one_value": _item(cls_name, -k), "some_value": None if k % 2 else _item(cls_name, k - 2),
                                   "all_values": [_item(cls_name, v) for v in xs],
                                   "some_values": None if k == 0 else [_item(cls_name, -v) for v in xs]}, (holder, cls_name)))
    # (c) long property names, short type names
    for n in (30, 36, 37, 38, 41, 60, 80):
        holder = f"Holder_of_property_{n}"
        names = [long_name(stem, n) for stem in ("one_value", "some_value", "all_values", "some_values", "item", "some_item", "items", "some_items")]
        classes.append(mm.Class(holder, props=[
            Pr(names[0], R("Tag")), Pr(names[1], O(R("Tag"))), Pr(names[2], L(R("Tag"))), Pr(names[3], O(L(R("Tag")))),
            Pr(names[4], R("Item")), Pr(names[5], O(R("Item"))), Pr(names[6], L(R("Item"))), Pr(names[7], O(L(R("Item"))))],
            description="Represent a holder."))
        for k, xs in enumerate(TEXT_LISTS):
            ys = ITEM_LISTS[k % 4]
            cases.append((holder, {names[0]: TEXTS[k % 3], names[1]: None if k % 2 else TEXTS[(k + 1) % 3], names[2]: xs,
                                   names[3]: None if k % 3 == 0 else list(reversed(xs)),
                                   names[4]: _item("Item", 1 - k), names[5]: None if k % 2 == 0 else _item("Item", -k),
                                   names[6]: [_item("Item", v) for v in ys],
                                   names[7]: None if k % 3 == 1 else [_item("Item", -v) for v in ys]}, (holder, "Item")))
    m = mm.MM(classes=classes, constrained_primitives=cps, version="V1", xml_namespace="urn:aasv:layout:names")
    return Part("layout", "names", m, cases, direct)


def part_many(n_lists: int = 16, n_optionals: int = 14) -> Part:
    """Many properties of one kind in one class: the k-th list property gets the k-th loop variable."""
    cps = [_cp("Tag")]
    classes = [_item_class("Item")]
    cases: List[Tuple[str, Dict[str, Any], Tuple[str, ...]]] = []
    kinds = [L(R("Item")), L(R("Tag")), O(L(R("Item"))), O(L(R("Tag")))]
    props = [Pr(f"items_{i}", kinds[i % 4]) for i in range(n_lists)]
    classes.append(mm.Class("Many_lists", props=props, description="Represent a container."))

    def empty(i: int) -> Any:
        return [] if i % 4 < 2 else None

    def filled(i: int, k: int) -> Any:
        if i % 2 == 0:
            return [_item("Item", v) for v in ITEM_LISTS[1 + k % 3]]
        return list(TEXT_LISTS[1 + k % 7])

    for i in range(n_lists):
        for k in range(4):
            cases.append(("Many_lists", {f"items_{j}": (filled(j, k + i) if j == i else empty(j)) for j in range(n_lists)}, ("Many_lists", "Item")))
    for k in range(4):
        cases.append(("Many_lists", {f"items_{j}": filled(j, k + j) for j in range(n_lists)}, ("Many_lists", "Item")))
    okinds = [O(R("Tag")), O(R("Item")), O(P("str")), O(P("int"))]
    oprops = [Pr(f"some_{i}", okinds[i % 4]) for i in range(n_optionals)]
    oinvs = []
    for i in range(n_optionals):
        if i % 4 == 2:
            oinvs.append(inv(f"The text {i} must not be empty if given.", f"not (self.some_{i} is not None) or len(self.some_{i}) >= 1"))
        if i % 4 == 3:
            oinvs.append(inv(f"The number {i} must be positive if given.", f"not (self.some_{i} is not None) or self.some_{i} > 0"))
    classes.append(mm.Class("Many_optionals", props=oprops, invariants=oinvs, description="Represent a record."))

    def ovalue(i: int, k: int) -> Any:
        return [TEXTS[k % 3], _item("Item", k - 1), ["", "x"][k % 2], [0, 5][k % 2]][i % 4]

    for i in range(n_optionals):
        for k in range(3):
            cases.append(("Many_optionals", {f"some_{j}": (ovalue(j, k) if j == i else None) for j in range(n_optionals)}, ("Many_optionals", "Item")))
    for k in range(3):
        cases.append(("Many_optionals", {f"some_{j}": ovalue(j, k + j) for j in range(n_optionals)}, ("Many_optionals", "Item")))
    m = mm.MM(classes=classes, constrained_primitives=cps, version="V1", xml_namespace="urn:aasv:layout:many")
    return Part("layout", "all_values", m, cases, [])


_LONG_WORD = "Donaudampfschifffahrtsgesellschaftskapitaensmuetzenabzeichenhersteller" * 2


def part_exprs() -> Part:
    """Invariants whose emitted text is short / over 50 characters / multi-line wherever the transpiler looks at it."""
    t1, t2 = "first_text_with_a_rather_long_name", "second_text_with_a_rather_long_name"
    n1 = "count_with_a_rather_long_name"
    xs = "texts_with_a_rather_long_name"
    long_and = f"len(self.{t1}) >= 1 and len(self.{t1}) <= 3 and len(self.{t2}) >= 1 and len(self.{t2}) <= 3"
    long_pattern = "^([a-z][a-z0-9]{0,2}|[A-Z][A-Z0-9]{0,2}|[0-9][a-z]{0,2}|_[a-z]{0,2})$"
    fns = [
        mm.PatternFn.simple("matches_short", "^[a-z]*$"),
        mm.PatternFn.simple("matches_a_text_which_consists_of_lower_case_letters_only", long_pattern),
        # the pattern expression itself is emitted (not a variable): short / 50 characters and more
        mm.PatternFn.simple("matches_inline_short", "^[a-z_]{0,3}$", style="inline"),
        mm.PatternFn.simple("matches_inline_long", long_pattern, style="inline"),
        # helper variables: several statements before the ``return re.compile``; a long interpolated pattern
        mm.PatternFn("matches_with_variables", parts=("^(", mm.PVar("lower_case_letter_or_digit"), "{0,3}|", mm.PVar("upper_case_letter"), "{1,3}|_", mm.PVar("lower_case_letter_or_digit"), "{0,2})$"),
                     variables=[("lower_case_letter_or_digit", ("[a-z0-9]",)), ("upper_case_letter", ("[A-Z]",))], style="inline"),
        # transpilable functions: assignments and returns of 50 characters and less / more, several arguments
        mm.TranspilableFn("is_short_enough", [mm.Arg("text", P("str"))], P("bool"), [mm.Return(expr_of("len(text) <= 3"))]),
        mm.TranspilableFn("is_a_text_of_an_acceptable_length", [mm.Arg("text_to_be_checked_for_its_length", P("str"))], P("bool"), [
            mm.Assign("length_is_at_least_one", expr_of("len(text_to_be_checked_for_its_length) >= 1 and len(text_to_be_checked_for_its_length) >= 0")),
            mm.Assign("ok", expr_of("length_is_at_least_one")),
            mm.Return(expr_of("ok and len(text_to_be_checked_for_its_length) <= 3 and len(text_to_be_checked_for_its_length) <= 99"))]),
        mm.TranspilableFn("are_lengths_compatible_with_each_other", [mm.Arg("first_text", P("str")), mm.Arg("second_text", P("str")), mm.Arg("slack", P("int"))], P("bool"),
                          [mm.Return(expr_of("len(first_text) <= len(second_text) + slack"))]),
    ]
    invs = [
        ("short", "len(self.s) <= 3"),
        ("exactly fifty or so", f"len(self.{t1}) <= 3 or self.{n1} > 1"),
        ("over fifty", f"len(self.{t1}) >= 1 and len(self.{t1}) <= 3"),
        ("long conjunction", long_and),
        ("implication with a long antecedent", f"not ({long_and}) or self.{n1} >= 0"),
        ("implication with a long consequent", f"not (self.{n1} >= 0) or ({long_and})"),
        ("implication of implications", f"not (not (len(self.{t1}) >= 1 and len(self.{t2}) >= 1 and self.{n1} >= 0) or len(self.s) >= 1) or (not (self.{n1} > 1) or len(self.{t1}) <= 3 and len(self.{t2}) <= 3)"),
        ("disjunction of long conjunctions", f"(len(self.{t1}) >= 1 and len(self.{t1}) <= 3) or (len(self.{t2}) >= 1 and len(self.{t2}) <= 3 and self.{n1} > 1)"),
        ("negated long disjunction", f"not (len(self.{t1}) > 3 or len(self.{t2}) > 3 or self.{n1} < 0 or len(self.s) > 3)"),
        ("short call", "matches_short(self.s)"),
        ("call over fifty", f"matches_a_text_which_consists_of_lower_case_letters_only(self.{t1})"),
        ("call in a long conjunction", f"matches_a_text_which_consists_of_lower_case_letters_only(self.{t1}) and matches_a_text_which_consists_of_lower_case_letters_only(self.{t2})"),
        ("inline short pattern", "matches_inline_short(self.s)"),
        ("inline long pattern", f"matches_inline_long(self.{t2})"),
        ("pattern with variables", f"matches_with_variables(self.{t1})"),
        ("short transpilable", "is_short_enough(self.s)"),
        ("long transpilable", f"is_a_text_of_an_acceptable_length(self.{t2})"),
        ("call with several short arguments", f"are_lengths_compatible_with_each_other(self.s, self.s, 0)"),
        ("call with several long arguments", f"are_lengths_compatible_with_each_other(self.{t1}, self.{t2}, self.{n1})"),
        ("call with a multi-line argument", f"are_lengths_compatible_with_each_other(self.{t1}, self.{t2}, len(self.{t1}) + len(self.{t2}) + len(self.s) + self.{n1} - 1)"),
        # the alternatives that depend on the KIND of the operand rather than on its length
        ("bare antecedent", "not self.flag or len(self.s) <= 3"),
        ("bare consequent", "not (len(self.s) > 3) or self.flag"),
        ("bare negation", "not self.flag or not matches_short(self.s)"),
        ("short disjunction in a conjunction", "(self.flag or len(self.s) > 1) and len(self.s) <= 4"),
        ("negation in a conjunction", "not self.flag and len(self.s) <= 4 or self.flag and len(self.s) >= 1"),
        ("subtraction of a difference", f"self.{n1} - (len(self.s) - 1) >= 0 - (0 - 1)"),
        ("short quantifier", f"all(len(x) <= 3 for x in self.{xs})"),
        ("quantifier with a long condition", f"all(len(text_of_the_long_list) >= 1 and len(text_of_the_long_list) <= 3 and text_of_the_long_list != self.{t1} for text_of_the_long_list in self.{xs})"),
        ("quantifier over a range", f"any(len(self.{xs}[index_into_the_long_list]) >= 1 and self.{xs}[index_into_the_long_list] == self.{t2} for index_into_the_long_list in range(0, len(self.{xs})))"),
        ("nested quantifiers", f"all(any(len(x) + len(y) > self.{n1} and matches_short(y) for y in self.{xs}) or len(x) > 3 for x in self.{xs})"),
        ("sum over fifty", f"len(self.{t1}) + len(self.{t2}) + len(self.s) + self.{n1} - 1 <= 9"),
        ("formatted text", "f'<{self.s}>' != '<abcd>'"),
        ("long formatted text", f"f'{{self.{t1}}}/{{self.{t2}}}/{{self.s}}/{{self.{n1}}}' != 'ab/ab/ab/1'"),
        # descriptions: wrapped into several literals, a token longer than the line, quotes and backslashes
        ("The description is long: " + "it goes on and on about the value " * 8 + "and then it stops", "len(self.s) != 1"),
        ("A token longer than a line " + _LONG_WORD + " and the rest", "len(self.s) != 2"),
        ("Quotes \" and ' and a backslash \\ in " + "a description that is long enough to be wrapped into several lines " * 2, "len(self.s) != 4"),
    ]
    cls = mm.Class("Data_record", props=[Pr("flag", P("bool")), Pr("s", P("str")), Pr(t1, P("str")), Pr(t2, P("str")), Pr(n1, P("int")), Pr(xs, L(P("str")))],
                   invariants=[inv(d, s) for d, s in invs], description="Represent a record.")
    cases: List[Tuple[str, Dict[str, Any], Tuple[str, ...]]] = []
    texts = ["", "ab", "abcd", "AB", "a", "_a"]
    k = 0
    for a, b in itertools.product(texts, repeat=2):
        for c in (-1, 0, 2, 5):
            k += 1
            cases.append(("Data_record", {"flag": k % 3 == 0, "s": texts[k % 6], t1: a, t2: b, n1: c, xs: [[], [a], [b, a], ["ab", "", b, "abcd"]][k % 4]}, ("Data_record",)))
    m = mm.MM(classes=[cls], verification_functions=fns, version="V1", xml_namespace="urn:aasv:layout:exprs")
    return Part("layout", "exprs", m, cases, [])


# --------------------------------------------------------------------------- cpmi

STR_VALUES = ["", "ab", "abc", "abcd", "abcdefg", "AB", "ABCDEFG", "a b"]
INT_VALUES = [-1, 0, 1, 50, 100, 101]
#: key -> (source, what the description says)
STR_INVS = {"ne": ("len(self) >= 1", "must not be empty"), "le6": ("len(self) <= 6", "must have at most six characters"),
            "ge3": ("len(self) >= 3", "must have at least three characters"), "le4": ("len(self) <= 4", "must have at most four characters"),
            "lower": ("matches_lower_case(self)", "must consist of lower-case letters and digits"),
            "nosp": ("matches_no_space(self)", "must not contain a space")}
INT_INVS = {"ge0": ("self >= 0", "must not be negative"), "le100": ("self <= 100", "must be at most one hundred"),
            "ne50": ("self != 50", "must not be fifty"), "ge1": ("self >= 1", "must be positive")}

#: shapes: name -> (constrainee, [(type, bases, own invariant keys)] ancestors first; the LAST type is the one that is held)
def _shapes() -> List[Tuple[str, str, List[Tuple[str, List[str], List[str]]]]]:
    out: List[Tuple[str, str, List[Tuple[str, List[str], List[str]]]]] = []
    A, B, C = ("A", [], ["ne"]), ("B", [], ["le6"]), ("C", [], ["lower"])
    for k, perm in enumerate(itertools.permutations(["A", "B"])):
        out.append((f"Two_{k}", "str", [A, B, ("X", list(perm), ["ge3"])]))
    for k, perm in enumerate(itertools.permutations(["A", "B", "C"])):
        out.append((f"Three_{k}", "str", [A, B, C, ("X", list(perm), [] if k % 2 else ["ge3"])]))
    for k, perm in enumerate(itertools.permutations(["L", "R"])):
        out.append((f"Diamond_{k}", "str", [("T", [], ["ne"]), ("L", ["T"], ["le6"]), ("R", ["T"], ["ge3"]), ("X", list(perm), ["lower"])]))
    for k, perm in enumerate(itertools.permutations(["P", "Q"])):
        out.append((f"Deep_{k}", "str", [("G", [], ["ne"]), ("P", ["G"], ["le6"]), ("H", [], ["lower"]), ("I", ["H"], ["nosp"]),
                                          ("Q", ["I"], ["ge3"]), ("X", list(perm), [])]))
    out.append(("Below", "str", [A, B, C, ("M", ["A", "B", "C"], []), ("X", ["M"], ["le4"])]))
    for k, perm in enumerate(itertools.permutations(["M", "N"])):
        out.append((f"Twice_{k}", "str", [A, B, C, ("D", [], ["nosp"]), ("M", ["A", "B"], ["ge3"]), ("N", ["C", "D"], ["le4"]), ("X", list(perm), [])]))
    out.append(("Shared", "str", [A, B, C, ("M", ["A", "B"], []), ("N", ["B", "C"], []), ("X", ["M", "N"], ["ge3"])]))
    for k, perm in enumerate(itertools.permutations(["A", "B", "C"])):
        if k % 2 == 0:
            out.append((f"Whole_{k}", "int", [("A", [], ["ge0"]), ("B", [], ["le100"]), ("C", [], ["ne50"]), ("X", list(perm), ["ge1"] if k else [])]))
    return out


def _declaration_order(names: List[str], k: int) -> List[str]:
    """ancestors first / descendants first / rotated / interleaved from both ends"""
    if k % 4 == 0:
        return list(names)
    if k % 4 == 1:
        return list(reversed(names))
    if k % 4 == 2:
        return names[1:] + names[:1]
    out: List[str] = []
    xs = list(names)
    while xs:
        out.append(xs.pop())
        if xs:
            out.append(xs.pop(0))
    return out


def _cpmi_fns() -> List[Any]:
    return [mm.PatternFn.simple("matches_lower_case", "^[a-z0-9 ]*$"), mm.PatternFn.simple("matches_no_space", "^[^ ]*$")]


def _cpmi_model(shapes: Sequence[Tuple[str, str, List[Tuple[str, List[str], List[str]]]]], tag: str, order_shift: int = 0) -> Part:
    cps: List[Any] = []
    classes: List[Any] = []
    order: List[str] = []
    cases: List[Tuple[str, Dict[str, Any], Tuple[str, ...]]] = []
    direct: List[Tuple[str, List[Any]]] = []
    for k, (shape, base, types) in enumerate(shapes):
        pool = STR_INVS if base == "str" else INT_INVS
        values: List[Any] = list(STR_VALUES if base == "str" else INT_VALUES)
        names = []
        for t, bases, keys in types:
            name = f"{shape}_{t.lower()}"
            names.append(name)
            cps.append(mm.ConstrainedPrimitive(name, base, bases=[f"{shape}_{b.lower()}" for b in bases],
                                               invariants=[inv(f"{name} {pool[key][1]}.", pool[key][0]) for key in keys]))
            direct.append((name, values))
        order.extend(_declaration_order(names, k + order_shift))
        held = names[-1]
        holder = f"Holder_{shape}"
        classes.append(mm.Class(holder, props=[Pr("one_value", R(held)), Pr("some_value", O(R(held))), Pr("all_values", L(R(held))),
                                               Pr("some_values", O(L(R(held))))], description="Represent a holder."))
        for i, v in enumerate(values):
            w = values[(i + 3) % len(values)]
            cases.append((holder, {"one_value": v, "some_value": None, "all_values": [], "some_values": None}, (holder,)))
            cases.append((holder, {"one_value": w, "some_value": v, "all_values": [v, w, v], "some_values": [w, v]}, (holder,)))
    order.extend(c.name for c in classes)
    m = mm.MM(classes=classes, constrained_primitives=cps, verification_functions=_cpmi_fns(), version="V1",
              xml_namespace="urn:aasv:cpmi:" + tag, order=order)
    halves = None
    if len(shapes) > 1:
        h = len(shapes) // 2
        halves = lambda: [_cpmi_model(shapes[:h], tag, order_shift), _cpmi_model(shapes[h:], tag, order_shift + h)]  # noqa: E731
    return Part("cpmi", tag, m, cases, direct, halves)


def part_cpmi() -> Part:
    return _cpmi_model(_shapes(), "shapes")


# --------------------------------------------------------------------------- seeded random members of the two classes


def part_cpmi_random(rng: Any) -> Part:
    """Random DAGs of constrained primitives (every type may take 0..3 earlier types as parents, in a random order;
    random own invariants), random declaration order per shape."""
    shapes = []
    for k in range(6):
        base = "int" if rng.random() < 0.25 else "str"
        keys = sorted(STR_INVS if base == "str" else INT_INVS)
        n = rng.randrange(3, 8)
        types: List[Tuple[str, List[str], List[str]]] = []
        for i in range(n):
            earlier = [t for t, _, _ in types]
            want = 0 if not earlier else (rng.randrange(0, 4) if i < n - 1 else rng.randrange(2, 4))
            bases = rng.sample(earlier, min(want, len(earlier)))
            own = rng.sample(keys, rng.choice([0, 1, 1, 1, 2])) if bases else [rng.choice(keys)]
            types.append((("X" if i == n - 1 else chr(ord("A") + i)), bases, own))
        shapes.append((f"Random_{k}", base, types))
    return _cpmi_model(shapes, "random", order_shift=rng.randrange(4))


def part_layout_random(rng: Any) -> Part:
    """Random name lengths (type, property and class names of 20 .. 90 characters) and a random number of list
    properties in one class, kinds in random order."""
    cps = [_cp("Tag")]
    classes = [_item_class("Item")]
    cases: List[Tuple[str, Dict[str, Any], Tuple[str, ...]]] = []
    direct: List[Tuple[str, List[Any]]] = []
    for h in range(3):
        cp_name = long_name("Text", rng.randrange(20, 91))
        if all(c.name != cp_name for c in cps):
            cps.append(_cp(cp_name, "text"))
            direct.append((cp_name, list(TEXTS)))
        cls_name = long_name("Thing", rng.randrange(20, 91))
        if all(c.name != cls_name for c in classes):
            classes.append(_item_class(cls_name, "thing"))
        holder = long_name(f"Holder_{h}", rng.randrange(10, 91))
        n_props = rng.choice([3, 6, 12, 18])
        props = []
        kinds = []
        for i in range(n_props):
            target, is_cp = rng.choice([(cp_name, True), ("Tag", True), (cls_name, False), ("Item", False)])
            shape = rng.choice(["one_value", "some_value", "all_values", "all_values", "some_values"])
            t: Any = R(target)
            if "all_values" in shape:
                t = L(t)
            if "some_value" in shape:
                t = O(t)
            stem = f"p{i}_{shape}"
            pname = long_name(stem, max(len(stem), rng.choice([12, 12, rng.randrange(12, 91)])))
            props.append(Pr(pname, t))
            kinds.append((pname, target, is_cp, shape))
        classes.append(mm.Class(holder, props=props, description="Represent a holder."))

        def single(target: str, is_cp: bool) -> Any:
            return rng.choice(TEXTS) if is_cp else _item(target, rng.choice([-2, 0, 3]))

        for _ in range(12):
            kw: Dict[str, Any] = {}
            for pname, target, is_cp, shape in kinds:
                if "some_value" in shape and rng.random() < 0.3:
                    kw[pname] = None
                elif "all_values" in shape:
                    kw[pname] = (list(rng.choice(TEXT_LISTS)) if is_cp else [_item(target, v) for v in rng.choice(ITEM_LISTS)])
                else:
                    kw[pname] = single(target, is_cp)
            cases.append((holder, kw, (holder, "Item", cls_name)))
    m = mm.MM(classes=classes, constrained_primitives=cps, version="V1", xml_namespace="urn:aasv:layout:random")
    return Part("layout", "random", m, cases, direct)


ENUMERATED = {"layout": {"names": part_names, "all_values": part_many, "exprs": part_exprs}, "cpmi": {"shapes": part_cpmi}}
RANDOM = {"layout": part_layout_random, "cpmi": part_cpmi_random}


def expected_direct(m: Any, cp_name: str, value: Any, env: Any) -> Tuple[List[Tuple[str, str]], List[Any]]:
    """What ``verify_<cp>(value)`` must report: the falsified invariants of the type AND ALL ITS ANCESTORS (path empty);
    second component: exception classes of invariants that raise."""
    falsified, raising = [], []
    for i, owner in mm.all_invariants(m, cp_name):
        r = mm.eval_invariant_python(m, owner, i, value, env)
        if mm.is_exception(r):
            raising.append(r)
        elif not r:
            falsified.append((i.description, ""))
    return falsified, raising
