"""
Extraction of the "no parentheses needed" node-class tuples of the transpilers (C08: python, C09: the other targets).

A transpiler method decides whether an operand is wrapped in parentheses by ``isinstance(<operand>, <classes>)`` where
``<classes>`` is a tuple of ``parse_tree.<Node>`` classes.  How that tuple is *spelled* is not behaviour: it may be written
inline in the ``isinstance`` call, assigned once to a local variable of the method, be a class-level constant (plain name,
``self.X`` / ``cls.X`` / ``<Class>.X``), a module-level constant, a concatenation ``A + (parse_tree.X,)`` of such, or live
in a helper function / method that the method calls.  ``kind_tuple`` resolves all of these to the list of class names in
source order, so that every spelling yields the same Gen file; it raises ``ExtractError`` when the method tests against
two different tuples, against none, or against something it cannot resolve.
"""
from __future__ import annotations

import ast
from typing import Any, Dict, List, Optional, Sequence, Set

from harness.extract import ExtractError


class _Unresolved(Exception):
    pass


def _assignments(body: Sequence[ast.stmt], name: str, deep: bool) -> List[ast.AST]:
    """the values assigned to ``name`` directly in ``body`` (``deep``: anywhere below, for the locals of a function)"""
    out: List[ast.AST] = []
    nodes: Any = (n for st in body for n in ast.walk(st)) if deep else body
    for n in nodes:
        if isinstance(n, ast.Assign):
            if any(isinstance(t, ast.Name) and t.id == name for t in n.targets):
                out.append(n.value)
        elif isinstance(n, ast.AnnAssign) and n.value is not None:
            if isinstance(n.target, ast.Name) and n.target.id == name:
                out.append(n.value)
    return out


class Scope:
    """module + enclosing class of the function under extraction"""

    def __init__(self, mod: ast.Module, cls: Optional[ast.ClassDef]) -> None:
        self.mod, self.cls = mod, cls

    def function(self, name: str, method: bool) -> Optional[ast.FunctionDef]:
        body = self.cls.body if method and self.cls is not None else self.mod.body
        for n in body:
            if isinstance(n, ast.FunctionDef) and n.name == name:
                return n
        return None


def _resolve(expr: ast.AST, fn: ast.FunctionDef, scope: Scope, module_alias: str, depth: int = 0) -> Optional[List[ast.AST]]:
    """the elements of the tuple ``expr`` denotes (``None``: it is no tuple — a single class, a call, ...)"""
    if depth > 8:
        raise _Unresolved("too many indirections")
    if isinstance(expr, ast.Tuple):
        return list(expr.elts)
    if isinstance(expr, ast.BinOp) and isinstance(expr.op, ast.Add):
        a = _resolve(expr.left, fn, scope, module_alias, depth + 1)
        b = _resolve(expr.right, fn, scope, module_alias, depth + 1)
        if a is None or b is None:
            return None
        return a + b
    if isinstance(expr, ast.Name):
        local = _assignments(fn.body, expr.id, deep=True)
        if len(local) > 1:
            raise _Unresolved(f"{expr.id} is assigned {len(local)} times in {fn.name}")
        if len(local) == 1:
            return _resolve(local[0], fn, scope, module_alias, depth + 1)
        for body in ([scope.cls.body] if scope.cls is not None else []) + [scope.mod.body]:
            vals = _assignments(body, expr.id, deep=False)
            if len(vals) > 1:
                raise _Unresolved(f"{expr.id} is assigned {len(vals)} times")
            if len(vals) == 1:
                return _resolve(vals[0], fn, scope, module_alias, depth + 1)
        return None
    if isinstance(expr, ast.Attribute) and isinstance(expr.value, ast.Name) and scope.cls is not None \
            and expr.value.id in ("self", "cls", scope.cls.name):
        vals = _assignments(scope.cls.body, expr.attr, deep=False)
        if len(vals) > 1:
            raise _Unresolved(f"{expr.attr} is assigned {len(vals)} times in class {scope.cls.name}")
        if len(vals) == 1:
            return _resolve(vals[0], fn, scope, module_alias, depth + 1)
        return None
    return None


def _is_node_class(e: ast.AST, module_alias: str) -> bool:
    return isinstance(e, ast.Attribute) and isinstance(e.value, ast.Name) and e.value.id == module_alias


def _tuples_of(fn: ast.FunctionDef, scope: Scope, kinds: Sequence[str], module_alias: str, what: str) -> List[List[str]]:
    found: List[List[str]] = []
    dispatch_like: List[List[str]] = []
    for node in ast.walk(fn):
        if not (isinstance(node, ast.Call) and isinstance(node.func, ast.Name) and node.func.id == "isinstance" and len(node.args) == 2):
            continue
        # an inline tuple tested on the node itself (`isinstance(node, (parse_tree.Any, parse_tree.All))`) looks like a
        # dispatch, not like a test of an operand: it only counts when the function has no other tuple
        target = dispatch_like if isinstance(node.args[0], ast.Name) and node.args[0].id == "node" \
            and isinstance(node.args[1], ast.Tuple) else found
        try:
            elts = _resolve(node.args[1], fn, scope, module_alias)
        except _Unresolved as e:
            raise ExtractError(f"{what}: {e}")
        if elts is None or not any(_is_node_class(e, module_alias) for e in elts):
            continue  # a dispatch test against one class, `isinstance(value, (int, float))`, ...
        names: List[str] = []
        for e in elts:
            if not (_is_node_class(e, module_alias) and e.attr in kinds):  # type: ignore[attr-defined]
                raise ExtractError(f"{what}: unexpected element {ast.dump(e)} in the no-parentheses tuple")
            names.append(e.attr)  # type: ignore[attr-defined]
        target.append(names)
    return found if found else dispatch_like


def _callees(fn: ast.FunctionDef, scope: Scope) -> List[ast.FunctionDef]:
    out: List[ast.FunctionDef] = []
    for node in ast.walk(fn):
        if not isinstance(node, ast.Call):
            continue
        f = node.func
        g: Optional[ast.FunctionDef] = None
        if isinstance(f, ast.Name):
            g = scope.function(f.id, method=False)
        elif isinstance(f, ast.Attribute) and isinstance(f.value, ast.Name) and scope.cls is not None \
                and f.value.id in ("self", "cls", scope.cls.name):
            g = scope.function(f.attr, method=True)
        if g is not None and g is not fn and all(g is not h for h in out):
            out.append(g)
    return out


def kind_tuple(fn: ast.FunctionDef, mod: ast.Module, cls: Optional[ast.ClassDef], kinds: Sequence[str], what: str,
               module_alias: str = "parse_tree", expect: int = 1) -> List[List[str]]:
    """The ``expect`` distinct no-parentheses tuples ``fn`` tests its operands against, in order of first use; looked for
    in ``fn`` itself and, when it has none, in the helpers it calls (transitively)."""
    scope = Scope(mod, cls)
    seen: Set[int] = set()
    frontier = [fn]
    found: List[List[str]] = []
    while frontier and not found:
        nxt: List[ast.FunctionDef] = []
        for g in frontier:
            if id(g) in seen:
                continue
            seen.add(id(g))
            found += _tuples_of(g, scope, kinds, module_alias, what)
            nxt += _callees(g, scope)
        frontier = nxt
    distinct: List[List[str]] = []
    for t in found:
        if t not in distinct:
            distinct.append(t)
    if len(distinct) != expect:
        raise ExtractError(f"{what}: expected exactly {expect} no-parentheses tuple(s), found {len(distinct)}")
    return distinct


def one_kind_tuple(fn: ast.FunctionDef, mod: ast.Module, cls: Optional[ast.ClassDef], kinds: Sequence[str], what: str,
                   module_alias: str = "parse_tree") -> List[str]:
    return kind_tuple(fn, mod, cls, kinds, what, module_alias, 1)[0]
