"""AST-level construct mutations of meta-model source texts (used by C01/C02/C03 explorations).

`mutants(text, rng, n)` parses a VALID meta-model, picks a position (expression, statement, string
constant, identifier, class bases, import) and substitutes a construct from a catalogue of rarely
written but syntactically valid Python constructs, then `ast.unparse`s the module.  The catalogue is
seed independent; `enumerate_mutants(text)` walks every (position, catalogue entry) pair.
"""
from __future__ import annotations

import ast
import copy
from typing import Any, Iterator, List, Optional, Tuple

EXPRS = [
    "None", "0", "-1", "1.5", "True", "''", "b''", "'x'", "...", "x", "self", "self.x", "self.x.y.z", "x[0]", "x[0:1]", "x[0, 1]",
    "[]", "[1]", "()", "(1, 2)", "{}", "{1}", "{'a': 1}", "-x", "not x", "x + 1", "x - 1", "x * 2", "x ** 2", "x @ y", "x // 2",
    "x < y < z", "x == y", "x != y", "x is y", "x is None", "x is not None", "x in y", "x not in y", "x and y", "x or y", "not x or y",
    "x if y else z", "x if x is not None else []", "[] if x is None else list(x)", "[] if x is None else x", "lambda: 0", "lambda a, b: a",
    "f()", "f(x)", "f(x, y)", "f(*x)", "f(**x)", "f(a=1)", "f()(x)", "x.f()", "x.f(y)", "len(x)", "len()", "len(x, y)", "match(x, y)",
    "match(x)", "all(a for a in x)", "any(a for a in x)", "all(a for a in x if a)", "all(a for a in x for b in a)", "all([a for a in x])",
    "any(a > 0 for a in range(len(x)))", "any(a for a in range(1))", "any(a for a in range(1, 2, 3))", "(a for a in x)", "[a for a in x]",
    "{a for a in x}", "{a: a for a in x}", "f'{x}'", "f'^{x}$'", "f'{x!r}'", "f'{x:>3}'", "f''", "'a' 'b'", "(y := x)", "*x", "await x",
    "yield", "Optional[int]", "List[int]", "Optional", "List", "Optional[int, str]", "List[Optional[int]]", "Optional[Optional[int]]",
    "List[List[int]]", "Dict[str, int]", "'List[A]'", "int", "str", "bytearray", "Set[str]", "Enum", "DBC", "a.b.C", "typing.List[int]",
]

STMTS = [
    "pass", "...", "x = 1", "x: int = 1", "x: int", "x += 1", "x = y = 1", "(x, y) = (1, 2)", "self.x = x", "self.x = self.x",
    "self.x = x if x is not None else []", "self.x = [] if x is None else list(x)", "self.x: int = x", "self.x.y = x", "x.y = 1",
    "del x", "return", "return 1", "raise ValueError()", "assert x", "global x", "import os", "from . import List", "from .. import x",
    "from .typing import List", "from typing import List", "from typing import *", "from typing import List as L", "import typing as t",
    "from icontract import invariant", "if x:\n    pass", "for x in y:\n    pass", "while x:\n    pass", "with x:\n    pass",
    "try:\n    pass\nexcept Exception:\n    pass", "def f():\n    pass", "def __init__(self) -> None:\n    pass", "async def f():\n    pass",
    "class Z:\n    pass", "class Z(Enum):\n    a = 1", "lambda: 0", "f()", "super().__init__()", "super().__init__(x)", "A.__init__(self)",
    "A.__init__(self, x, y=1)", "A.__init__(*x)", "B.__init__(self, x)", "'docstring'", "f'docstring'", "b'bytes'", "1", "yield",
    "@abstract\nclass Z:\n    pass", "@f\ndef g():\n    pass", "@invariant(lambda self: True, 'd')\nclass Z:\n    pass",
    "X: Set[str] = constant_set(values=['a'])", "X: str = constant_str(value='a')", "X = constant_str(value='a')", "X: Y = 1",
]

DOCS = [
    "", " ", "Do.", "Do\n\n:param x: y", ":param:", ":param: y", ":param x:", ":returns:", ":return: x", ":raises X: y", ":attr:`x`", ":attr:`A.x`",
    ":attr:`A.x.y`", ":attr:`.x`", ":attr:`A.`", ":attr:`x()`", ":attr:`some-x`", ":attr:``", ":class:`A`", ":class:`~A`", ":class:`a.b.A`",
    ":class:``", ":class:`A B`", ":paramref:`x`", ":paramref:`A.x`", ":constraintref:`AASd-001`", ":constraint AASd-001:\n    Text.",
    ":constraint:", ":py:attr:`x`", ":unknown:`x`", ".. note::\n\n    x", ".. include:: /etc/passwd", ".. unknown::", "* a\n* b", "1. a\n2. b",
    "A\n=\n\nB", "`x`", "``x``", "*x*", "**x**", "x_", "`x`_", "|x|", "[1]_", "a\n  b\n c", "\ta", "a\x00b", "a\rb", "é\U0001f600", "\\",
    "a::\n\n    b", "+---+\n| a |\n+---+", ":attr:`x` :class:`A` :paramref:`y`", ".. code-block:: python\n\n    x = 1",
]

NAMES = ["x", "X", "_x", "__x__", "x_", "x__y", "Größe", "x1", "self", "cls", "None_", "str", "int", "bool", "float", "bytes", "bytearray",
         "object", "List", "Optional", "type", "class_", "lambda_", "match", "len", "all", "any", "invariant", "abstract", "Enum", "DBC",
         "string", "integer", "boolean", "number", "decimal", "real", "read_only", "A", "a", "Something", "something", "some_URL", "URL"]

BASES = ["", "A", "A, A", "A, B", "B, A", "str", "int", "str, A", "A, str", "str, int", "str, DBC", "DBC", "DBC, A", "Enum", "Enum, A",
         "A, Enum", "object", "a.B", "A[int]", "f()", "*x", "metaclass=M", "A, metaclass=M", "Z", "Exception", "bytearray, DBC", "float, DBC", "bool, DBC"]


def _parse_expr(src: str) -> Optional[ast.expr]:
    try:
        return ast.parse(src, mode="eval").body
    except SyntaxError:
        try:  # things like `*x`, `yield`, `await x` only parse in a context
            mod = ast.parse(f"f({src})")
            return mod.body[0].value.args[0]  # type: ignore
        except Exception:
            return None


def _parse_stmts(src: str) -> Optional[List[ast.stmt]]:
    try:
        return ast.parse(src).body
    except SyntaxError:
        return None


class _Positions(ast.NodeVisitor):
    def __init__(self) -> None:
        self.exprs: List[Tuple[ast.AST, str, Optional[int]]] = []   # (parent, field, index)
        self.bodies: List[Tuple[ast.AST, str]] = []                 # (parent, field) of statement lists
        self.docs: List[ast.Constant] = []
        self.names: List[Tuple[ast.AST, str]] = []                  # (node, attribute holding an identifier)
        self.classes: List[ast.ClassDef] = []

    def generic_visit(self, node: ast.AST) -> None:
        for field, value in ast.iter_fields(node):
            if isinstance(value, list):
                if value and all(isinstance(v, ast.stmt) for v in value):
                    self.bodies.append((node, field))
                for i, v in enumerate(value):
                    if isinstance(v, ast.expr):
                        self.exprs.append((node, field, i))
            elif isinstance(value, ast.expr):
                self.exprs.append((node, field, None))
        if isinstance(node, ast.Constant) and isinstance(node.value, str):
            self.docs.append(node)
        if isinstance(node, ast.ClassDef):
            self.classes.append(node)
            self.names.append((node, "name"))
        if isinstance(node, ast.FunctionDef):
            self.names.append((node, "name"))
        if isinstance(node, ast.arg):
            self.names.append((node, "arg"))
        if isinstance(node, ast.Name):
            self.names.append((node, "id"))
        if isinstance(node, ast.Attribute):
            self.names.append((node, "attr"))
        if isinstance(node, ast.keyword) and node.arg is not None:
            self.names.append((node, "arg"))
        super().generic_visit(node)


def _unparse(tree: ast.AST) -> Optional[str]:
    try:
        ast.fix_missing_locations(tree)
        text = ast.unparse(tree)
        compile(text, "<m>", "exec", flags=ast.PyCF_ONLY_AST)
        return text + "\n"
    except Exception:
        return None


def _apply(text: str, kind: str, pos: int, entry: int) -> Optional[str]:
    tree = ast.parse(text)
    P = _Positions()
    P.visit(tree)
    if kind == "expr":
        if not P.exprs:
            return None
        parent, field, idx = P.exprs[pos % len(P.exprs)]
        new = _parse_expr(EXPRS[entry % len(EXPRS)])
        if new is None:
            return None
        if idx is None:
            setattr(parent, field, new)
        else:
            getattr(parent, field)[idx] = new
    elif kind in ("stmt-insert", "stmt-replace"):
        if not P.bodies:
            return None
        parent, field = P.bodies[pos % len(P.bodies)]
        body = getattr(parent, field)
        new = _parse_stmts(STMTS[entry % len(STMTS)])
        if new is None:
            return None
        k = (pos // max(1, len(P.bodies))) % (len(body) + 1)
        if kind == "stmt-insert":
            body[k:k] = new
        else:
            k = k % len(body)
            body[k : k + 1] = new
    elif kind == "doc":
        if not P.docs:
            return None
        P.docs[pos % len(P.docs)].value = DOCS[entry % len(DOCS)]
    elif kind == "name":
        if not P.names:
            return None
        node, attr = P.names[pos % len(P.names)]
        setattr(node, attr, NAMES[entry % len(NAMES)])
    elif kind == "bases":
        if not P.classes:
            return None
        cls = P.classes[pos % len(P.classes)]
        src = f"class Z({BASES[entry % len(BASES)]}):\n    pass"
        try:
            z = ast.parse(src).body[0]
        except SyntaxError:
            return None
        cls.bases, cls.keywords = z.bases, z.keywords  # type: ignore
    elif kind == "drop":
        if not P.bodies:
            return None
        parent, field = P.bodies[pos % len(P.bodies)]
        body = getattr(parent, field)
        k = (pos // max(1, len(P.bodies))) % len(body)
        del body[k]
        if not body:
            body.append(ast.Pass())
    else:
        raise ValueError(kind)
    return _unparse(tree)


KINDS = [("expr", EXPRS), ("stmt-insert", STMTS), ("stmt-replace", STMTS), ("doc", DOCS), ("name", NAMES), ("bases", BASES), ("drop", [0])]


def counts(text: str) -> dict:
    P = _Positions()
    P.visit(ast.parse(text))
    nb = sum(len(getattr(p, f)) + 1 for p, f in P.bodies)
    return {"expr": len(P.exprs), "stmt-insert": nb, "stmt-replace": nb, "doc": len(P.docs), "name": len(P.names), "bases": len(P.classes), "drop": nb}


def random_mutant(text: str, rng: Any) -> Optional[Tuple[str, str]]:
    """(description, mutated text) or None."""
    kind, cat = rng.choices(KINDS, weights=[5, 3, 2, 2, 1, 1, 1])[0]
    pos = rng.randrange(10_000)
    entry = rng.randrange(len(cat))
    out = _apply(text, kind, pos, entry)
    if out is None:
        return None
    return f"{kind}@{pos}:{cat[entry] if kind != 'drop' else ''}", out


def enumerate_mutants(text: str, kinds: Optional[List[str]] = None) -> Iterator[Tuple[str, str]]:
    """Every (position, catalogue entry) pair — seed independent (large: use on small base models)."""
    c = counts(text)
    for kind, cat in KINDS:
        if kinds is not None and kind not in kinds:
            continue
        for pos in range(c[kind]):
            for entry in range(len(cat)):
                out = _apply(text, kind, pos, entry)
                if out is not None:
                    yield f"{kind}@{pos}:{cat[entry] if kind != 'drop' else ''}", out
