"""AST-level construct mutations of meta-model source texts (used by the C01 exploration).

Two engines over the same catalogues of rarely written, but syntactically valid Python constructs:

* **positional** (`_apply`, `random_mutant`, `enumerate_mutants`): parse a VALID meta-model, pick a position by number
  (any expression, statement list, string constant, identifier, class bases) and substitute a catalogue entry;
* **role based** (`slots`, `apply_role`, `enumerate_roles`, `random_role_mutant`): positions are classified by the ROLE
  they play for the front end (the places ``parse/_translate.py``, ``parse/_rules.py``, ``intermediate/construction.py``,
  ``intermediate/_translate.py`` and ``intermediate/pattern_verification.py`` dispatch on): class/method/function
  decorators, the condition/body/description of an invariant, contract conditions, annotations of properties /
  arguments / results / constants, argument defaults, argument lists, enumeration literal values, constructor
  statements and the values they assign, arguments to super constructors, bodies of verification functions and
  of methods, elements of ``constant_set(values=…, superset_of=…)``, docstrings in each of their positions, the
  defining occurrence of every kind of name (renamed alone, or consistently through the model).  ``enumerate_roles``
  walks role x catalogue, which gives a seed-independent slice that puts every construct class into every role.

Everything is re-rendered with ``ast.unparse``; the catalogues are seed independent.
"""
from __future__ import annotations

import ast
import warnings
from typing import Any, Callable, Dict, Iterator, List, Optional, Sequence, Tuple

# ------------------------------------------------------------------------------------------------ catalogues

#: one representative (or a few) for every ``ast`` expression class, in the shapes the front end looks at
CORE_EXPRS = [
    "None", "0", "-1", "1.5", "True", "''", "b''", "'x'", "...", "1j", "2 ** 70", "x", "self", "self.x", "self.x.y.z", "x[0]", "x[0:1]",
    "x[0, 1]", "x[()]", "[]", "[1]", "[x]", "()", "(1, 2)", "{}", "{1}", "{'a': 1}", "-x", "+x", "~x", "not x", "x + 1", "x - 1", "x * 2",
    "x ** 2", "x @ y", "x // 2", "x % 2", "x | y", "x < y < z", "x == y", "x != y", "x is y", "x is None", "x is not None", "x in y",
    "x not in y", "x and y", "x or y", "not x or y", "x if y else z", "lambda: 0", "lambda a, b: a", "f()", "f(x)", "f(*x)", "f(**x)",
    "f(a=1)", "f()(x)", "x.f()", "x[0](y)", "'a'(x)", "(x - 1)(y)", "len(x)", "all(a for a in x)", "(a for a in x)", "[a for a in x]",
    "{a for a in x}", "{a: a for a in x}", "f'{x}'", "f''", "'a' 'b'", "(y := x)", "*x", "await x", "yield", "yield from x", "E.a", "E.a.b",
    "Größe", "x.größe",
]

#: the shapes the parse rules and the constructor understanding match on (near hits and near misses)
RULE_EXPRS = [
    "x[-1]", "x[0][1]", "x[y]", "x['a']", "x > 0", "x >= 0", "0 < x", "x < y", "len(x) > 0", "len(x) == 1", "len()", "len(x, y)", "len(x=1)",
    "match(x, y)", "match(x)", "match()", "match(x, y, 0)", "match(x, y) is not None", "match(x, y) is None", "match(y, x) is not None",
    "match('^a$', x) is not None", "match(f'^{y}$', x) is not None", "match(x, x) is not None", "not match(x, y)", "re.match(x, y) is not None",
    "re.compile(x)", "all(a for a in x if a)", "all(a for a in x for b in a)", "all([a for a in x])", "all(x)", "all()", "all(a for a in x, 1)",
    "all(a > 0 for a in range(len(x)))", "any(a for a in range(1))", "any(a for a in range(1, 2, 3))", "any(a for a in range(0, len(x)))",
    "all(a for (a, b) in x)", "all(a async for a in x)", "any(self.x[i] == 0 for i in range(0, 2))", "all(all(b for b in a) for a in x)",
    "all(x for x in x)", "all(self for self in x)", "all(all(a > 0 for a in x) for a in x)", "any(all(a for a in a) for a in x)",
    "all(a and any(a for a in x) for a in x)", "all(any(b for b in x) and all(b for b in x) for a in x)", "not (x is not None) or len(x) >= 1", "not x or not y or z", "(not x) or y",
    "not (not x or y)", "not not x", "x is not None and y is not None", "(x is None) == (y is None)", "x is True", "x is not y", "None is x",
    "x == None", "x in [1, 2]", "x in Some_kinds", "self.x in Some_strings", "self in x", "x.y in z.w", "x + y + z", "x - -1", "'a' + 'b'",
    "-True", "-1.5", "-(1)", "- -1", "-x.y", "f'{x!r}'", "f'{x!s}'", "f'{x:>3}'", "f'{x:{y}}'", "f'{x}{y}'", "f'^{x}$'", "f'{f()}'",
    "f'{f\"{x}\"}'", "f'{x.y}'", "f'{1}'", "f'{{}}'", "x if x is not None else []", "[] if x is None else x", "x if x is not None else [1]",
    "x if x is not None else E.a", "x if x is not None else Kind.One", "x if x is not None else Kind.Three", "x if x is not None else A.x",
    "y if x is not None else []", "x if y is not None else []", "x if x is None else []", "x if x else []", "x if x is not None else None",
    "x if x is not None else ''", "x if x is not None else list()", "[] if x is None else list(x)", "x or []", "list(x)", "x.copy()",
    "self.f()", "self.x.f(1)", "self.f(self)", "A.__init__(self)", "A.__init__(self, x)", "super().__init__()", "self.__class__",
    "x.__init__", "OLD.x", "result", "OLD", "re", "self.self", "lambda self: True", "lambda self: self.x", "lambda x=1: x", "lambda *a: 0",
    "lambda **k: 0", "lambda a, /: a", "lambda *, a: a", "int('1')", "str(x)", "bool(x)", "float('nan')", "Kind('one')", "Kind.One",
    "Kind.One.value", "Kind['One']", "Some_text", "Some_kinds", "matches_something", "matches_something(x)", "matches_something(self.z)",
    "is_special(self.z)", "is_special()", "unknown_function(x)", "A(x)", "B", "1 if x else 2", "(x, y) == (1, 2)", "x == y == z",
    "x < y > z", "x in y in z", "1 < 2", "'a' < 'b'", "True and False", "x and (y or z)", "x or y or z", "x and y and z",
]

TYPE_EXPRS = [
    "int", "str", "bool", "float", "bytearray", "bytes", "object", "Any", "None", "A", "B", "Kind", "Code", "Unknown", "Some_text", "matches_something",
    "Optional[int]", "List[int]", "Set[int]", "Set[str]", "Set[Kind]", "Optional", "List", "Set", "Optional[int, str]", "List[int, str]",
    "Optional[()]", "List[()]", "Optional[int,]", "List[Optional[int]]", "Optional[Optional[int]]", "List[List[int]]",
    "Optional[List[Optional[List[int]]]]", "List[Optional[int, str]]", "Optional[List[int, str]]", "List[Set[int]]", "Optional[Set[str]]",
    "Dict[str, int]", "Tuple[int, str]", "Final[int]", "Optional[A]", "List[A]", "List[Kind]", "Optional[Code]", "Optional[Unknown]",
    "List['A']", "'A'", "'int'", "'List[A]'", "'Optional[int]'", "''", "' A'", "'a.B'", "'Größe'", "b'A'", "1", "Optional[1]", "Optional['']",
    "Optional[None]", "int | None", "List[int] | None", "a.B", "typing.List[int]", "typing.Optional[int]", "List[a.B]", "Optional[int][0]",
    "List[0:1]", "List[int, 0:1]", "Optional[...]", "Optional[[int]]", "List[*x]", "A[int]", "Kind[str]", "int[str]", "Optional[f()]",
    "Optional[lambda: 0]", "List[self]", "Optional[DBC]", "Enum", "DBC", "List[Enum]",
]

EXPRS = CORE_EXPRS + RULE_EXPRS + TYPE_EXPRS

STMTS = [
    "pass", "...", "x = 1", "x: int = 1", "x: int", "x += 1", "x = y = 1", "(x, y) = (1, 2)", "[x, y] = z", "*x, y = z", "self.x = x",
    "self.x = self.x", "self.x = y", "self.y = x", "self.x = x if x is not None else []", "self.x = [] if x is None else list(x)",
    "self.x = x if x is not None else Kind.One", "self.y = y if y is not None else []", "self.x: int = x", "self.x.y = x", "x.y = 1",
    "self.x = self.y = x", "self.x += x", "self[0] = x", "self.x, self.y = (x, y)", "self.x = 1", "self.x = None", "self.x = f(x)",
    "self.unknown = x", "self.unknown = unknown", "del x", "return", "return 1", "return x", "return self.x", "return self.x > 10", "return True",
    "return None", "return match(pattern, text) is not None", "return match('^a$', text) is not None", "return match(pattern, text)",
    "return match(text, text) is not None", "return match(pattern, x) is not None", "return match(pattern) is not None",
    "return match(pattern, text, 0) is not None", "return not match(pattern, text)", "return match(pattern, text) is None",
    "return re.match(pattern, text) is not None", "return matches_something(text)", "return len(text) > 0", "return value > 0",
    "return all(c == 'a' for c in text)", "return all(all(c == 'a' for c in text) for c in text)", "c = 'a'\nreturn all(c == 'a' for c in text)",
    "return any(text == 'a' for text in text)", "pattern = 'a'", "pattern = f'^{prefix}$'", "pattern = prefix", "pattern = text", "text = 'a'",
    "pattern = 1", "pattern = None", "pattern = 'a' + 'b'", "pattern = f'{1}'", "pattern = f'{text}'", "pattern = f'{unknown}'",
    "pattern = '^a{4294967296}$'", "pattern = '('", "pattern = '['", "self.pattern = 'a'", "pattern[0] = 'a'", "pattern: str = 'a'",
    "match = 'a'", "re = 'a'", "pattern", "'a'", "f'a'", "f'{x}'", "b'bytes'", "1", "None", "x", "self", "f()", "f(x)", "x.f()", "x > 0",
    "raise ValueError()", "raise", "assert x", "assert x, 'message'", "global x", "nonlocal x", "import os", "import a.b as c", "from . import List",
    "from .. import x", "from .typing import List", "from typing import List", "from typing import *", "from typing import List as L",
    "import typing as t", "from icontract import invariant", "from icontract import DBC, invariant", "from re import match", "from re import compile",
    "from enum import Enum", "from aas_core_meta.marker import abstract", "from aas_core_meta.marker import unknown", "from enum import IntEnum",
    "from typing import Dict", "from icontract import snapshot", "if x:\n    pass", "if x:\n    pass\nelse:\n    pass", "for x in y:\n    pass",
    "while x:\n    pass", "with x:\n    pass", "with x as y:\n    pass", "try:\n    pass\nexcept Exception:\n    pass",
    "try:\n    pass\nfinally:\n    pass", "match x:\n    case 1:\n        pass", "type X = int", "def f():\n    pass",
    "def f(self) -> None:\n    pass", "def f(self) -> int:\n    return 1", "def f(x: int) -> bool:\n    return x > 0",
    "def __init__(self) -> None:\n    pass", "def __init__(self, x: int) -> None:\n    self.x = x", "def __init__(x: int) -> None:\n    pass",
    "def __str__(self) -> str:\n    pass", "def __eq__(self, other: int) -> bool:\n    pass", "async def f():\n    pass",
    "@verification\ndef g(x: int) -> bool:\n    return x > 0", "@verification\ndef g(self, x: int) -> bool:\n    return x > 0",
    "@verification\ndef g(text: str) -> bool:\n    return match('^a$', text) is not None",
    "@verification\n@implementation_specific\ndef g(self) -> bool:\n    pass", "@implementation_specific\ndef g(x: int) -> bool:\n    pass",
    "@verification\ndef g() -> bool:\n    return True", "@verification\ndef g(x: int):\n    return True", "@verification\ndef g(x) -> bool:\n    return True",
    "@verification\ndef g(x: int) -> None:\n    pass", "@verification\n@non_mutating\ndef g(x: int) -> bool:\n    return True",
    "@non_mutating\ndef g(self) -> int:\n    return 1", "@f\ndef g():\n    pass", "@implementation_specific\ndef g(self) -> None:\n    pass",
    "@implementation_specific\ndef __init__(self) -> None:\n    pass", "@verification\ndef __init__(self) -> None:\n    pass",
    "@require(lambda x: x > 0)\ndef g(self, x: int) -> None:\n    pass", "@require(lambda y: y > 0)\ndef g(self, x: int) -> None:\n    pass",
    "@ensure(lambda result: result > 0)\ndef g(self) -> int:\n    pass", "@ensure(lambda OLD: OLD.x > 0)\ndef g(self) -> int:\n    pass",
    "@snapshot(lambda self: self.x, name='x')\n@ensure(lambda OLD: OLD.x > 0)\ndef g(self) -> int:\n    pass",
    "One = 'three'", "Three = 'one'", "Three = 'three'", "Three = 3", "Three: str = 'three'", "One", "Three = One",
    "@abstract\nclass Y1:\n    w: int\n\n\n@abstract\nclass Y2:\n    w: int\n\n\nclass Z(Y1, Y2):\n    pass",
    "@abstract\nclass Y1:\n    w: int\n\n\n@abstract\nclass Y2:\n    w: str\n\n\n@abstract\nclass Z(Y1, Y2):\n    pass",
    "@abstract\nclass Y1:\n    def g(self) -> int:\n        pass\n\n\n@abstract\nclass Y2:\n    def g(self) -> int:\n        pass\n\n\nclass Z(Y1, Y2):\n    pass",
    "@abstract\nclass Y0:\n    w: int\n\n\n@abstract\nclass Y1(Y0):\n    pass\n\n\n@abstract\nclass Y2(Y0):\n    pass\n\n\n@abstract\nclass Z(Y1, Y2):\n    pass",
    "class Z:\n    pass", "class Z(Enum):\n    a = 1", "class Z(Enum):\n    a = 'a'\n    a = 'b'", "class Z(Enum):\n    a = 'a'\n    b = 'a'",
    "class Z(Enum):\n    pass", "class Z(A):\n    pass", "class Z(str):\n    pass", "class Z(str):\n    x: int", "class Z(Z):\n    pass",
    "@abstract\nclass Z(str):\n    pass", "class Z(str, A):\n    pass", "class Z(A, A):\n    pass", "class Z(Unknown):\n    pass",
    "class Z(Kind):\n    pass", "class Z(Code):\n    pass", "class Z(Code, A):\n    pass", "class Z(Code):\n    x: int",
    "class Z(str):\n    def __init__(self) -> None:\n        str.__init__(self)", "class Z:\n    class Y:\n        pass",
    "class Z:\n    x: int\n    x: int", "class Z:\n    def f(self) -> None:\n        pass\n    def f(self) -> None:\n        pass",
    "class Z:\n    x: int\n    def x(self) -> None:\n        pass", "class A:\n    pass", "class Kind:\n    pass", "Kind = 1",
    "class Z:\n    def __init__(self) -> None:\n        '''Do.'''\n        '''Do.'''", "class Z:\n    '''Do.'''\n    '''Do.'''",
    "@abstract\nclass Z:\n    pass", "@abstract\n@implementation_specific\nclass Z:\n    pass", "@invariant(lambda self: True, 'd')\nclass Z:\n    pass",
    "@serialization(with_model_type=True)\nclass Z:\n    pass", "@abstract\nclass Z(Enum):\n    a = 'a'", "lambda: 0", "super().__init__()",
    "super().__init__(x)", "A.__init__(self)", "A.__init__(self, x)", "A.__init__(self, x, y)", "A.__init__(self, x, y=y)",
    "A.__init__(self, x=x, y=y)", "A.__init__(self=self, x=x, y=y)", "A.__init__(x, y)", "A.__init__(self, y, x)", "A.__init__(self, x, y, y)",
    "A.__init__(self, x, z=z)", "A.__init__(self, x, x=x)", "A.__init__(self, 1, 2)", "A.__init__(self, *x)", "A.__init__(self, **x)",
    "A.__init__(self, x, y=1)", "A.__init__()", "B.__init__(self, x)", "Kind.__init__(self)", "Unknown.__init__(self)", "str.__init__(self)",
    "int.__init__(self, x)", "DBC.__init__(self)", "a.b.__init__(self)", "f().__init__(self)", "A.f(self)", "A.__init__", "self.__init__(x)",
    "yield", "await x", "X: Set[str] = constant_set(values=['a'])", "X: str = constant_str(value='a')", "X = constant_str(value='a')",
    "X: Y = 1", "X: int = constant_str(value='a')", "X: str = constant_str(value=1)", "X: str = constant_str()", "X: str = 'a'", "X: str",
    "X: Set[Kind] = constant_set(values=[Kind.One, Kind.One])", "X: Set[Kind] = constant_set(values=[Kind.Three])",
    "X: Set[Kind] = constant_set(values=['one'])", "X: Set[str] = constant_set(values=[Kind.One])", "X: Set[A] = constant_set(values=[])",
    "X: Set[Code] = constant_set(values=['a'])", "X: Set[str] = constant_set(values=['a'], superset_of=[X])",
    "X: Set[str] = constant_set(values=['a'], superset_of=[Some_strings, Some_strings])", "X: Set[str] = constant_set(values=[], superset_of=[Some_strings])",
    "X: Set[str] = constant_set(values=['a'], superset_of=[Some_kinds])", "X: Set[str] = constant_set(values=['a'], superset_of=[Some_text])",
    "X: Set[str] = constant_set(values=['a'], superset_of=[Unknown])", "X: Set[int] = constant_set(values=[1, True, 1.0])",
    "X: Set[str, int] = constant_set(values=[])", "X: Set = constant_set(values=[])", "X: List[str] = constant_set(values=[])",
    "X: Optional[str] = constant_str(value='a')", "X: Set[List[str]] = constant_set(values=[])", "Some_text: str = constant_str(value='b')",
    "A: str = constant_str(value='b')", "matches_something: str = constant_str(value='b')", "X.y: str = constant_str(value='b')",
    "(X): str = constant_str(value='b')", "X: bytearray = constant_bytearray(value=b'a')", "X: float = constant_float(value=1)",
    "X: int = constant_int(value=True)", "X: bool = constant_bool(value=1)", "X: int = constant_int(value=2 ** 70)",
    "X: float = constant_float(value=1e400)", "X: int = constant_int(value=-1)", "__version__ = 1", "__version__ = 'a'\n__version__ = 'b'",
    "__xml_namespace__ = 'a/'", "__xml_namespace__ = ' a'", "__xml_namespace__ = 'a\"b'", "__xml_namespace__ = ''", "__version__ = ''",
    "__version__, __xml_namespace__ = ('a', 'b')", "__book_url__ = 'a'", "__book_version__ = 'a'", "__unknown__ = 'a'", "__version__: str = 'a'",
]

DOCS = [
    "", " ", "\n", "Do.", "Do\n\n:param x: y", "Do.\n\n:param:", "Do.\n\n:param: y", "Do.\n\n:param x:", "Do.\n\n:param x y: z", "Do.\n\n:param 1a: z",
    "Do.\n\n:param x: a\n:param x: b", "Do.\n\n:param unknown: z", "Do.\n\n:returns:", "Do.\n\n:return: x", "Do.\n\n:returns x: y",
    "Do.\n\n:return: x\n:returns: y", "Do.\n\n:raises X: y", "Do.\n\n:unknown: x", "Do.\n\n:a b c: x", "Do.\n\n:: x", ":param x: y", ":returns: x",
    "Do.\n\n:param x: y\n\nMore.\n\n:param z: y", "Do.\n\n:param x:\n    :param y: z", "Do :attr:`x`.", "Do :attr:`A.x`.", "Do :attr:`~A.x`.",
    "Do :attr:`A.x.y`.", "Do :attr:`.x`.", "Do :attr:`A.`.", "Do :attr:`x()`.", "Do :attr:`some-x`.", "Do :attr:``.", "Do :attr:`Kind.One`.",
    "Do :attr:`Kind.Three`.", "Do :attr:`Unknown.x`.", "Do :attr:`Code.x`.", "Do :attr:`A.unknown`.", "Do :attr:`x <A.x>`.", "Do :class:`A`.",
    "Do :class:`~A`.", "Do :class:`!A`.", "Do :class:`~!A`.", "Do :class:`.A`.", "Do :class:`a.b.A`.", "Do :class:``.", "Do :class:`A B`.",
    "Do :class:`A <B>`.", "Do :class:`Kind`.", "Do :class:`Code`.", "Do :class:`Unknown`.", "Do :class:`Größe`.", "Do :class:`A.x`.", "Do :class:`1A`.",
    "Do :const:`Some_text`.", "Do :const:`~Some_text`.", "Do :const:`Some_kinds`.", "Do :const:`Unknown`.", "Do :const:`a.b`.", "Do :const:`a b`.",
    "Do :const:`.Some_text`.", "Do :const:``.", "Do :const:`A`.", "Do :paramref:`x`.", "Do :paramref:`text`.", "Do :paramref:`A.x`.",
    "Do :paramref:`unknown`.", "Do :paramref:``.", "Do :constraintref:`AASd-001`.", "Do :constraintref:``.", "Do.\n\n:constraint AASd-001:\n    Text.",
    "Do.\n\n:constraint AASd-001:\n    A.\n:constraint AASd-001:\n    B.", "Do.\n\n:constraint:", "Do.\n\n:constraint: x", "Do.\n\n:constraint a b: x",
    "Do.\n\n:Constraint X:\n    :constraintref:`X`", "Do :py:attr:`x`.", "Do :unknown:`x`.", "Do :ref:`x`.", "Do :class:`A` :class:`A`.",
    "Do.\n\n.. note::\n\n    x", "Do.\n\n.. include:: /etc/passwd", "Do.\n\n.. unknown::", "Do.\n\n.. code-block:: python\n\n    x = 1", "Do.\n\n.. image:: x.png",
    "Do.\n\n.. raw:: html\n\n    <b>", "Do.\n\n.. |x| replace:: y", "Do.\n\n.. _target:", "Do.\n\n.. [1] footnote", "Do.\n\n.. comment", "* a\n* b",
    "Do.\n\n* a\n* b", "Do.\n\n1. a\n2. b", "Do.\n\n* a\n\n  * b", "A\n=\n\nB", "Do.\n\nA\n=\n\nB", "Do `x`.", "Do ``x``.", "Do *x*.", "Do **x**.", "Do x_.",
    "Do `x`_.", "Do |x|.", "Do [1]_.", "Do `x <http://a>`_.", "Do http://a.b.", "a\n  b\n c", "\ta", "a\x00b", "a\rb", "é\U0001f600", "\\", "Do \\*.",
    "a::\n\n    b", "Do.\n\n+---+\n| a |\n+---+", "Do.\n\n=== ===\n a   b\n=== ===", "Do.\n\nterm\n    definition", "Do.\n\n| line\n| block",
    "Do.\n\n>>> 1 + 1\n2", "Do.\n\n    quoted", "Do.\n\n-a  option", "Do.\n\n----\n\nMore.", "Do :attr:`x` :class:`A` :paramref:`y` :const:`Some_text`.",
    "Do.\n\n:param x: :attr:`x` :class:`a.b`", "Do.\n\n:returns: :class:`a.b`", "*", "`", "``", ":", "::", "|", "_", "x_", ".. ", "..", "=", "==\n==",
]

NAMES = [
    "x", "X", "_x", "__x__", "__x", "x_", "_", "__", "x__y", "Größe", "größe", "x1", "self", "cls", "None_", "str", "int", "bool", "float", "bytes", "bytearray",
    "object", "List", "Optional", "Set", "type", "class_", "lambda_", "match", "re", "range", "len", "all", "any", "invariant", "abstract", "Enum", "DBC",
    "string", "integer", "boolean", "number", "decimal", "real", "read_only", "A", "B", "Kind", "Code", "One", "a", "Something", "something", "some_URL", "URL",
    "I_x", "Must_x", "mutable_x", "over_x_or_empty", "Over_X_Or_Empty", "type_name", "model_type", "descend", "accept", "transform", "path", "error", "errors",
    "context", "visitor", "class", "verification", "jsonization", "constants", "enhancement", "__init__", "__str__", "OLD", "result", "text", "pattern",
    "Some_text", "Some_kinds", "matches_something", "is_special", "constant_set", "constant_str", "verification_error", "WITH_UPPER", "with__double",
    "trailing_", "X_Y", "a" * 300,
]

BASES = [
    "", "A", "A, A", "A, B", "B, A", "str", "int", "bool", "float", "bytearray", "bytes", "str, A", "A, str", "str, int", "str, str", "str, DBC", "DBC, str",
    "DBC", "DBC, DBC", "DBC, A", "A, DBC", "Enum", "Enum, A", "A, Enum", "Enum, Enum", "Enum, DBC", "str, Enum", "object", "a.B", "A[int]", "f()", "*x",
    "'A'", "1", "metaclass=M", "A, metaclass=M", "Z", "Unknown", "Exception", "bytearray, DBC", "float, DBC", "bool, DBC", "Kind", "Code", "Code, A",
    "Code, str", "Code, Code", "A, Code", "Some_text", "matches_something", "Größe", "List", "Optional[A]", "lambda: 0", "A if x else B",
]

DECORATORS = [
    "abstract", "abstract()", "implementation_specific", "implementation_specific()", "template", "template()", "verification", "verification()",
    "non_mutating", "non_mutating()", "unknown", "unknown()", "serialization", "serialization()", "serialization(True)", "serialization(False)",
    "serialization(with_model_type=True)", "serialization(with_model_type=False)", "serialization(with_model_type=None)",
    "serialization(with_model_type=1)", "serialization(with_model_type=x)", "serialization(True, with_model_type=False)", "serialization(x=1)",
    "serialization(**x)", "serialization(*x)", "serialization(True, False)", "invariant", "invariant()", "invariant(lambda self: True)",
    "invariant(lambda self: True, 'd')", "invariant(lambda self: True, 'd', 3)", "invariant(condition=lambda self: True, description='d')",
    "invariant(description='d', condition=lambda self: True)", "invariant(lambda self: True, description='d')", "invariant('d', lambda self: True)",
    "invariant(lambda: True, 'd')", "invariant(lambda self, x: True, 'd')", "invariant(lambda x: True, 'd')", "invariant(lambda self=1: True, 'd')",
    "invariant(lambda *self: True, 'd')", "invariant(lambda **self: True, 'd')", "invariant(lambda self, /: True, 'd')", "invariant(lambda *, self: True, 'd')",
    "invariant(lambda self: True, f'd')", "invariant(lambda self: True, 1)", "invariant(lambda self: True, None)", "invariant(lambda self: True, '')",
    "invariant(lambda self: True, 'd' 'e')", "invariant(lambda self: True, b'd')", "invariant(lambda self: True, description=1)",
    "invariant(lambda self: True, 'd', enabled=True)", "invariant(f, 'd')", "invariant(None, 'd')", "invariant(True, 'd')", "invariant(**x)", "invariant(*x)",
    "invariant(lambda self: (yield), 'd')", "invariant(lambda self: self, 'd')", "invariant(lambda self: x, 'd')", "invariant(lambda self: self.unknown > 0, 'd')",
    "invariant(lambda self: re.match('a', self.x), 'd')", "invariant(lambda self: match('a', self.x) is not None, 'd')",
    "invariant(lambda self: lambda: True, 'd')", "invariant(lambda self: (lambda: True)(), 'd')", "invariant(lambda self: f()(self.x), 'd')",
    "invariant(lambda self: len(self.x) > 0, 'X is non-empty.')", "invariant(lambda self: True, 'Do :class:`a.b`.')", "invariant(lambda self: True, 'a\\nb')",
    "invariant(lambda self: all(x for self in self.y), 'd')", "invariant(lambda self: all(re for re in self.y), 'd')",
    "invariant(lambda self: not (self.y is not None) or len(self.y) >= 1, 'Y is either not set or non-empty.')",
    "require", "require()", "require(lambda x: x > 0)", "require(lambda x: x > 0, 'd')", "require(lambda: True)", "require(lambda self: self.x > 0)",
    "require(lambda unknown: unknown > 0)", "require(lambda x, unknown: True)", "require(lambda x: x > 0, description='d')", "require(condition=lambda x: x > 0)",
    "require(lambda x: x > 0, 1)", "require(lambda x: x > 0, f'd')", "require(f)", "require(lambda x: (yield))", "require(lambda *x: True)", "require(lambda x=1: True)",
    "require(lambda x: x > 0, 'd', 3)", "require(lambda x: x > 0, enabled=True)", "require(lambda größe: True)", "require(lambda result: result)",
    "require(lambda OLD: OLD)", "ensure", "ensure()", "ensure(lambda result: result > 0)", "ensure(lambda result: result)", "ensure(lambda OLD: OLD.x > 0)",
    "ensure(lambda OLD, result, self: True)", "ensure(lambda x, result: x == result)", "ensure(lambda unknown: True)", "ensure(lambda: True)",
    "ensure(lambda result: result, 'd')", "snapshot", "snapshot()", "snapshot(lambda x: x)", "snapshot(lambda self: self.x)", "snapshot(lambda x: x, 'y')",
    "snapshot(lambda x: x, name='y')", "snapshot(lambda x, y: x)", "snapshot(lambda x, y: x, 'z')", "snapshot(lambda: 1)", "snapshot(lambda: 1, 'z')",
    "snapshot(lambda: 1, name='größe')", "snapshot(lambda x: x, name='1a')", "snapshot(lambda x: x, name='')", "snapshot(lambda x: x, name=1)",
    "snapshot(lambda x: x, name=f'y')", "snapshot(capture=lambda x: x, name='y')", "snapshot(lambda unknown: unknown)", "snapshot(f)", "snapshot(lambda x: (yield))",
    "snapshot(lambda x: x, 'OLD')", "snapshot(lambda x: x, 'self')", "snapshot(lambda x: x, 'result')", "a.b", "a.b()", "a.b.c(1)", "f()()", "x[0]", "x[0]()",
    "lambda f: f", "(yield)", "1", "'abstract'", "None", "f'{x}'", "[abstract]", "abstract if x else template", "not abstract", "abstract, template", "Größe",
    "größe()", "abstract(1)", "abstract(x=1)", "verification(True)", "implementation_specific(True)", "dataclass", "staticmethod", "classmethod", "property",
]

#: argument lists (rendered into ``def f(<args>): pass`` / ``lambda <args>: 0``)
ARGUMENTS = [
    "", "self", "self, self", "x", "self, x", "x: int", "self, x: int", "self, x: int, y: str", "self, x: int = 1", "self, x: int = None",
    "self, x: Optional[int] = None", "self, x: Optional[int]", "self, x: int = 1, y: int", "self, x: int, x: int", "self, x: int, y: int, x: int",
    "self, *a", "self, *a: int", "self, **k", "self, **k: int", "self, *, x: int", "self, *, x: int = 1", "self, x: int, /", "self, /, x: int", "self: int",
    "self: A", "self=1", "self=None", "x: int, self", "x: int, self: int", "self, self_: int", "cls", "cls, x: int", "self, x: 'int'", "self, x: Set[int]",
    "self, x: List[int, str]", "self, x: Unknown", "self, x: Optional", "self, x: 1", "self, x: ''", "self, x: 'List[int]'", "self, x: List[Optional[int, str]]",
    "self, x: A = A", "self, x: Kind = Kind.One", "self, x: Kind = Kind.Three", "self, x: Kind = Unknown.One", "self, x: Kind = Kind.One.value",
    "self, x: Kind = f().One", "self, x: int = -1", "self, x: int = 2 ** 70", "self, x: str = 'a'", "self, x: str = f'a'", "self, x: bool = True",
    "self, x: float = 1.5", "self, x: bytearray = b'x'", "self, x: int = ...", "self, x: int = 1j", "self, x: List[int] = []", "self, x: int = f()",
    "self, x: int = y", "self, x: int = lambda: 0", "self, größe: int", "self, match: int", "self, result: int", "self, OLD: int", "self, type_name: int",
    "self, text: str", "self, x: int, y: Optional[List[str]] = None", "text: str", "text: str, other: str", "text: Optional[str]", "text: Code", "text: int",
    "text", "text: str = 'a'", "*text", "value: int", "self, " + ", ".join(f"a{i}: int" for i in range(300)),
]

RETURNS = ["None", "int", "bool", "str", "'A'", "A", "Unknown", "Optional[int]", "List[int]", "Set[int]", "List[int, str]", "Optional", "1", "''", "'List[A]'",
           "List[Optional[int, str]]", "f()", "...", "Kind", "Code", "Größe", "self", "None | int", "(None)", "lambda: 0"]

#: elements of ``constant_set(values=[…])`` and literal values of enumerations / constants
LITERALS = ["'a'", "'b'", "''", "1", "0", "-1", "1.5", "True", "False", "None", "b'a'", "b''", "...", "1j", "2 ** 70", "1e400", "-1.5", "f'a'", "f'{x}'", "'a' 'b'",
            "Kind.One", "Kind.Two", "Kind.Three", "Kind.One.value", "Unknown.One", "kind.One", "A.x", "Code.x", "Kind", "x", "Some_text", "f()", "f().a", "[1]", "(1,)",
            "{1}", "-x", "not True", "'one'", "'a\\x00'", "'\\ud800'", "'\\U0001f600'", "'é'", "'a' * 3", "1 + 1", "Kind['One']", "Kind.One if x else Kind.Two"]


# ------------------------------------------------------------------------------------------------ parsing helpers


def _parse_expr(src: str) -> Optional[ast.expr]:
    try:
        return ast.parse(src, mode="eval").body
    except SyntaxError:
        try:  # things like `*x`, `yield`, `await x` only parse in a context
            mod = ast.parse(f"f({src})")
            return mod.body[0].value.args[0]  # type: ignore
        except Exception:
            return None


def _parse_stmts(src: str) -> Optional[List[ast.stmt]]:
    try:
        return ast.parse(src).body
    except SyntaxError:
        return None


def _parse_arguments(src: str) -> Optional[ast.arguments]:
    try:
        return ast.parse(f"def f({src}):\n    pass").body[0].args  # type: ignore
    except SyntaxError:
        return None


def _parse_lambda_arguments(src: str) -> Optional[ast.arguments]:
    try:
        return ast.parse(f"lambda {src}: 0", mode="eval").body.args  # type: ignore
    except SyntaxError:
        return None


def _parse_bases(src: str) -> Optional[Tuple[List[ast.expr], List[ast.keyword]]]:
    try:
        z = ast.parse(f"class Z({src}):\n    pass").body[0]
    except SyntaxError:
        return None
    return z.bases, z.keywords  # type: ignore


def _unparse(tree: ast.AST) -> Optional[str]:
    try:
        ast.fix_missing_locations(tree)
        text = ast.unparse(tree)
        with warnings.catch_warnings():
            warnings.simplefilter("ignore")
            compile(text, "<m>", "exec", flags=ast.PyCF_ONLY_AST)
        return text + "\n"
    except Exception:
        return None


# ------------------------------------------------------------------------------------------------ positional engine


class _Positions(ast.NodeVisitor):
    def __init__(self) -> None:
        self.exprs: List[Tuple[ast.AST, str, Optional[int]]] = []   # (parent, field, index)
        self.bodies: List[Tuple[ast.AST, str]] = []                 # (parent, field) of statement lists
        self.docs: List[ast.Constant] = []
        self.names: List[Tuple[ast.AST, str]] = []                  # (node, attribute holding an identifier)
        self.classes: List[ast.ClassDef] = []

    def generic_visit(self, node: ast.AST) -> None:
        for field, value in ast.iter_fields(node):
            if isinstance(value, list):
                if value and all(isinstance(v, ast.stmt) for v in value):
                    self.bodies.append((node, field))
                for i, v in enumerate(value):
                    if isinstance(v, ast.expr):
                        self.exprs.append((node, field, i))
            elif isinstance(value, ast.expr):
                self.exprs.append((node, field, None))
        if isinstance(node, ast.Constant) and isinstance(node.value, str):
            self.docs.append(node)
        if isinstance(node, ast.ClassDef):
            self.classes.append(node)
            self.names.append((node, "name"))
        if isinstance(node, ast.FunctionDef):
            self.names.append((node, "name"))
        if isinstance(node, ast.arg):
            self.names.append((node, "arg"))
        if isinstance(node, ast.Name):
            self.names.append((node, "id"))
        if isinstance(node, ast.Attribute):
            self.names.append((node, "attr"))
        if isinstance(node, ast.keyword) and node.arg is not None:
            self.names.append((node, "arg"))
        super().generic_visit(node)


def _apply(text: str, kind: str, pos: int, entry: int) -> Optional[str]:
    tree = ast.parse(text)
    P = _Positions()
    P.visit(tree)
    if kind == "expr":
        if not P.exprs:
            return None
        parent, field, idx = P.exprs[pos % len(P.exprs)]
        new = _parse_expr(EXPRS[entry % len(EXPRS)])
        if new is None:
            return None
        if idx is None:
            setattr(parent, field, new)
        else:
            getattr(parent, field)[idx] = new
    elif kind in ("stmt-insert", "stmt-replace"):
        if not P.bodies:
            return None
        parent, field = P.bodies[pos % len(P.bodies)]
        body = getattr(parent, field)
        new = _parse_stmts(STMTS[entry % len(STMTS)])
        if new is None:
            return None
        k = (pos // max(1, len(P.bodies))) % (len(body) + 1)
        if kind == "stmt-insert":
            body[k:k] = new
        else:
            k = k % len(body)
            body[k : k + 1] = new
    elif kind == "doc":
        if not P.docs:
            return None
        P.docs[pos % len(P.docs)].value = DOCS[entry % len(DOCS)]
    elif kind == "name":
        if not P.names:
            return None
        node, attr = P.names[pos % len(P.names)]
        setattr(node, attr, NAMES[entry % len(NAMES)])
    elif kind == "bases":
        if not P.classes:
            return None
        cls = P.classes[pos % len(P.classes)]
        got = _parse_bases(BASES[entry % len(BASES)])
        if got is None:
            return None
        cls.bases, cls.keywords = got
    elif kind == "drop":
        if not P.bodies:
            return None
        parent, field = P.bodies[pos % len(P.bodies)]
        body = getattr(parent, field)
        k = (pos // max(1, len(P.bodies))) % len(body)
        del body[k]
        if not body:
            body.append(ast.Pass())
    elif kind == "dup":
        if not P.bodies:
            return None
        parent, field = P.bodies[pos % len(P.bodies)]
        body = getattr(parent, field)
        k = (pos // max(1, len(P.bodies))) % len(body)
        body.insert(k, body[k])
    elif kind == "swap":
        if not P.bodies:
            return None
        parent, field = P.bodies[pos % len(P.bodies)]
        body = getattr(parent, field)
        if len(body) < 2:
            return None
        k = (pos // max(1, len(P.bodies))) % (len(body) - 1)
        body[k], body[k + 1] = body[k + 1], body[k]
    else:
        raise ValueError(kind)
    return _unparse(tree)


KINDS = [("expr", EXPRS), ("stmt-insert", STMTS), ("stmt-replace", STMTS), ("doc", DOCS), ("name", NAMES), ("bases", BASES), ("drop", [0]),
         ("dup", [0]), ("swap", [0])]
_WEIGHTS = [5, 3, 2, 2, 1, 1, 1, 1, 1]


def counts(text: str) -> dict:
    P = _Positions()
    P.visit(ast.parse(text))
    nb = sum(len(getattr(p, f)) + 1 for p, f in P.bodies)
    return {"expr": len(P.exprs), "stmt-insert": nb, "stmt-replace": nb, "doc": len(P.docs), "name": len(P.names), "bases": len(P.classes), "drop": nb,
            "dup": nb, "swap": nb}


def random_mutant(text: str, rng: Any) -> Optional[Tuple[str, str]]:
    """(description, mutated text) or None."""
    kind, cat = rng.choices(KINDS, weights=_WEIGHTS)[0]
    pos = rng.randrange(10_000)
    entry = rng.randrange(len(cat))
    out = _apply(text, kind, pos, entry)
    if out is None:
        return None
    return f"{kind}@{pos}:{cat[entry] if len(cat) > 1 else ''}", out


def enumerate_mutants(text: str, kinds: Optional[List[str]] = None) -> Iterator[Tuple[str, str]]:
    """Every (position, catalogue entry) pair — seed independent (large: use on small base models)."""
    c = counts(text)
    for kind, cat in KINDS:
        if kinds is not None and kind not in kinds:
            continue
        for pos in range(c[kind]):
            for entry in range(len(cat)):
                out = _apply(text, kind, pos, entry)
                if out is not None:
                    yield f"{kind}@{pos}:{cat[entry] if len(cat) > 1 else ''}", out


# ------------------------------------------------------------------------------------------------ role engine

# A slot is (how, parent, field, index):
#   how = "expr"   : getattr(parent, field)[index] (or the attribute itself if index is None) is an expression to replace
#   how = "exprs"  : getattr(parent, field) is a list of expressions; an entry is INSERTED at index
#   how = "stmts"  : getattr(parent, field) is a statement list; entries are inserted at / replace index
#   how = "doc"    : parent is an ast.Constant holding a docstring
#   how = "name"   : getattr(parent, field) is an identifier (defining occurrence)
#   how = "args"   : parent.args is an ast.arguments of a function; "largs" of a lambda
#   how = "bases"  : parent is a ClassDef
Slot = Tuple[str, ast.AST, str, Optional[int]]

_CONTRACTS = ("require", "ensure", "snapshot")


def _is_doc(stmt: ast.AST) -> bool:
    return isinstance(stmt, ast.Expr) and isinstance(stmt.value, ast.Constant) and isinstance(stmt.value.value, str)


def _call_name(node: ast.AST) -> Optional[str]:
    if isinstance(node, ast.Call) and isinstance(node.func, ast.Name):
        return node.func.id
    return None


def slots(tree: ast.Module) -> Dict[str, List[Slot]]:
    """Classify the positions of a (valid) meta-model by the role they play for the front end."""
    R: Dict[str, List[Slot]] = {}

    def add(role: str, how: str, parent: ast.AST, field: str = "", index: Optional[int] = None) -> None:
        R.setdefault(role, []).append((how, parent, field, index))

    def decorators(node: Any, owner: str) -> None:
        add(f"{owner}-decorator-insert", "exprs", node, "decorator_list", 0)
        add(f"{owner}-decorator-insert", "exprs", node, "decorator_list", len(node.decorator_list))
        for i, d in enumerate(node.decorator_list):
            add(f"{owner}-decorator", "expr", node, "decorator_list", i)
            cn = _call_name(d)
            if cn == "invariant":
                for j, a in enumerate(d.args):  # type: ignore
                    add("invariant-condition" if j == 0 else "invariant-description-expr", "expr", d, "args", j)
                    if j == 0 and isinstance(a, ast.Lambda):
                        add("invariant-body", "expr", a, "body")
                        add("invariant-lambda-args", "largs", a)
                    if j == 1 and isinstance(a, ast.Constant):
                        add("invariant-description", "doc", a)
            elif cn in _CONTRACTS:
                for j, a in enumerate(d.args):  # type: ignore
                    if j == 0:
                        add("contract-condition", "expr", d, "args", j)
                        if isinstance(a, ast.Lambda):
                            add("contract-body", "expr", a, "body")
                            add("contract-lambda-args", "largs", a)
            elif cn == "serialization":
                for kw in d.keywords:  # type: ignore
                    add("serialization-value", "expr", kw, "value")

    def signature(fn: ast.FunctionDef, owner: str) -> None:
        add(f"{owner}-name", "name", fn, "name")
        add(f"{owner}-args", "args", fn)
        for a in fn.args.args:
            if a.annotation is not None:
                add(f"{owner}-argument-annotation", "expr", a, "annotation")
            add(f"{owner}-argument-name", "name", a, "arg")
        for i, _ in enumerate(fn.args.defaults):
            add(f"{owner}-argument-default", "expr", fn.args, "defaults", i)
        add(f"{owner}-returns", "expr", fn, "returns")
        if fn.body and _is_doc(fn.body[0]):
            add(f"{owner}-doc", "doc", fn.body[0].value)  # type: ignore
        decorators(fn, owner)

    def body_exprs(stmts: Sequence[ast.stmt], owner: str) -> None:
        for s in stmts:
            if isinstance(s, ast.Assign):
                add(f"{owner}-assign-value", "expr", s, "value")
                add(f"{owner}-assign-target", "expr", s, "targets", 0)
            elif isinstance(s, ast.Return) and s.value is not None:
                add(f"{owner}-return-value", "expr", s, "value")
                v = s.value
                if isinstance(v, ast.Compare) and isinstance(v.left, ast.Call):
                    add(f"{owner}-match-call", "expr", v, "left")
                    for i, _ in enumerate(v.left.args):
                        add(f"{owner}-match-arg", "expr", v.left, "args", i)
            elif isinstance(s, ast.Expr) and isinstance(s.value, ast.Call):
                add(f"{owner}-call", "expr", s, "value")
                add(f"{owner}-call-func", "expr", s.value, "func")
                for i, _ in enumerate(s.value.args):
                    add(f"{owner}-call-arg", "expr", s.value, "args", i)

    add("module-body", "stmts", tree, "body")
    if tree.body and _is_doc(tree.body[0]):
        add("module-doc", "doc", tree.body[0].value)  # type: ignore
    for node in tree.body:
        if isinstance(node, ast.ClassDef):
            is_enum = any(isinstance(b, ast.Name) and b.id == "Enum" for b in node.bases)
            owner = "enum" if is_enum else "class"
            add(f"{owner}-name", "name", node, "name")
            add(f"{owner}-bases", "bases", node)
            add(f"{owner}-base-insert", "exprs", node, "bases", len(node.bases))
            for i, _ in enumerate(node.bases):
                add(f"{owner}-base", "expr", node, "bases", i)
            add(f"{owner}-body", "stmts", node, "body")
            decorators(node, owner)
            if node.body and _is_doc(node.body[0]):
                add(f"{owner}-doc", "doc", node.body[0].value)  # type: ignore
            for j, stmt in enumerate(node.body):
                prev = node.body[j - 1] if j > 0 else None
                if _is_doc(stmt) and isinstance(prev, (ast.AnnAssign, ast.Assign)):
                    add("literal-doc" if is_enum else "property-doc", "doc", stmt.value)  # type: ignore
                if isinstance(stmt, ast.AnnAssign):
                    add("property-annotation", "expr", stmt, "annotation")
                    add("property-target", "expr", stmt, "target")
                    add("property-value", "expr", stmt, "value")
                    if isinstance(stmt.target, ast.Name):
                        add("property-name", "name", stmt.target, "id")
                elif isinstance(stmt, ast.Assign):
                    add("literal-value", "expr", stmt, "value")
                    add("literal-target", "expr", stmt, "targets", 0)
                    if isinstance(stmt.targets[0], ast.Name):
                        add("literal-name", "name", stmt.targets[0], "id")
                elif isinstance(stmt, ast.FunctionDef):
                    m = "ctor" if stmt.name == "__init__" else "method"
                    signature(stmt, m)
                    add(f"{m}-body", "stmts", stmt, "body")
                    body_exprs(stmt.body, m)
        elif isinstance(node, ast.FunctionDef):
            signature(node, "function")
            add("function-body", "stmts", node, "body")
            body_exprs(node.body, "function")
        elif isinstance(node, ast.AnnAssign):
            add("constant-annotation", "expr", node, "annotation")
            add("constant-target", "expr", node, "target")
            add("constant-value", "expr", node, "value")
            if isinstance(node.target, ast.Name):
                add("constant-name", "name", node.target, "id")
            if isinstance(node.value, ast.Call):
                call = node.value
                add("constant-func", "expr", call, "func")
                for i, _ in enumerate(call.args):
                    add("constant-positional", "expr", call, "args", i)
                for kw in call.keywords:
                    add(f"constant-kw-{kw.arg}", "expr", kw, "value")
                    add("constant-kw-name", "name", kw, "arg")
                    if kw.arg == "description" and isinstance(kw.value, ast.Constant):
                        add("constant-description", "doc", kw.value)
                    if kw.arg in ("values", "superset_of") and isinstance(kw.value, ast.List):
                        role = "set-element" if kw.arg == "values" else "superset-element"
                        add(f"{role}-insert", "exprs", kw.value, "elts", len(kw.value.elts))
                        for i, _ in enumerate(kw.value.elts):
                            add(role, "expr", kw.value, "elts", i)
        elif isinstance(node, ast.Assign):
            add("module-assign-value", "expr", node, "value")
            add("module-assign-target", "expr", node, "targets", 0)
    return R


#: roles whose whole role specific catalogue is enumerated in the quick tier; (role -> stride) for a fixed stride; the others get a rotating
#: stride sample of QUICK_SAMPLE entries there.  The thorough tier enumerates every role completely.
QUICK_FULL_ROLES = {
    "class-decorator", "invariant-body", "property-annotation", "ctor-args", "class-bases", "ctor-body", "function-body", "module-body", "enum-body",
    "method-doc", "set-element", "ctor-call-func",
}
QUICK_STRIDES = {"method-decorator": 2, "class-name": 2, "class-doc": 2, "function-returns": 3, "function-args": 3, "literal-value": 3,
                 "function-decorator": 4, "invariant-lambda-args": 3, "ctor-call-arg": 3, "superset-element": 3, "literal-doc": 4, "constant-description": 4}
QUICK_SAMPLE = 10  # entries per stride-sampled role in the quick tier

#: the slot taken for a role where the first one is not the most telling (the class with bases; the set of enumeration literals)
_PREFERRED_SLOT = {"class-bases": -1, "class-base": -1, "class-base-insert": -1, "class-name": -1}

_CTOR_STMT_PREFIXES = ("self", "A.", "B.", "super", "str.", "int.", "Kind.", "Unknown.", "DBC.", "a.b", "f()", "pass", "...", "'", "f'", "x", "del", "return",
                       "raise", "assert", "if", "for", "while", "with", "try", "yield", "await", "lambda", "1", "None", "global")
_FUNCTION_STMT_PREFIXES = ("return", "pattern", "text", "match", "re ", "self.pattern", "'", "f'", "b'", "x", "1", "None", "pass", "...", "f(", "raise",
                           "assert", "if", "for", "del")
_ENUM_STMT_PREFIXES = ("One", "Two", "Three", "x = ", "x: ", "x += ", "pass", "...", "'", "f'", "1", "def f", "class Z:", "self.x = x", "del", "return 1", "from typing import List")
_MODULE_STMT_PREFIXES = ("class", "@", "def", "X", "__", "from", "import", "Kind", "A:", "Some_text", "matches", "(X)", "async", "type", "match x")


def _relevant_stmts(role: str) -> List[str]:
    """The statements of the catalogue that make sense in the statement list of the role (used in the quick tier only)."""
    prefixes = {"ctor-body": _CTOR_STMT_PREFIXES, "function-body": _FUNCTION_STMT_PREFIXES, "method-body": _FUNCTION_STMT_PREFIXES,
                "module-body": _MODULE_STMT_PREFIXES, "enum-body": _ENUM_STMT_PREFIXES}.get(role)
    if prefixes is None:
        return STMTS
    return [s for s in STMTS if s.startswith(prefixes)]


def _catalogue_for(role: str, how: str, full: bool) -> List[Tuple[str, Callable[[str], Any]]]:
    """(source, parser) pairs to try in a slot of the given role; `full` adds the generic expression catalogues to the role specific one."""
    P = _parse_expr
    if how == "doc":
        return [(d, lambda s: s) for d in DOCS]
    if how == "name":
        return [(n, lambda s: s) for n in NAMES]
    if how == "stmts":
        return [(s, _parse_stmts) for s in (STMTS if full else _relevant_stmts(role))]
    if how == "args":
        return [(a, _parse_arguments) for a in ARGUMENTS]
    if how == "largs":
        return [(a, _parse_lambda_arguments) for a in ARGUMENTS]
    if how == "bases":
        return [(b, _parse_bases) for b in BASES]
    # expressions: a role specific catalogue first, then the generic ones
    if role.endswith("-decorator") or role.endswith("-decorator-insert"):
        return [(e, P) for e in DECORATORS + (CORE_EXPRS if full else [])]
    if role.endswith("-returns"):
        return [(e, P) for e in RETURNS + TYPE_EXPRS + (CORE_EXPRS if full else [])]
    if "annotation" in role:
        return [(e, P) for e in TYPE_EXPRS + (CORE_EXPRS if full else CORE_EXPRS[:24])]
    if role in ("invariant-body", "contract-body", "function-return-value", "method-return-value", "function-match-call", "ctor-assign-value",
                "function-assign-value", "method-assign-value", "invariant-condition", "contract-condition", "function-match-arg"):
        return [(e, P) for e in CORE_EXPRS + RULE_EXPRS + (TYPE_EXPRS if full else [])]
    if role in ("set-element", "set-element-insert", "superset-element", "superset-element-insert", "literal-value", "constant-kw-value",
                "constant-kw-values", "constant-kw-superset_of", "constant-kw-description", "constant-positional", "module-assign-value",
                "invariant-description-expr", "serialization-value") or role.endswith("-argument-default"):
        return [(e, P) for e in LITERALS + (CORE_EXPRS if full else CORE_EXPRS[:24])]
    if role.endswith("-base") or role.endswith("-base-insert"):
        return [(e, P) for e in CORE_EXPRS + TYPE_EXPRS[:16]]
    return [(e, P) for e in CORE_EXPRS + (RULE_EXPRS if full else [])]


def _set(slot: Slot, new: Any, mode: str = "replace") -> bool:
    how, parent, field, index = slot
    if how == "expr":
        if index is None:
            setattr(parent, field, new)
        else:
            getattr(parent, field)[index] = new
    elif how == "exprs":
        getattr(parent, field).insert(index, new)
    elif how == "stmts":
        body = getattr(parent, field)
        k = (index or 0) % (len(body) + 1)
        if mode == "insert":
            body[k:k] = new
        elif mode == "append":
            body.extend(new)
        else:
            k = k % len(body)
            body[k : k + 1] = new
    elif how == "doc":
        parent.value = new  # type: ignore
    elif how == "name":
        setattr(parent, field, new)
    elif how in ("args", "largs"):
        parent.args = new  # type: ignore
    elif how == "bases":
        parent.bases, parent.keywords = new  # type: ignore
    else:
        raise ValueError(how)
    return True


def _rename_everywhere(tree: ast.AST, old: str, new: str) -> None:
    for n in ast.walk(tree):
        for attr in ("id", "attr", "arg", "name"):
            if isinstance(getattr(n, attr, None), str) and getattr(n, attr) == old and not isinstance(n, (ast.alias, ast.Constant)):
                setattr(n, attr, new)


def role_names(text: str) -> List[str]:
    return sorted(slots(ast.parse(text)))


def apply_role(text: str, role: str, which: int, entry: int, mode: str = "replace", full: bool = True) -> Optional[Tuple[str, str]]:
    """Put the `entry`-th catalogue item of the role into its `which`-th slot.  mode: replace / insert / append (statement lists),
    rename-all (names: every occurrence of the old identifier is renamed).  Returns (label, text) or None."""
    tree = ast.parse(text)
    S = slots(tree).get(role)
    if not S:
        return None
    slot = S[which % len(S)]
    if mode == "dup":
        seq = getattr(slot[1], slot[2])
        k = (which // len(S)) % len(seq) if seq else None
        if slot[0] not in ("stmts", "exprs") or k is None:
            return None
        seq.insert(k, seq[k])
        out = _unparse(tree)
        return None if out is None else (f"{role}[{which % len(S)}]/dup@{k}", out)
    cat = _catalogue_for(role, slot[0], full)
    src, parser = cat[entry % len(cat)]
    new = parser(src)
    if new is None:
        return None
    if slot[0] == "stmts":
        slot = (slot[0], slot[1], slot[2], which // len(S))
    if slot[0] == "name" and mode == "rename-all":
        old = getattr(slot[1], slot[2])
        _rename_everywhere(tree, old, new)
    else:
        _set(slot, new, mode)
    out = _unparse(tree)
    if out is None:
        return None
    return f"{role}[{which}]{'/' + mode if mode != 'replace' else ''}:{src[:60]}", out


def role_catalogue_size(text: str, role: str, full: bool = True) -> int:
    S = slots(ast.parse(text)).get(role)
    if not S:
        return 0
    return len(_catalogue_for(role, S[0][0], full))


def _doc_aware_index(body: Sequence[ast.stmt]) -> int:
    return 1 if body and _is_doc(body[0]) and len(body) > 0 else 0


def plan_roles(text: str, tier: str = "quick", roles: Optional[Sequence[str]] = None) -> List[Tuple[str, int, int, str]]:
    """The (role, which, entry, mode) tuples of the seed independent role x catalogue slice.

    quick: first slot of every role; the whole role specific catalogue for QUICK_FULL_ROLES, a rotating stride sample of
    QUICK_SAMPLE entries for the others; statement lists: one insertion right after the docstring (module/class/enum: append).
    thorough: first two slots of every role, whole catalogue incl. the generic expression catalogues; statement lists: insert
    first / insert after the docstring / replace the first statement after the docstring / append; names: alone and everywhere."""
    tree = ast.parse(text)
    S = slots(tree)
    full = tier != "quick"
    plan: List[Tuple[str, int, int, str]] = []
    for r_idx, role in enumerate(sorted(S)):
        if roles is not None and role not in roles:
            continue
        how = S[role][0][0]
        n = len(_catalogue_for(role, how, full))
        nslots = len(S[role])
        first = _PREFERRED_SLOT.get(role, 0) % nslots
        if full or role in QUICK_FULL_ROLES:
            entries = list(range(n))
        else:
            stride = QUICK_STRIDES.get(role, max(1, n // QUICK_SAMPLE))
            entries = list(range(r_idx % stride, n, stride))
        for w in (first,):
            whiches: List[Tuple[int, str]] = []
            # "twice" constructs: every statement of the list / every element of the expression list duplicated in place
            if how == "stmts":
                plan += [(role, w + nslots * k, 0, "dup") for k in range(len(getattr(S[role][w][1], S[role][w][2])))]
            elif how == "exprs":
                plan += [(role, w + nslots * k, 0, "dup") for k in range(len(getattr(S[role][w][1], S[role][w][2])))]
            if how == "stmts":
                body = getattr(S[role][w][1], S[role][w][2])
                k = _doc_aware_index(body)
                if not full:
                    whiches = [(w, "append")] if role in ("module-body", "class-body", "enum-body") else [(w + nslots * k, "insert")]
                else:
                    whiches = [(w + nslots * k, "insert"), (w + nslots * k, "replace"), (w, "append")]
            elif how == "name":
                whiches = [(w, "replace"), (w, "rename-all")] if full else [(w, "rename-all" if r_idx % 2 else "replace")]
            else:
                whiches = [(w, "replace")]
            for which, mode in whiches:
                plan += [(role, which, e, mode) for e in entries]
    return plan


def enumerate_roles(text: str, tier: str = "quick", roles: Optional[Sequence[str]] = None) -> Iterator[Tuple[str, str]]:
    """role x catalogue over the model (seed independent), see `plan_roles`."""
    full = tier != "quick"
    for role, which, entry, mode in plan_roles(text, tier, roles):
        got = apply_role(text, role, which, entry, mode, full)
        if got is not None:
            yield got


def random_role_mutant(text: str, rng: Any) -> Optional[Tuple[str, str]]:
    tree = ast.parse(text)
    S = slots(tree)
    if not S:
        return None
    role = rng.choice(sorted(S))
    how = S[role][0][0]
    which = rng.randrange(len(S[role]) * (4 if how == "stmts" else 1))
    n = len(_catalogue_for(role, how, True))
    mode = "replace"
    if how == "stmts":
        mode = rng.choice(["insert", "replace", "append"])
    elif how == "name":
        mode = rng.choice(["replace", "rename-all"])
    return apply_role(text, role, which, rng.randrange(n), mode, True)
