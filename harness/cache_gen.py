"""
Translator for C23/C24: renders Gen/Cache.lean from the AST of ``run.load_model`` (op skeleton
of the cache protocol with the lexical position of every op) and of ``main.py`` (plumbing of the
``cache_model`` flag).  Never imports the repo; raises ExtractError on any shape it does not know.
"""
from __future__ import annotations

import ast
import pathlib
from typing import Any, Dict, List, Optional, Tuple

from harness import extract
from harness.extract import ExtractError, _class, _func, _parse

FS_ATTRS = {
    "open", "exists", "mkdir", "rename", "replace", "unlink", "write_text", "write_bytes", "read_bytes",
    "read_text", "touch", "rmdir", "is_file", "is_dir", "symlink_to", "hardlink_to", "link_to", "chmod",
    "stat", "lstat", "glob", "rglob", "iterdir", "samefile", "resolve",
}
FS_MODULES = {"os", "shutil", "tempfile", "pickle", "pathlib", "uuid", "hashlib", "marshal", "shelve", "sqlite3", "subprocess"}
# calls that only NAME the caller (process / thread / moment): no file-system effect, no op of the protocol; a temporary
# name built from them instead of uuid.uuid4() is not fresh per run (Gen.tmpNameHasUuid4 = false, `tmp_name_fresh` breaks)
NAMING_CALLS = {
    ("os", "getpid"), ("os", "getppid"), ("os", "getuid"), ("os", "getlogin"), ("threading", "get_ident"), ("threading", "get_native_id"),
    ("time", "time"), ("time", "time_ns"), ("time", "monotonic"), ("time", "monotonic_ns"), ("socket", "gethostname"), ("getpass", "getuser"),
}
COMPUTE_CALLS = [("parse", "source_to_atok"), ("parse", "atok_to_symbol_table"), ("intermediate", "translate")]


def _is_mod_call(node: ast.AST, mod: str, fn: str) -> bool:
    return (
        isinstance(node, ast.Call)
        and isinstance(node.func, ast.Attribute)
        and node.func.attr == fn
        and isinstance(node.func.value, ast.Name)
        and node.func.value.id == mod
    )


def _kw(call: ast.Call, name: str) -> Optional[ast.AST]:
    for k in call.keywords:
        if k.arg == name:
            return k.value
    return None


def _const_bool(node: Optional[ast.AST]) -> Optional[bool]:
    if isinstance(node, ast.Constant) and isinstance(node.value, bool):
        return node.value
    return None


class Skeleton:
    def __init__(self, fn: ast.FunctionDef) -> None:
        self.fn = fn
        self.ops: List[Tuple[str, bool, bool, bool, bool]] = []
        self.env: Dict[str, str] = {}
        self.flag_name = "cache_model"
        params = [a.arg for a in fn.args.args]
        if "model_path" not in params or "cache_model" not in params:
            raise ExtractError(f"load_model parameters are {params}")
        self.env["model_path"] = "model_path"
        self.key_is_hash_of_text = False
        self.tmp_has_uuid4 = False
        self.dir_has_version = False
        self.dump_recursion_guarded = False
        self.compute_seen: List[Tuple[str, str]] = []
        self.compute_state = 0  # 0 not started, 1 inside, 2 over
        self.in_try = False

    # ---- emit
    def emit(self, op: str, fl: Tuple[bool, bool, bool, bool]) -> None:
        self.ops.append((op, *fl))

    def pathe(self, node: ast.AST, what: str) -> str:
        if isinstance(node, ast.Name) and self.env.get(node.id) in ("final", "tmp"):
            return "." + self.env[node.id]
        raise ExtractError(f"{what}: receiver {ast.unparse(node)} is not a known cache path (line {getattr(node, 'lineno', '?')})")

    # ---- expressions: emit ops of recognised calls in evaluation order, return the kind of the value
    def scan(self, node: ast.AST, fl: Tuple[bool, bool, bool, bool]) -> Optional[str]:
        if isinstance(node, ast.Call):
            f = node.func
            # hashlib.sha256(text.encode()).hexdigest()
            if isinstance(f, ast.Attribute) and f.attr == "hexdigest" and _is_mod_call(f.value, "hashlib", "sha256"):
                inner = f.value
                assert isinstance(inner, ast.Call)
                of_text = (
                    len(inner.args) == 1
                    and isinstance(inner.args[0], ast.Call)
                    and isinstance(inner.args[0].func, ast.Attribute)
                    and inner.args[0].func.attr == "encode"
                    and isinstance(inner.args[0].func.value, ast.Name)
                    and self.env.get(inner.args[0].func.value.id) == "text"
                )
                self.emit(".hashText", fl)
                return "hash" if of_text else "hash-of-other"
            if isinstance(f, ast.Attribute) and isinstance(f.value, ast.Name) and f.value.id == "hashlib":
                raise ExtractError(f"unknown hashing call {ast.unparse(node)}")
            if _is_mod_call(node, "tempfile", "gettempdir"):
                self.emit(".tempDir", fl)
                return "tempdir"
            if _is_mod_call(node, "uuid", "uuid4"):
                self.emit(".freshUid", fl)
                return "uuid4"
            if isinstance(f, ast.Attribute) and isinstance(f.value, ast.Name) and (f.value.id, f.attr) in NAMING_CALLS and not node.args and not node.keywords:
                return "naming"
            if _is_mod_call(node, "pickle", "load"):
                if not (len(node.args) == 1 and isinstance(node.args[0], ast.Name) and self.env.get(node.args[0].id) == "fid_r"):
                    raise ExtractError(f"pickle.load from an unknown handle: {ast.unparse(node)}")
                self.emit(".load", fl)
                return "cached"
            if _is_mod_call(node, "pickle", "dump"):
                if not (len(node.args) == 2 and isinstance(node.args[1], ast.Name) and self.env.get(node.args[1].id) == "fid_w"):
                    raise ExtractError(f"pickle.dump to an unknown handle: {ast.unparse(node)}")
                for a in node.args[:1]:
                    self.scan(a, fl)
                self.emit(".dump", fl)
                return None
            if isinstance(f, ast.Attribute):
                recv = f.value
                if f.attr == "read_text" and isinstance(recv, ast.Name) and self.env.get(recv.id) == "model_path":
                    self.emit(".readText", fl)
                    return "text"
                if f.attr == "exists":
                    self.emit(f".exists {self.pathe(recv, 'exists')}", fl)
                    return "bool"
                if f.attr == "mkdir":
                    if not (isinstance(recv, ast.Attribute) and recv.attr == "parent" and self.pathe(recv.value, "mkdir") == ".final"):
                        raise ExtractError(f"mkdir on something else than cache_path.parent: {ast.unparse(node)}")
                    eok = _const_bool(_kw(node, "exist_ok")) is True
                    self.emit(f".mkdir {'true' if eok else 'false'}", fl)
                    return None
                if f.attr in ("rename", "replace"):
                    tgts = list(node.args) + [k.value for k in node.keywords if k.arg == "target"]
                    if len(tgts) != 1 or len(node.keywords) + len(node.args) != 1:
                        raise ExtractError(f"rename of an unknown shape: {ast.unparse(node)}")
                    self.emit(f".rename {self.pathe(recv, 'rename')} {self.pathe(tgts[0], 'rename target')}", fl)
                    return None
                if f.attr == "unlink":
                    mok = _const_bool(_kw(node, "missing_ok")) is True
                    self.emit(f".unlink {self.pathe(recv, 'unlink')} {'true' if mok else 'false'}", fl)
                    return None
                if f.attr in ("with_suffix", "with_name") and isinstance(recv, ast.Name) and self.env.get(recv.id) == "final":
                    # the temporary path: a sibling of the final path whose name ends in ".tmp"
                    if len(node.args) != 1 or node.keywords:
                        raise ExtractError(f"temporary name of an unknown shape: {ast.unparse(node)}")
                    kinds = [self.scan(a, fl) for a in node.args]
                    arg = node.args[0] if node.args else None
                    ends_tmp = (
                        isinstance(arg, ast.JoinedStr)
                        and len(arg.values) > 0
                        and isinstance(arg.values[-1], ast.Constant)
                        and str(arg.values[-1].value).endswith(".tmp")
                    ) or (isinstance(arg, ast.Constant) and str(arg.value).endswith(".tmp"))
                    if not ends_tmp:
                        raise ExtractError(f"temporary name does not end in .tmp: {ast.unparse(node)}")
                    self.tmp_has_uuid4 = kinds == ["fstr-uuid4"]
                    return "tmp"
                if f.attr in FS_ATTRS:
                    raise ExtractError(f"unknown file-system call {ast.unparse(node)} at line {node.lineno}")
            if isinstance(f, ast.Attribute) and isinstance(f.value, ast.Name) and f.value.id in FS_MODULES and not (
                f.value.id == "pathlib" and f.attr == "Path"
            ):
                raise ExtractError(f"unknown call into {f.value.id}: {ast.unparse(node)} at line {node.lineno}")
            kinds = [self.scan(a, fl) for a in node.args] + [self.scan(k.value, fl) for k in node.keywords]
            if isinstance(f, ast.Attribute) and isinstance(f.value, ast.Name) and f.value.id == "pathlib" and f.attr == "Path":
                return "tempdir-path" if kinds == ["tempdir"] else None
            self.scan(f, fl)
            return None
        if isinstance(node, ast.JoinedStr):
            kinds = []
            for v in node.values:
                if isinstance(v, ast.FormattedValue):
                    kinds.append(self.scan(v.value, fl) or ("version" if ast.unparse(v.value).endswith("__version__") else "?"))
                else:
                    kinds.append("lit:" + str(v.value))  # type: ignore
            if "uuid4" in kinds:
                return "fstr-uuid4"
            if "hash" in kinds and kinds[0] == "lit:model-" and kinds[-1] == "lit:.pickle" and len(kinds) == 3:
                return "fstr-key"
            if "version" in kinds:
                return "fstr-version"
            return "fstr"
        if isinstance(node, ast.BinOp) and isinstance(node.op, ast.Div):
            left = self.scan(node.left, fl)
            right = self.scan(node.right, fl)
            if left == "tempdir-path" and right in ("fstr-version", "fstr", None):
                self.dir_has_version = right == "fstr-version"
                return "cachedir"
            if left == "cachedir" and right is not None and right.startswith("fstr"):
                self.key_is_hash_of_text = right == "fstr-key"
                return "final"
            return None
        if isinstance(node, ast.Name):
            return self.env.get(node.id)
        last = None
        for child in ast.iter_child_nodes(node):
            if isinstance(child, (ast.expr, ast.keyword)):
                last = self.scan(child, fl)
        return None

    def has_fs_call(self, node: ast.AST) -> Optional[str]:
        for n in ast.walk(node):
            if isinstance(n, ast.Call) and isinstance(n.func, ast.Attribute):
                if n.func.attr in FS_ATTRS:
                    return ast.unparse(n)
                if isinstance(n.func.value, ast.Name) and n.func.value.id in FS_MODULES:
                    return ast.unparse(n)
            if isinstance(n, ast.Call) and isinstance(n.func, ast.Name) and n.func.id == "open":
                return ast.unparse(n)
        return None

    # ---- statements
    def block(self, stmts: List[ast.stmt], fl: Tuple[bool, bool, bool, bool], top: bool = False) -> None:
        for k, st in enumerate(stmts):
            self.stmt(st, fl, top, last=(k == len(stmts) - 1))

    def stmt(self, st: ast.stmt, fl: Tuple[bool, bool, bool, bool], top: bool, last: bool) -> None:
        guarded, on_hit, in_try, in_fin = fl
        if isinstance(st, ast.Expr) and isinstance(st.value, ast.Constant) and isinstance(st.value.value, str):
            return  # docstring
        if isinstance(st, ast.If) and isinstance(st.test, ast.Name) and st.test.id == self.flag_name:
            if st.orelse:
                raise ExtractError("`if cache_model:` has an else branch")
            if top and self.compute_state == 1:
                self.compute_state = 2
            self.block(st.body, (True, on_hit, in_try, in_fin))
            return
        if top and isinstance(st, ast.Return) and last:
            self.emit(".ret", fl)
            return
        if (
            top
            and not guarded
            and isinstance(st, ast.Try)
            and not st.finalbody
            and not st.orelse
            and len(st.body) == 1
            and isinstance(st.body[0], ast.Assign)
            and isinstance(st.body[0].value, ast.Call)
            and isinstance(st.body[0].value.func, ast.Attribute)
            and st.body[0].value.func.attr == "read_text"
            and all(
                self.has_fs_call(ast.Module(body=h.body, type_ignores=[])) is None
                and h.body
                and isinstance(h.body[-1], ast.Return)
                and isinstance(h.body[-1].value, ast.Tuple)
                and isinstance(h.body[-1].value.elts[0], ast.Constant)
                and h.body[-1].value.elts[0].value is None
                for h in st.handlers
            )
        ):
            # `try: text = model_path.read_text(...) except UnicodeDecodeError: return None, <report>`:
            # the read itself is the modelled op; a failed read returns an error without touching the cache
            # (the model's `compute` of an unreadable text is an error result as well).
            self.stmt(st.body[0], fl, top, last=False)
            return
        if top and isinstance(st, (ast.Assign, ast.AnnAssign)) and isinstance(st.value, ast.Constant):
            return
        if top and not guarded:
            is_read = (
                isinstance(st, ast.Assign)
                and isinstance(st.value, ast.Call)
                and isinstance(st.value.func, ast.Attribute)
                and st.value.func.attr == "read_text"
            )
            calls = [c for c in COMPUTE_CALLS if any(_is_mod_call(n, *c) for n in ast.walk(st))]
            is_compute = not is_read and self.has_fs_call(st) is None and not (
                isinstance(st, (ast.Assign, ast.AnnAssign)) and self.compute_state == 0 and not calls
            )
            if is_compute:
                if self.compute_state == 2:
                    raise ExtractError(f"second compute region at line {st.lineno}")
                if self.compute_state == 0:
                    if not calls:
                        # a pure statement before the compute region (e.g. an assert); nothing to model
                        if isinstance(st, ast.Assert):
                            return
                        raise ExtractError(f"unexpected statement before the compute region at line {st.lineno}: {ast.unparse(st)[:60]}")
                    self.compute_state = 1
                    self.emit(".compute", fl)
                self.compute_seen += calls
                return
        # statements of the cache protocol
        if isinstance(st, (ast.Assign, ast.AnnAssign)):
            targets = st.targets if isinstance(st, ast.Assign) else [st.target]
            if st.value is None:
                return
            kind = self.scan(st.value, fl)
            if len(targets) == 1 and isinstance(targets[0], ast.Name):
                if kind in ("text", "hash", "final", "tmp", "cached", "cachedir"):
                    self.env[targets[0].id] = kind
                elif kind == "hash-of-other":
                    self.env[targets[0].id] = "hash-of-other"
                else:
                    self.env.pop(targets[0].id, None)
            return
        if isinstance(st, ast.Assert):
            if self.has_fs_call(st.test):
                raise ExtractError(f"file-system call inside an assert at line {st.lineno}")
            return
        if isinstance(st, ast.Expr):
            self.scan(st.value, fl)
            return
        if isinstance(st, ast.If):
            t = st.test
            if isinstance(t, ast.Call) and isinstance(t.func, ast.Attribute) and t.func.attr == "exists":
                if st.orelse:
                    raise ExtractError("`if cache_path.exists():` has an else branch")
                if on_hit:
                    raise ExtractError("nested exists tests")
                self.scan(t, fl)
                self.block(st.body, (guarded, True, in_try, in_fin))
                return
            raise ExtractError(f"unknown condition in the cache protocol at line {st.lineno}: {ast.unparse(t)}")
        if isinstance(st, ast.With):
            if len(st.items) != 1:
                raise ExtractError("with statement with several items")
            it = st.items[0]
            ce = it.context_expr
            if not (
                isinstance(ce, ast.Call)
                and isinstance(ce.func, ast.Attribute)
                and ce.func.attr == "open"
                and len(ce.args) == 1
                and isinstance(ce.args[0], ast.Constant)
                and ce.args[0].value in ("rb", "wb")
                and isinstance(it.optional_vars, ast.Name)
            ):
                raise ExtractError(f"unknown with statement at line {st.lineno}: {ast.unparse(ce)}")
            pe = self.pathe(ce.func.value, "open")
            mode = ce.args[0].value
            if mode == "rb":
                self.emit(f".openR {pe}", fl)
                self.env[it.optional_vars.id] = "fid_r"
                self.block(st.body, fl)
            else:
                self.emit(f".openW {pe}", fl)
                self.env[it.optional_vars.id] = "fid_w"
                self.block(st.body, fl)
                self.emit(".closeW", fl)
            self.env.pop(it.optional_vars.id, None)
            return
        if isinstance(st, ast.Return):
            if in_try or in_fin:
                raise ExtractError("return inside try/finally of the cache protocol")
            src = ast.unparse(st.value) if st.value is not None else ""
            cached_vars = [k for k, v in self.env.items() if v == "cached"]
            if on_hit and any(f"{c}.symbol_table" in src for c in cached_vars):
                self.emit(".retCached", fl)
                return
            raise ExtractError(f"unknown return in the cache protocol at line {st.lineno}: {src}")
        if isinstance(st, ast.Try):
            if st.orelse or in_try or in_fin or self.in_try:
                raise ExtractError(f"try statement of an unknown shape at line {st.lineno}")
            for h in st.handlers:
                # The only handler understood: `except RecursionError: pass` — pickling a model that is nested too deeply
                # for the pickler is given up, the `finally` part runs and the run returns what it computed (no caching).
                # `dump` of the Lean model does not raise (models too deep to pickle are outside the model; the oracle
                # stream `deep-models-separate-processes` decides them), and nothing else in the try raises a
                # RecursionError (OSError and the injected faults of the rig pass through), so the handler adds no edge
                # to the model.  It is recorded as Gen.dumpRecursionGuarded.
                ok = (
                    isinstance(h.type, ast.Name)
                    and h.type.id == "RecursionError"
                    and h.name is None
                    and all(isinstance(b, ast.Pass) or (isinstance(b, ast.Expr) and isinstance(b.value, ast.Constant)) for b in h.body)
                    and any(_is_mod_call(n, "pickle", "dump") for b in st.body for n in ast.walk(b))
                )
                if not ok:
                    raise ExtractError(f"exception handler of an unknown shape in the cache protocol at line {h.lineno}: {ast.unparse(h)[:80]}")
                self.dump_recursion_guarded = True
            self.in_try = True
            self.block(st.body, (guarded, on_hit, True, False))
            self.block(st.finalbody, (guarded, on_hit, False, True))
            return
        raise ExtractError(f"unknown statement in the cache protocol at line {st.lineno}: {type(st).__name__}")


def _flag_expr(node: Optional[ast.AST]) -> str:
    if node is None:
        return '.other "absent"'
    if isinstance(node, ast.Name):
        return f'.name "{node.id}"'
    if isinstance(node, ast.Constant) and isinstance(node.value, bool):
        return f".const {'true' if node.value else 'false'}"
    if isinstance(node, ast.Attribute) and isinstance(node.value, ast.Name):
        return f'.attr "{node.value.id}" "{node.attr}"'
    if isinstance(node, ast.Call) and isinstance(node.func, ast.Name) and node.func.id == "bool" and len(node.args) == 1 and not node.keywords:
        return f".boolOf ({_flag_expr(node.args[0])})"
    src = ast.unparse(node).replace("\\", "\\\\").replace('"', '\\"').replace("\n", " ")
    return f'.other "{src}"'


def _default_of(fn: ast.FunctionDef, name: str) -> str:
    names = [a.arg for a in fn.args.args]
    if name not in names:
        raise ExtractError(f"{fn.name} has no parameter {name}")
    idx = names.index(name) - (len(names) - len(fn.args.defaults))
    if idx < 0:
        return "none"
    b = _const_bool(fn.args.defaults[idx])
    return "none" if b is None else f"some {'true' if b else 'false'}"


def flag_table(repo: pathlib.Path) -> Dict[str, str]:
    mod = _parse(repo, "aas_core_codegen/main.py")
    init = _func(_class(mod, "Parameters"), "__init__")
    rhs = None
    for n in ast.walk(init):
        if isinstance(n, ast.Assign) and len(n.targets) == 1:
            t = n.targets[0]
            if isinstance(t, ast.Attribute) and t.attr == "cache_model" and isinstance(t.value, ast.Name) and t.value.id == "self":
                if rhs is not None:
                    raise ExtractError("self.cache_model assigned twice")
                rhs = n.value
    if rhs is None:
        raise ExtractError("Parameters.__init__ does not assign self.cache_model")
    execute = _func(mod, "execute")
    calls = [n for n in ast.walk(execute) if isinstance(n, ast.Call) and isinstance(n.func, ast.Attribute) and n.func.attr == "load_model"]
    if len(calls) != 1:
        raise ExtractError(f"main.execute calls load_model {len(calls)} times")
    exec_arg = _kw(calls[0], "cache_model")
    main_fn = _func(mod, "main")
    pcalls = [n for n in ast.walk(main_fn) if isinstance(n, ast.Call) and isinstance(n.func, ast.Name) and n.func.id == "Parameters"]
    if len(pcalls) != 1:
        raise ExtractError(f"main.main constructs Parameters {len(pcalls)} times")
    main_arg = _kw(pcalls[0], "cache_model")
    action = None
    for n in ast.walk(main_fn):
        if (
            isinstance(n, ast.Call)
            and isinstance(n.func, ast.Attribute)
            and n.func.attr == "add_argument"
            and n.args
            and isinstance(n.args[0], ast.Constant)
            and n.args[0].value == "--cache_model"
        ):
            a = _kw(n, "action")
            action = a.value if isinstance(a, ast.Constant) else "?"
    if action is None:
        raise ExtractError("main.main has no --cache_model argument")
    run_mod = _parse(repo, "aas_core_codegen/run.py")
    return {
        "argparseAction": '"' + str(action) + '"',
        "mainPasses": _flag_expr(main_arg),
        "paramsRhs": _flag_expr(rhs),
        "paramsDefault": _default_of(init, "cache_model"),
        "executePasses": _flag_expr(exec_arg),
        "loadModelDefault": _default_of(_func(run_mod, "load_model"), "cache_model"),
    }


def _fs_helper(mod: ast.Module, call: ast.AST) -> Optional[ast.FunctionDef]:
    """The module-level function which ``call`` invokes by name, if it (or a module-level function it calls, transitively)
    touches the file system / hashing / naming modules of the cache protocol."""
    if not (isinstance(call, ast.Call) and isinstance(call.func, ast.Name)):
        return None
    fns = [n for n in mod.body if isinstance(n, ast.FunctionDef) and n.name == call.func.id]
    if len(fns) != 1:
        return None
    probe = Skeleton.has_fs_call
    for g in extract._reachable_functions(mod, fns[0]):
        if probe(None, ast.Module(body=g.body, type_ignores=[])) is not None:  # type: ignore[arg-type]
            return fns[0]
    return None


def _returns_in(stmts: List[ast.stmt]) -> List[ast.Return]:
    return [n for st in stmts for n in ast.walk(st) if isinstance(n, ast.Return)]


def _is_none(e: Optional[ast.AST]) -> bool:
    return e is None or (isinstance(e, ast.Constant) and e.value is None)


def _assign(name: str, value: ast.expr, like: ast.AST) -> ast.stmt:
    return ast.copy_location(ast.Assign(targets=[ast.Name(id=name, ctx=ast.Store())], value=value, lineno=getattr(like, "lineno", 0)), like)


def _continue_at_result(stmts: List[ast.stmt], target: str, cont: List[ast.stmt], what: str) -> List[ast.stmt]:
    """``stmts`` end — possibly inside ``with`` blocks — in ``return <name>`` of a value asserted to be an instance of a
    class: that return becomes ``target = <name>`` followed by ``cont``."""
    if not stmts:
        raise ExtractError(f"{what}: no result is returned at the end")
    last = stmts[-1]
    if isinstance(last, ast.With):
        import copy

        w = copy.copy(last)
        w.body = _continue_at_result(last.body, target, cont, what)
        return stmts[:-1] + [w]
    if isinstance(last, ast.Return) and isinstance(last.value, ast.Name):
        v = last.value.id
        asserted = any(
            isinstance(st, ast.Assert) and ast.unparse(st.test).startswith(f"isinstance({v}, ") for st in stmts[:-1]
        )
        if not asserted:
            raise ExtractError(f"{what}: the returned {v} is not asserted to be an instance (it could be None)")
        return stmts[:-1] + [_assign(target, last.value, last)] + cont
    raise ExtractError(f"{what}: does not end in `return <name>`")


def _inline_fs_helpers(mod: ast.Module, stmts: List[ast.stmt], depth: int = 0) -> List[ast.stmt]:
    """``stmts`` with every call of a module-level helper that takes part in the cache protocol read in place (parameters
    bound to the arguments), so that the protocol is seen whether it is written in ``load_model`` or in private helpers:

    * ``helper(…)`` as a statement: the body of the helper (it returns nothing);
    * ``x = helper(…)`` where the helper is straight-line code ending in its only ``return <e>``: the body, then ``x = <e>``;
    * ``x = helper(…)`` followed by ``if x is not None: <S>`` where the helper is ``if not <C>: return None`` followed by code
      ending in ``return <instance>``: ``if <C>: <that code>; x = <instance>; <S>``.

    A helper call of any other shape is an ExtractError (never skipped)."""
    import copy

    out: List[ast.stmt] = []
    i = 0
    while i < len(stmts):
        st = stmts[i]
        nxt = stmts[i + 1] if i + 1 < len(stmts) else None
        call: Optional[ast.AST] = None
        target: Optional[str] = None
        if isinstance(st, ast.Expr):
            call = st.value
        elif isinstance(st, ast.Assign) and len(st.targets) == 1 and isinstance(st.targets[0], ast.Name):
            call, target = st.value, st.targets[0].id
        elif isinstance(st, ast.AnnAssign) and isinstance(st.target, ast.Name) and st.value is not None:
            call, target = st.value, st.target.id
        g = _fs_helper(mod, call) if call is not None else None
        if g is None:
            st = copy.copy(st)
            for fld in ("body", "orelse", "finalbody"):
                sub = getattr(st, fld, None)
                if isinstance(sub, list) and sub and isinstance(sub[0], ast.stmt):
                    setattr(st, fld, _inline_fs_helpers(mod, sub, depth))
            if isinstance(st, ast.Try):
                st.handlers = [copy.copy(h) for h in st.handlers]
                for h in st.handlers:
                    h.body = _inline_fs_helpers(mod, h.body, depth)
            out.append(st)
            i += 1
            continue
        what = f"helper {g.name} of the cache protocol (called at line {st.lineno})"
        if depth > 4:
            raise ExtractError(f"{what}: helpers nested too deeply")
        body = extract.helper_body_at_call(mod, call)  # type: ignore[arg-type]
        if body is None:
            raise ExtractError(f"{what}: the arguments do not bind to the parameters one-to-one")
        body = _inline_fs_helpers(mod, body, depth + 1)
        rets = _returns_in(body)
        if target is None:
            if any(not _is_none(r.value) for r in rets) or any(r is not body[-1] for r in rets):
                raise ExtractError(f"{what}: called as a statement, but returns early or returns a value")
            out += [b for b in body if not isinstance(b, ast.Return)]
            i += 1
            continue
        first = body[0] if body else None
        if (
            isinstance(nxt, ast.If)
            and not nxt.orelse
            and ast.unparse(nxt.test) == f"{target} is not None"
            and isinstance(first, ast.If)
            and not first.orelse
            and isinstance(first.test, ast.UnaryOp)
            and isinstance(first.test.op, ast.Not)
            and len(first.body) == 1
            and isinstance(first.body[0], ast.Return)
            and _is_none(first.body[0].value)
            and len(rets) == 2
        ):
            cont = _inline_fs_helpers(mod, nxt.body, depth)
            guarded = ast.If(test=first.test.operand, body=_continue_at_result(body[1:], target, cont, what), orelse=[])
            out.append(ast.copy_location(guarded, first))
            i += 2
            continue
        if body and isinstance(body[-1], ast.Return) and not _is_none(body[-1].value) and len(rets) == 1:
            out += body[:-1] + [_assign(target, body[-1].value, st)]  # type: ignore[arg-type]
            i += 1
            continue
        raise ExtractError(f"{what}: the way its result is computed and used is not modelled")
    return out


def skeleton(repo: pathlib.Path) -> Skeleton:
    import copy

    mod = _parse(repo, "aas_core_codegen/run.py")
    fn = copy.copy(_func(mod, "load_model"))
    fn.body = [ast.fix_missing_locations(st) for st in _inline_fs_helpers(mod, fn.body)]
    sk = Skeleton(fn)
    sk.block(fn.body, (False, False, False, False), top=True)
    missing = [c for c in COMPUTE_CALLS if c not in sk.compute_seen]
    if missing:
        raise ExtractError(f"compute region of load_model lacks {missing}")
    if not sk.ops or sk.ops[-1][0] != ".ret":
        raise ExtractError("load_model does not end with the return of the computed symbol table")
    return sk


def _source_attr(call: ast.Call, fn: ast.FunctionDef) -> str:
    """The attribute of ``self`` a ``_compute_*`` call is fed with: ``self.<a>`` directly, or a local/parameter that the
    same function stores as ``self.<a> = <name>``; anything else is kept as its source text (and will match nothing)."""
    if len(call.args) != 1 or call.keywords:
        return "?" + ast.unparse(call)[:60]
    arg = call.args[0]
    if isinstance(arg, ast.Attribute) and isinstance(arg.value, ast.Name) and arg.value.id == "self":
        return arg.attr
    if isinstance(arg, ast.Name):
        stored = sorted(
            {
                t.attr
                for n in ast.walk(fn)
                if isinstance(n, ast.Assign) and isinstance(n.value, ast.Name) and n.value.id == arg.id
                for t in n.targets
                if isinstance(t, ast.Attribute) and isinstance(t.value, ast.Name) and t.value.id == "self"
            }
        )
        if len(stored) == 1:
            return stored[0]
    return "?" + ast.unparse(arg)[:60]


def pickle_hooks(repo: pathlib.Path) -> List[Dict[str, Any]]:
    """Shape of __getstate__/__setstate__ of every class of intermediate/_types.py that defines them.
    A recomputation is named ``<_compute_fn><-<source attribute>``: the same function fed with another list (e.g. the
    concrete descendants instead of the descendants) is a different recomputation."""
    mod = _parse(repo, "aas_core_codegen/intermediate/_types.py")
    hooks = []
    for cls in mod.body:
        if not isinstance(cls, ast.ClassDef):
            continue
        fns = {n.name: n for n in cls.body if isinstance(n, ast.FunctionDef)}
        if "__getstate__" not in fns and "__setstate__" not in fns:
            continue
        if "__getstate__" not in fns or "__setstate__" not in fns:
            raise ExtractError(f"class {cls.name} defines only one of __getstate__/__setstate__")
        popped = []
        for n in ast.walk(fns["__getstate__"]):
            if isinstance(n, ast.Call) and isinstance(n.func, ast.Attribute) and n.func.attr == "pop":
                if not (n.args and isinstance(n.args[0], ast.Constant) and isinstance(n.args[0].value, str)):
                    raise ExtractError(f"{cls.name}.__getstate__: pop of a non-literal key")
                popped.append((n.lineno, n.args[0].value))
        popped = [x for _, x in sorted(popped)]
        recomputed = []
        for n in ast.walk(fns["__setstate__"]):
            if isinstance(n, ast.Call) and isinstance(n.func, ast.Name) and n.func.id == "setattr":
                if not (len(n.args) == 3 and isinstance(n.args[1], ast.Constant) and isinstance(n.args[2], ast.Call) and isinstance(n.args[2].func, ast.Attribute)):
                    raise ExtractError(f"{cls.name}.__setstate__: setattr of an unknown shape at line {n.lineno}")
                recomputed.append((n.lineno, (n.args[1].value, n.args[2].func.attr + "<-" + _source_attr(n.args[2], fns["__setstate__"]))))
        recomputed = [x for _, x in sorted(recomputed)]
        assigned, idsets = [], []
        for name, fn in fns.items():
            if name in ("__getstate__", "__setstate__"):
                continue
            for n in ast.walk(fn):
                if isinstance(n, ast.Assign) and len(n.targets) == 1:
                    t = n.targets[0]
                    if isinstance(t, ast.Attribute) and isinstance(t.value, ast.Name) and t.value.id == "self":
                        if t.attr.endswith("_id_set") and t.attr not in idsets:
                            idsets.append(t.attr)
                        v = n.value
                        if isinstance(v, ast.Call) and isinstance(v.func, ast.Attribute) and v.func.attr.startswith("_compute_"):
                            pair = (t.attr, v.func.attr + "<-" + _source_attr(v, fn))
                            if pair not in assigned:
                                assigned.append(pair)
        hooks.append({"cls": cls.name, "popped": popped, "recomputed": recomputed, "assigned": assigned, "idSetFields": idsets})
    if not hooks:
        raise ExtractError("no class of intermediate/_types.py defines __getstate__")
    return hooks


def gen_Cache(repo: pathlib.Path) -> str:
    from harness.extract import lean_text

    sk = skeleton(repo)
    ft = flag_table(repo)
    hooks = pickle_hooks(repo)
    b = lambda x: "true" if x else "false"  # noqa: E731
    lines = [
        "import AasVerif.Model.Cache",
        "import AasVerif.Model.CacheFlag",
        "import AasVerif.Model.CachePickle",
        "/-! GENERATED by harness/cache_gen.py from aas_core_codegen/run.py and aas_core_codegen/main.py — do not edit. -/",
        "namespace AasVerif.Gen.Cache",
        "open AasVerif.Cache",
        "",
        "/-- op skeleton of run.load_model: ⟨op, under `if cache_model`, under `if cache_path.exists()`, in try, in finally⟩ -/",
        "def loadModelOps : List GOp := [",
    ]
    lines.append(",\n".join(f"  ⟨{op}, {b(g)}, {b(h)}, {b(t)}, {b(f)}⟩" for op, g, h, t, f in sk.ops))
    lines += [
        "]",
        "",
        "def flag : AasVerif.CacheFlag.Table := {",
        ",\n".join(f"  {k} := {v}" for k, v in ft.items()) + " }",
        "",
        "/-- the final entry is named model-<sha256 of the text read from model_path>.pickle -/",
        f"def keyIsHashOfModelText : Bool := {b(sk.key_is_hash_of_text)}",
        "/-- the temporary name is the final name with a uuid4 in the suffix -/",
        f"def tmpNameHasUuid4 : Bool := {b(sk.tmp_has_uuid4)}",
        "/-- the cache directory name contains the package version -/",
        f"def dirHasVersion : Bool := {b(sk.dir_has_version)}",
        "/-- a RecursionError of pickle.dump (model nested too deeply for the pickler) is caught: the run gives up caching, not its result -/",
        f"def dumpRecursionGuarded : Bool := {b(sk.dump_recursion_guarded)}",
    ]
    pair = lambda a: f"({lean_text(a[0])}, {lean_text(a[1])})"  # noqa: E731
    lines += ["", "/-- __getstate__/__setstate__ of intermediate/_types.py (names as code points) -/", "def pickleHooks : List AasVerif.CachePickle.PickleHook := ["]
    lines.append(
        ",\n".join(
            f"  -- {h['cls']}: popped {h['popped']}\n"
            f"  ⟨{lean_text(h['cls'])},\n   [{', '.join(lean_text(x) for x in h['popped'])}],\n   [{', '.join(pair(x) for x in h['recomputed'])}],\n"
            f"   [{', '.join(pair(x) for x in h['assigned'])}],\n   [{', '.join(lean_text(x) for x in h['idSetFields'])}]⟩"
            for h in hooks
        )
    )
    lines += ["]", "end AasVerif.Gen.Cache", ""]
    return "\n".join(lines)


if __name__ == "__main__":
    import sys

    print(gen_Cache(pathlib.Path(sys.argv[1])))
