"""Python twin of lean/AasVerif/Model/Expr/Wire.lean: ``harness.mm`` expressions <-> comma-separated prefix tokens.

``enc(expr)`` takes the expression dataclasses of ``harness.mm_model``; the project's own tree nodes
(``aas_core_codegen.parse.tree``) are converted first with ``mm.expr_from_project_tree(node)``.
"""
from __future__ import annotations

from typing import Any, List

from harness.core import dec_text, enc_text
from harness import mm_model as M

_CMP = {"<": "lt", "<=": "le", ">": "gt", ">=": "ge", "==": "eq", "!=": "ne"}
_CMP_INV = {v: k for k, v in _CMP.items()}


def enc(e: Any) -> str:
    out: List[str] = []

    def many(es: Any) -> None:
        out.append(str(len(es)))
        for x in es:
            go(x)

    def gen(g: Any) -> None:
        if isinstance(g, M.ForEach):
            out.extend(["e", enc_text(g.variable)])
            go(g.iteration)
        else:
            out.extend(["r", enc_text(g.variable)])
            go(g.start)
            go(g.end)

    def go(x: Any) -> None:
        if isinstance(x, M.Member):
            out.append("m"); go(x.instance); out.append(enc_text(x.name))
        elif isinstance(x, M.Index):
            out.append("x"); go(x.collection); go(x.index)
        elif isinstance(x, M.Comparison):
            out.extend(["c", _CMP[x.op]]); go(x.left); go(x.right)
        elif isinstance(x, M.IsIn):
            out.append("i"); go(x.member); go(x.container)
        elif isinstance(x, M.Implication):
            out.append("p"); go(x.antecedent); go(x.consequent)
        elif isinstance(x, M.MethodCall):
            out.append("M"); go(x.member.instance); out.append(enc_text(x.member.name)); many(x.args)
        elif isinstance(x, M.Name):
            out.extend(["n", enc_text(x.identifier)])
        elif isinstance(x, M.FunctionCall):
            out.extend(["F", enc_text(x.name)]); many(x.args)
        elif isinstance(x, M.Constant):
            v = x.value
            if isinstance(v, bool):
                out.extend(["kb", "1" if v else "0"])
            elif isinstance(v, int):
                out.extend(["ki", str(v)])
            elif isinstance(v, float):
                out.extend(["kf", enc_text(repr(v))])
            elif isinstance(v, str):
                out.extend(["ks", enc_text(v)])
            else:
                raise ValueError(f"constant {v!r}")
        elif isinstance(x, M.IsNone):
            out.append("z"); go(x.value)
        elif isinstance(x, M.IsNotNone):
            out.append("Z"); go(x.value)
        elif isinstance(x, M.Not):
            out.append("N"); go(x.operand)
        elif isinstance(x, M.And):
            out.append("A"); many(x.values)
        elif isinstance(x, M.Or):
            out.append("O"); many(x.values)
        elif isinstance(x, M.Add):
            out.append("a"); go(x.left); go(x.right)
        elif isinstance(x, M.Sub):
            out.append("s"); go(x.left); go(x.right)
        elif isinstance(x, M.JoinedStr):
            out.extend(["j", str(len(x.values))])
            for p in x.values:
                if isinstance(p, str):
                    out.extend(["l", enc_text(p)])
                else:
                    out.append("v"); go(p)
        elif isinstance(x, M.Any_):
            out.append("y"); gen(x.generator); go(x.condition)
        elif isinstance(x, M.All):
            out.append("Y"); gen(x.generator); go(x.condition)
        else:
            raise ValueError(f"not an expression: {x!r}")

    go(e)
    return ",".join(out)


def dec(wire: str) -> Any:
    toks = wire.split(",")
    pos = 0

    def nxt() -> str:
        nonlocal pos
        pos += 1
        return toks[pos - 1]

    def many() -> tuple:
        n = int(nxt())
        return tuple(go() for _ in range(n))

    def gen() -> Any:
        k = nxt()
        v = dec_text(nxt())
        if k == "e":
            return M.ForEach(v, go())
        a = go()
        return M.ForRange(v, a, go())

    def go() -> Any:
        k = nxt()
        if k == "m":
            i = go(); return M.Member(i, dec_text(nxt()))
        if k == "x":
            c = go(); return M.Index(c, go())
        if k == "c":
            op = _CMP_INV[nxt()]; l = go(); return M.Comparison(l, op, go())
        if k == "i":
            m = go(); return M.IsIn(m, go())
        if k == "p":
            a = go(); return M.Implication(a, go())
        if k == "M":
            i = go(); n = dec_text(nxt()); return M.MethodCall(M.Member(i, n), many())
        if k == "n":
            return M.Name(dec_text(nxt()))
        if k == "F":
            n = dec_text(nxt()); return M.FunctionCall(n, many())
        if k == "kb":
            return M.Constant(nxt() == "1")
        if k == "ki":
            return M.Constant(int(nxt()))
        if k == "kf":
            return M.Constant(float(dec_text(nxt())))
        if k == "ks":
            return M.Constant(dec_text(nxt()))
        if k == "z":
            return M.IsNone(go())
        if k == "Z":
            return M.IsNotNone(go())
        if k == "N":
            return M.Not(go())
        if k == "A":
            return M.And(many())
        if k == "O":
            return M.Or(many())
        if k == "a":
            l = go(); return M.Add(l, go())
        if k == "s":
            l = go(); return M.Sub(l, go())
        if k == "j":
            n = int(nxt()); parts = []
            for _ in range(n):
                t = nxt()
                parts.append(dec_text(nxt()) if t == "l" else go())
            return M.JoinedStr(tuple(parts))
        if k == "y":
            g = gen(); return M.Any_(g, go())
        if k == "Y":
            g = gen(); return M.All(g, go())
        raise ValueError(k)

    e = go()
    assert pos == len(toks)
    return e
