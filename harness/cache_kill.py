"""
kill -9 variant of the crash scenarios (thorough tier): a real child process runs the unmodified
``load_model(cache_model=True)`` with TMPDIR redirected; a tiny stub loaded through ``-c`` stops the child
(SIGSTOP to itself) right before the k-th cache-relevant call, the parent SIGKILLs it there.  Afterwards the
parent judges the real directory (only entries that unpickle + ``*.tmp`` strays) and runs a fresh cached and
an uncached load, which must both return the uncached result.
"""
from __future__ import annotations

import json
import os
import pathlib
import signal
import subprocess
import sys
from typing import Any, Dict, List

from harness import cache_common as cc
from harness.core import REPO, Ctx

CHILD_TIMEOUT = 300.0

_CHILD = r"""
import os, sys, signal, pathlib, pickle, json
K = int(sys.argv[2]); MODE = sys.argv[3]
count = [0]
def point():
    if count[0] == K:
        if MODE == 'kill':
            sys.stdout.flush()
            os.kill(os.getpid(), signal.SIGSTOP)
        count[0] += 1
        return
    count[0] += 1
def wrap(obj, name):
    orig = getattr(obj, name)
    def w(*a, **kw):
        if name in ('open',) and not str(a[0]).startswith(os.environ['TMPDIR']):
            return orig(*a, **kw)
        if name in ('exists', 'mkdir', 'rename', 'unlink') and not str(a[0]).startswith(os.environ['TMPDIR']):
            return orig(*a, **kw)
        point()
        return orig(*a, **kw)
    setattr(obj, name, w)
for n in ('exists', 'mkdir', 'rename', 'unlink', 'open'):
    wrap(pathlib.Path, n)
orig_dump = pickle.dump
def dump(obj, f, *a, **kw):
    point()
    data = pickle.dumps(obj)
    f.write(data[: len(data) // 2]); f.flush()
    point()
    f.write(data[len(data) // 2 :])
    point()
pickle.dump = dump
from aas_core_codegen import run
res = run.load_model(pathlib.Path(sys.argv[1]), cache_model=(MODE != 'uncached'))
print(json.dumps({'ok': res[1] is None, 'text': res[0][1].text if res[1] is None else None, 'err': res[1], 'points': count[0]}))
"""


def _child(model: pathlib.Path, tmpdir: pathlib.Path, k: int, mode: str) -> Dict[str, Any]:
    env = dict(os.environ, PYTHONPATH=str(REPO), TMPDIR=str(tmpdir), PYTHONDONTWRITEBYTECODE="1")
    proc = subprocess.Popen([sys.executable, "-B", "-c", _CHILD, str(model), str(k), mode], env=env, stdout=subprocess.PIPE, stderr=subprocess.PIPE)
    if mode == "kill":
        # wait until the child stops itself or exits
        import time

        deadline = time.time() + CHILD_TIMEOUT
        while True:
            pid, status = os.waitpid(proc.pid, os.WUNTRACED | os.WNOHANG)
            if pid == 0:
                if time.time() > deadline:
                    # the child neither stops nor exits (the code under test blocks): an observation, not a harness error
                    os.kill(proc.pid, signal.SIGKILL)
                    os.waitpid(proc.pid, 0)
                    proc.returncode = -9
                    return {"ok": False, "hang": True}
                time.sleep(0.01)
                continue
            if os.WIFSTOPPED(status):
                os.kill(proc.pid, signal.SIGKILL)
                os.waitpid(proc.pid, 0)
                proc.returncode = -9
                return {"killed": True}
            proc.returncode = os.waitstatus_to_exitcode(status)
            break
        out = proc.stdout.read() if proc.stdout else b""
    else:
        try:
            out, _ = proc.communicate(timeout=CHILD_TIMEOUT)
        except subprocess.TimeoutExpired:
            proc.kill()
            proc.communicate()
            return {"ok": False, "hang": True}
    try:
        return json.loads(out.decode().strip().splitlines()[-1])
    except Exception:  # noqa
        return {"ok": False, "crash": True, "rc": proc.returncode}


def judge_dir(tmpdir: pathlib.Path, text: str) -> List[str]:
    import hashlib

    from harness import cache_rig as rig

    want = hashlib.sha256(text.encode("utf-8", "surrogatepass")).hexdigest()
    bad = []
    for d in tmpdir.iterdir():
        if not d.is_dir():
            bad.append(f"stray {d.name} in the temp directory")
            continue
        for p in d.iterdir():
            if p.name.endswith(".tmp"):
                continue
            try:
                data = p.read_bytes()
            except OSError:
                bad.append(f"entry {p.name} cannot be read")
                continue
            status, text_sha, _ = rig.PROBER.probe(data)  # unpickled in the probe child, under a time limit
            if status != "ok":
                bad.append(f"entry {p.name} cannot be unpickled ({status})")
            elif text_sha != want:
                bad.append(f"entry {p.name} holds another text")
    return bad


def one(ctx: Ctx, base: str, k: int) -> Dict[str, Any]:
    texts = cc.texts_for(base)
    root = ctx.scratch() / f"kill9-{base}-{k}"
    tmpdir = root / "tmp"
    tmpdir.mkdir(parents=True)
    model = root / "m.py"
    model.write_text(texts[0], encoding="utf-8")
    first = _child(model, tmpdir, k, "kill")
    bad = judge_dir(tmpdir, texts[0])
    cached = _child(model, tmpdir, 10 ** 6, "cached")
    bad += judge_dir(tmpdir, texts[0])
    warm = _child(model, tmpdir, 10 ** 6, "cached")
    unc = _child(model, tmpdir, 10 ** 6, "uncached")
    for name, r in (("fresh cached run", cached), ("warm run", warm), ("uncached run", unc)):
        if not r.get("ok") or r.get("text") != texts[0]:
            bad.append(f"{name} after the kill did not return the uncached result: {str(r)[:120]}")
    return {"first": first, "bad": bad}


def kill9_runs(ctx: Ctx) -> None:
    for base, ks in (("enum", range(0, 8)), ("deep_class_hierarchy", (3, 4, 5, 6))):
        for k in ks:
            res = one(ctx, base, k)
            ctx.count(("kill9", base, k), stream="kill-9-subprocess")
            ctx.hit("kill9=" + ("killed" if res["first"].get("killed") else "ran-through"))
            for b in res["bad"]:
                ctx.fail({"kind": "kill9", "base": base, "k": k}, f"kill -9 before cache call #{k}: {b}", "C24:kill9:" + b.split(" ")[0])


def replay(ctx: Ctx, inp: Dict[str, Any]) -> Any:
    return one(ctx, inp["base"], inp["k"])
