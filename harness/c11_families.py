"""
C11 / C12: enumerated (seed-independent) families of meta-models WITH their instances.

Each family is an abstract ``mm.MM`` carrying ``_explicit``: a list of ``Spec`` (class, property values, mutate?) from
which ``explicit_documents`` builds SDK instances; an instance counts as *valid data* when the direct oracle
(``mm.check_invariants``: the source lambdas evaluated by CPython) finds every invariant true AND the generated
``verification.verify`` reports nothing.  The expressions are built by ``harness.src_expr`` (never by the project's parse
rules), so the text in the meta-model is the text written here.

Families
--------
``astral``             patterns with a character range above the BMP for every distance between the high surrogates of
                       its end points (0, 1, 2, 3, 4, many, BMP-into-astral), on a property, on a constrained primitive
                       (property, list item) and guarded on an optional property; instances hold characters from EVERY
                       high-surrogate block of the range (first, middle ones, last; first/last code point of each).
``forms-<k>``          one class per boolean SHAPE of an invariant around a schema-representable constraint
                       (``len`` bound, pattern, list size): the recognised forms (bare, ``x is None or K``,
                       ``not (x is not None) or K``) and the near misses (three and four disjuncts with the constraint
                       in every position, implications with other antecedents, nested/parenthesised disjunctions,
                       conjunctions of two and three constraints, negated constraints); instances satisfy the
                       invariant through EVERY disjunct (over-long value + legacy flag, ...).
``cp-forms``           the same shapes around a constraint on ``self`` of a constrained primitive (length / pattern).
``bounds``             several bounds of the same direction on one value (own class, constrained primitive, list,
                       ancestor + descendant), instances exactly ON every bound.
``cp-chains``          chains of three and four constrained primitives in EVERY declaration order (descendant first),
                       used as property, list item, optional property.
``model-type``         the ``required`` / ``modelType`` part of every definition shape: hierarchies where ``with_model_type`` is
                       set on the class itself while the parent / both parents / parent and grand-parent LACK it (legal when
                       those are never a property type), inherited from the parent, from the grand-parent, from one of two
                       parents, set on every level, set on a concrete parent, on a stand-alone class, explicitly False, on
                       none; abstract parents used as a property type (``_choice``) or not; documents of every concrete
                       class at the root and nested (property, list item, optional).  ``model-type-concrete-parent`` is the
                       one shape the generator refuses (concrete parent without the setting).
``zero-bounds-<k>``    boundary values of every bound: ``len`` bounds 0 and 1 as lower and upper bound, ``min == max`` (0, 1),
                       every spelling (``== 0``, ``<= 0``, ``< 1``, ``0 >= len``, ``>= 1``, ``> 0``, ``< 2``), for strings, byte
                       arrays and lists (of strings, constrained primitives, classes), on own properties, optional (guarded)
                       ones, constrained primitives (and chains tightening to 0), inherited unchanged, tightened by a
                       descendant / a grand-child (from unbounded and from a looser bound); instances exactly ON the bound.
``class-chains``       constraints arriving from the own class and from ancestors at distance 1-3 (the front end demands
                       ancestors before descendants for classes; the holder and the constrained primitives are declared
                       first / descendant-first in the second variant).
"""
from __future__ import annotations

import itertools
from typing import Any, Dict, Iterator, List, Optional, Sequence, Tuple

from harness import mm
from harness.mm import Class, ConstrainedPrimitive, ListOf, MM, OptionalOf, PatternFn, Prim, Prop, Ref
from harness.src_expr import inv


class Spec:
    def __init__(self, cls: str, values: Dict[str, Any], mutate: bool = False) -> None:
        self.cls, self.values, self.mutate = cls, values, mutate


# --------------------------------------------------------------------------- building instances


def build_value(sdk: Any, v: Any) -> Any:
    if isinstance(v, dict) and "__class__" in v:
        from harness.mm_inst import _py_property_name

        kw = {_py_property_name(k): build_value(sdk, x) for k, x in v.items() if k != "__class__"}
        return sdk.class_of(v["__class__"])(**kw)
    if isinstance(v, list):
        return [build_value(sdk, x) for x in v]
    return v


def build_instance(sdk: Any, spec: Spec) -> Any:
    return build_value(sdk, dict(spec.values, __class__=spec.cls))


def vary(base: Dict[str, Any], domains: Dict[str, Sequence[Any]]) -> List[Dict[str, Any]]:
    """The base and every one-property variation of it."""
    out = [dict(base)]
    for p, vs in domains.items():
        for v in vs:
            d = dict(base)
            d[p] = v
            if d not in out:
                out.append(d)
    return out


# --------------------------------------------------------------------------- astral ranges

#: name -> (first, last) code point; distance = difference of the high surrogates of the two
ASTRAL_RANGES: Dict[str, Tuple[int, int]] = {
    "d0": (0x1F600, 0x1F64F),      # D83D .. D83D
    "d1": (0x1F3F0, 0x1F40F),      # D83C .. D83D
    "d2": (0x1F300, 0x1FAFF),      # D83C .. D83E
    "d2low": (0x10000, 0x10BFF),   # D800 .. D802
    "d3": (0x1F000, 0x1FFFF),      # D83C .. D83F
    "d4": (0x1F000, 0x203FF),      # D83C .. D840
    "dmany": (0x10000, 0x10FFFF),  # D800 .. DBFF
    # from the BMP into the supplementary planes; the start lies above the surrogate block: a range covering U+D800..U+DFFF
    # matches single UTF-16 units of any astral character after the rewriting (documented caveat, known finding C17-F2)
    "bmpx": (0xE000, 0x1F3FF),
}


def high(cp: int) -> int:
    return 0xD800 + ((cp - 0x10000) >> 10)


def block_samples(lo: int, hi: int, max_blocks: int = 6) -> List[int]:
    """Code points of [lo, hi] from every high-surrogate block (first and last of each; thinned when many)."""
    out = [lo, hi]
    a = max(lo, 0x10000)
    blocks = list(range(high(a), high(hi) + 1))
    if len(blocks) > max_blocks:
        k = max_blocks // 2
        mid = len(blocks) // 2
        blocks = blocks[:k] + [blocks[mid]] + blocks[-k:]
    for h in blocks:
        first = 0x10000 + ((h - 0xD800) << 10)
        last = first + 0x3FF
        out += [max(first, lo), min(last, hi)]
    if lo < 0x10000:
        out += [min(hi, 0xFFFD), (lo + min(hi, 0xFFFF)) // 2]
    return [c for c in dict.fromkeys(out) if not 0xD800 <= c <= 0xDFFF]


def uesc(cp: int) -> str:
    return f"\\U{cp:08X}" if cp > 0xFFFF else f"\\u{cp:04X}"


def astral_family() -> Any:
    """All ranges in one model: per range three pattern functions, a constrained primitive and a holder class."""
    fns: List[Any] = []
    cps: List[Any] = []
    classes: List[Any] = []
    specs: List[Spec] = []
    for name, (lo, hi) in ASTRAL_RANGES.items():
        rng = f"{uesc(lo)}-{uesc(hi)}"
        fns += [PatternFn.simple(f"matches_plain_{name}", f"^[{rng}]+$"),
                PatternFn.simple(f"matches_tail_{name}", f"^[a-z]*[{rng}]$"),
                PatternFn.simple(f"matches_mixed_{name}", f"^[a-zA-Z {rng}]*$")]
        cps.append(ConstrainedPrimitive(f"Symbol_{name}", "str", invariants=[inv("must end in a symbol", f"matches_tail_{name}(self)")]))
        cname = f"Holder_{name}"
        classes.append(Class(cname, description=f"Hold the symbols of the range {name}.", props=[
            Prop("plain", Prim("str")), Prop("symbol", Ref(f"Symbol_{name}")), Prop("symbols", ListOf(Ref(f"Symbol_{name}"))),
            Prop("caption", OptionalOf(Prim("str")))],
            invariants=[inv("plain must be symbols", f"matches_plain_{name}(self.plain)"),
                        inv("caption must be letters and symbols", f"self.caption is None or matches_mixed_{name}(self.caption)")]))
        chars = [chr(c) for c in block_samples(lo, hi)]
        for i, ch in enumerate(chars):
            other = chars[(i + 1) % len(chars)]
            specs.append(Spec(cname, {"plain": ch + other, "symbol": "ab" + ch, "symbols": [ch, "z" + other],
                                      "caption": None if i % 3 == 2 else "lift off " + ch}, mutate=i < 2))
    m = MM(classes=classes, constrained_primitives=cps, verification_functions=fns, version="V1", xml_namespace="urn:aasv:astral")
    m._explicit = specs  # type: ignore[attr-defined]
    return m


# --------------------------------------------------------------------------- boolean shapes around a constraint

#: shapes for an OPTIONAL value: {G} = ``x is None``, {NG} = ``x is not None``, {K} the constraint, {L} {M} free flags,
#: {K2} a second constraint on the same value
FORMS_OPTIONAL = [
    "{G} or {K}",
    "not ({NG}) or {K}",
    "{G} or {K} or {L}",
    "{G} or {L} or {K}",
    "{L} or {G} or {K}",
    "{G} or {K} or {L} or {M}",
    "{G} or {L} or {K} or {M}",
    "{G} or {L} or {M} or {K}",
    "not ({NG}) or {K} or {L}",
    "not ({NG}) or ({K} or {L})",
    "not ({NG}) or ({L} or {K})",
    "not ({NG} and not {L}) or {K}",
    "not ({NG} and {L}) or {K}",
    "not {L} or {G} or {K}",
    "not {L} or ({G} or {K})",
    "{G} or ({K} and {L})",
    "{G} or ({L} and {K})",
    "{G} or {K} and {L} or {M}",
    "({G} or {K}) or {L}",
    "{G} or ({K} or {L})",
    "{L} or (not ({NG}) or {K})",
    "not {L} or (not ({NG}) or {K})",
    "not ({NG}) or (not {L} or {K})",
    "{G} or not ({K})",
    "{NG} and {K}",
    "{G} or ({K} and {K2})",
    "{G} or ({K} and {K2} and {L})",
    "({G} or {K}) and ({G} or {K2})",
    "({G} or {K}) and ({G} or {K2}) and ({G} or {L})",
    "not ({NG}) or ({K} and {K2})",
    "{G} or {K} or {K2}",
    "{G} or {K2} or {K}",
]
#: shapes for a REQUIRED value
FORMS_REQUIRED = [
    "{K}",
    "{K} or {L}",
    "{L} or {K}",
    "{K} or {L} or {M}",
    "{L} or {K} or {M}",
    "{L} or {M} or {K}",
    "not {L} or {K}",
    "not {L} or {K} or {M}",
    "not ({L} and {M}) or {K}",
    "{K} and {K2}",
    "{K} and {K2} and {L}",
    "{L} and {K}",
    "{K} or {K2}",
    "{K2} or {K}",
    "not ({K})",
    "not (not ({K}))",
    "({K} or {L}) and ({K2} or {L})",
]

#: per value: (property, type, K, K2, domain of values (first = satisfies K and K2))
FORM_VALUES_OPT = [
    ("brief", OptionalOf(Prim("str")), "len(self.brief) <= 4", "len(self.brief) >= 2", [None, "ab", "", "a", "abcd", "abcde", "a rather long legacy name"]),
    ("least", OptionalOf(Prim("str")), "3 <= len(self.least)", "8 > len(self.least)", [None, "abc", "", "ab", "abcdefg", "abcdefgh", "abcdefghijkl"]),
    ("code", OptionalOf(Prim("str")), "matches_code(self.code)", "matches_upper(self.code)", [None, "ABC", "", "abc", "ABCD", "legacy-7", "AB1"]),
    ("aliases", OptionalOf(ListOf(Prim("str"))), "len(self.aliases) >= 2", "len(self.aliases) < 4", [None, ["a", "b"], [], ["a"], ["a", "b", "c"], ["a", "b", "c", "d"], ["a"] * 7]),
]
FORM_VALUES_REQ = [
    ("brief", Prim("str"), "len(self.brief) <= 4", "len(self.brief) >= 2", ["ab", "", "a", "abcd", "abcde", "a rather long legacy name"]),
    ("least", Prim("str"), "3 <= len(self.least)", "8 > len(self.least)", ["abc", "", "ab", "abcdefg", "abcdefgh", "abcdefghijkl"]),
    ("code", Prim("str"), "matches_code(self.code)", "matches_upper(self.code)", ["ABC", "", "abc", "ABCD", "legacy-7", "AB1"]),
    ("aliases", ListOf(Prim("str")), "len(self.aliases) >= 2", "len(self.aliases) < 4", [["a", "b"], [], ["a"], ["a", "b", "c"], ["a", "b", "c", "d"], ["a"] * 7]),
]
FORM_FNS = [("matches_code", "^[A-Z]{3}$"), ("matches_upper", "^[A-Z0-9]*$")]


def _plain_holds(text: str, values: Dict[str, Any]) -> bool:
    """Pre-selection only (the filter that counts is the oracle in ``explicit_documents``)."""
    import re
    from types import SimpleNamespace

    scope: Dict[str, Any] = {"__builtins__": {}, "len": len, "self": SimpleNamespace(**values)}
    for n, p in FORM_FNS:
        scope[n] = (lambda t, _p=p: re.match(_p, t) is not None)
    try:
        return eval(text, scope) is True  # noqa: S307
    except Exception:  # noqa: B902
        return False


def forms_family(chunk: int, per_model: int = 25) -> Optional[Any]:
    """Model ``chunk`` of the shapes: one class per shape, the shape applied to four values at once.  Instances: per
    combination of the flags, every value of each property's domain under which that property's invariant holds
    (one property varied at a time) — so every disjunct is the satisfying one for some instance."""
    shapes = [("opt", s) for s in FORMS_OPTIONAL] + [("req", s) for s in FORMS_REQUIRED]
    mine = shapes[chunk * per_model:(chunk + 1) * per_model]
    if not mine:
        return None
    classes = []
    specs: List[Spec] = []
    for k, (kind, shape) in enumerate(mine):
        cname = f"Form_{kind}_{chunk * per_model + k}"
        values = FORM_VALUES_OPT if kind == "opt" else FORM_VALUES_REQ
        props = [Prop("legacy", Prim("bool")), Prop("manual", Prim("bool"))] + [Prop(p, t) for p, t, _, _, _ in values]
        texts = {}
        for p, _t, k1, k2, _dom in values:
            texts[p] = shape.format(G=f"self.{p} is None", NG=f"self.{p} is not None", K=k1, K2=k2, L="self.legacy", M="self.manual")
        classes.append(Class(cname, props=props, invariants=[inv(f"{p}: {shape}", t) for p, t in texts.items()],
                             description=f"Apply the shape {shape}."))
        flags = [(False, False), (True, False)] + ([(False, True), (True, True)] if "{M}" in shape else [])
        for legacy, manual in flags:
            ok = {p: [v for v in dom if _plain_holds(texts[p], {p: v, "legacy": legacy, "manual": manual})]
                  for p, _t, _k1, _k2, dom in values}
            if any(not vs for vs in ok.values()):
                continue
            base = {p: vs[0] for p, vs in ok.items()}
            for i, d in enumerate(vary(base, ok)):
                specs.append(Spec(cname, dict(d, legacy=legacy, manual=manual), mutate=(i == 0)))
    m = MM(classes=classes, verification_functions=[PatternFn.simple(n, p) for n, p in FORM_FNS], version="V1",
           xml_namespace="urn:aasv:forms")
    m._explicit = specs  # type: ignore[attr-defined]
    return m


def n_forms_chunks(per_model: int = 25) -> int:
    n = len(FORMS_OPTIONAL) + len(FORMS_REQUIRED)
    return (n + per_model - 1) // per_model


# --------------------------------------------------------------------------- shapes on ``self`` of a constrained primitive

CP_FORMS = [
    "{K}", "{K} or {K2}", "{K2} or {K}", "{K} or {K2} or {K3}", "not ({K})", "not (not ({K}))", "{K} and {K3}",
    "{K} and {K3} and {K4}", "not ({K}) or {K3}", "not ({K3}) or {K}", "({K} or {K2}) and {K3}",
]


def cp_forms_family() -> Any:
    """Constrained primitives whose invariants wrap a constraint on ``self`` in every shape (no flags available here):
    K = ``len(self) <= 4``, K2 = ``len(self) >= 8``, K3 = digits only, K4 = ``len(self) >= 2``; and the same with the
    pattern as the wrapped constraint."""
    fns = [PatternFn.simple("matches_digits", "^[0-9]*$"), PatternFn.simple("matches_hex", "^[0-9a-f]*$")]
    subst = [
        dict(K="len(self) <= 4", K2="len(self) >= 8", K3="matches_digits(self)", K4="len(self) >= 2"),
        dict(K="matches_digits(self)", K2="matches_hex(self)", K3="len(self) <= 4", K4="2 <= len(self)"),
    ]
    cps: List[Any] = []
    props: List[Any] = []
    names: List[str] = []
    for i, shape in enumerate(CP_FORMS):
        for j, sub in enumerate(subst):
            n = f"Cpf_{i}_{j}"
            cps.append(ConstrainedPrimitive(n, "str", invariants=[inv(f"{shape}", shape.format(**sub))]))
            names.append(n)
    domain = ["12", "", "1", "1234", "12345", "12345678", "123456789", "ab", "abcdef12", "abcdefgh", "xy", "a rather long text", "12ab", "wxyzwxyzw"]
    classes = []
    specs: List[Spec] = []
    for n in names:
        cname = "Holder_" + n.lower()
        classes.append(Class(cname, props=[Prop("value", Ref(n)), Prop("more", ListOf(Ref(n)))], description=f"Hold {n}."))
        for k, v in enumerate(domain):
            specs.append(Spec(cname, {"value": v, "more": [v, domain[(k + 3) % len(domain)]]}, mutate=False))
            specs.append(Spec(cname, {"value": v, "more": []}, mutate=(k == 0)))
    m = MM(classes=classes, constrained_primitives=cps, verification_functions=fns, version="V1", xml_namespace="urn:aasv:cpforms")
    m._explicit = specs  # type: ignore[attr-defined]
    return m


# --------------------------------------------------------------------------- several bounds of one direction


def bounds_family() -> Any:
    fns = [PatternFn.simple("matches_word", "^[a-z]*$")]
    cps = [
        ConstrainedPrimitive("Code", "str", invariants=[
            inv("at least 1", "len(self) >= 1"), inv("at least 3", "len(self) >= 3"),
            inv("at most 16", "len(self) <= 16"), inv("below 6", "len(self) < 6")]),
        ConstrainedPrimitive("Loose_first", "str", invariants=[
            inv("at most 5", "5 >= len(self)"), inv("at most 9", "len(self) <= 9"), inv("at most 7", "len(self) <= 7"),
            inv("at least 2", "2 <= len(self)"), inv("more than 0", "len(self) > 0")]),
        ConstrainedPrimitive("Three_lower", "str", invariants=[
            inv("at least 2", "len(self) >= 2"), inv("at least 4", "len(self) >= 4"), inv("at least 3", "len(self) >= 3"),
            inv("a word", "matches_word(self)")]),
    ]
    classes = [
        Class("Something", description="Carry several bounds of one direction.", props=[
            Prop("code", Ref("Code")), Prop("tags", ListOf(Prim("str"))), Prop("text", Prim("str")),
            Prop("loose", Ref("Loose_first")), Prop("codes", ListOf(Ref("Three_lower"))), Prop("memo", OptionalOf(Prim("str"))),
            Prop("labelled", Ref("Code"))],
            invariants=[
                inv("tags more than 0", "len(self.tags) > 0"), inv("tags at least 2", "2 <= len(self.tags)"),
                inv("tags at most 8", "len(self.tags) <= 8"), inv("tags below 4", "4 > len(self.tags)"),
                inv("text at least 2", "len(self.text) >= 2"), inv("text at least 4", "len(self.text) >= 4"),
                inv("memo at most 9", "self.memo is None or len(self.memo) <= 9"),
                inv("memo at most 6", "not (self.memo is not None) or len(self.memo) <= 6"),
                inv("memo at least 1", "self.memo is None or len(self.memo) >= 1"),
                inv("memo at least 2", "self.memo is None or 2 <= len(self.memo)"),
                inv("labelled at least 4", "len(self.labelled) >= 4"), inv("labelled at least 2", "len(self.labelled) >= 2"),
                inv("codes at most 3", "len(self.codes) <= 3"), inv("codes at most 2", "len(self.codes) <= 2")]),
        Class("Basis", abstract=True, with_model_type=True, description="Bound the name.", props=[Prop("name", Prim("str"))],
              invariants=[inv("name at least 1", "len(self.name) >= 1"), inv("name at most 12", "len(self.name) <= 12")]),
        Class("Derived", bases=["Basis"], description="Bound the name more.",
              invariants=[inv("name at least 3", "len(self.name) >= 3"), inv("name at least 2", "len(self.name) >= 2"),
                          inv("name at most 10", "len(self.name) <= 10")]),
        Class("Leaf", bases=["Derived"], description="Bound the name even more.",
              invariants=[inv("name at most 7", "len(self.name) <= 7"), inv("name at most 8", "8 >= len(self.name)"),
                          inv("name at least 4", "len(self.name) >= 4")]),
        Class("Keeper", props=[Prop("entries", ListOf(Ref("Basis")))], description="Keep them."),
    ]
    m = MM(classes=classes, constrained_primitives=cps, verification_functions=fns, version="V1", xml_namespace="urn:aasv:bounds")
    base = {"code": "abcd", "tags": ["x", "y"], "text": "abcde", "loose": "abc", "codes": ["abcd"], "memo": "abc", "labelled": "abcd"}
    domains = {
        "code": ["abc", "abcde", "ab", "abcdef", "a", ""], "tags": [["x", "y", "z"], ["x"], ["a", "b", "c", "d"], []],
        "text": ["abcd", "abc", "ab", "a"], "loose": ["ab", "abcde", "a", "abcdef", "abcdefgh"],
        "codes": [[], ["abcd", "wxyz"], ["abc"], ["ab"], ["abcd"] * 3], "memo": [None, "ab", "abcdef", "a", "abcdefg", ""],
        "labelled": ["abcde", "abc", "ab"],
    }
    specs = [Spec("Something", d, mutate=(i < 6)) for i, d in enumerate(vary(base, domains))]
    for cname, names in (("Derived", ["abc", "abcdefghij", "ab", "abcdefghijk", "a"]), ("Leaf", ["abcd", "abcdefg", "abc", "abcdefgh"])):
        for i, n in enumerate(names):
            specs.append(Spec(cname, {"name": n}, mutate=(i < 2)))
    specs.append(Spec("Keeper", {"entries": [{"__class__": "Leaf", "name": "abcd"}, {"__class__": "Derived", "name": "abc"}]}, mutate=True))
    m._explicit = specs  # type: ignore[attr-defined]
    return m


# --------------------------------------------------------------------------- chains of constrained primitives


def cp_chains_family(lengths: Sequence[int] = (3, 4)) -> Any:
    """One chain per permutation of the declaration order; the constraints sit on different levels of the chain:
    level 0 (root): ``len >= 2`` and letters only; level 1: ``len <= 9``; level 2: upper case; level 3: ``len <= 4``."""
    level_invs = [
        [("at least 2", "len(self) >= 2"), ("letters", "matches_letters(self)")],
        [("at most 9", "len(self) <= 9")],
        [("upper case", "matches_upper(self)")],
        [("at most 4", "len(self) <= 4")],
    ]
    fns = [PatternFn.simple("matches_letters", "^[a-zA-Z]*$"), PatternFn.simple("matches_upper", "^[^a-z]*$")]
    cps: List[Any] = []
    classes: List[Any] = []
    order: List[str] = []
    specs: List[Spec] = []
    for length in lengths:
        for k, perm in enumerate(itertools.permutations(range(length))):
            names = [f"C{length}x{k}_l{i}" for i in range(length)]
            for i in range(length):
                cps.append(ConstrainedPrimitive(names[i], "str", bases=[names[i - 1]] if i > 0 else [],
                                                invariants=[inv(d, t) for d, t in level_invs[i]]))
            leaf, mid = names[-1], names[-2]
            hname = f"Holder{length}x{k}"
            classes.append(Class(hname, description=f"Hold the chain declared in the order {perm}.", props=[
                Prop("leaf", Ref(leaf)), Prop("items", ListOf(Ref(leaf))), Prop("perhaps", OptionalOf(Ref(leaf))), Prop("mid", Ref(mid))]))
            order += [hname] + [names[i] for i in perm]
            good = "ABCD" if length == 4 else "ABCDEFG"
            specs.append(Spec(hname, {"leaf": "AB", "items": [good, "XY"], "perhaps": good,
                                      "mid": "ABCDEFGHI" if length == 4 else "abcdefghi"}, mutate=True))
            specs.append(Spec(hname, {"leaf": good, "items": [], "perhaps": None, "mid": "AB" if length == 4 else "ab"}, mutate=(k % 4 == 0)))
    m = MM(classes=classes, constrained_primitives=cps, verification_functions=fns, version="V1", xml_namespace="urn:aasv:chains", order=order)
    m._explicit = specs  # type: ignore[attr-defined]
    return m


# --------------------------------------------------------------------------- chains of classes


def class_chains_family() -> Any:
    fns = [PatternFn.simple("matches_letters", "^[a-zA-Z]*$"), PatternFn.simple("matches_upper", "^[^a-z]*$")]
    cps = [ConstrainedPrimitive("Tag", "str", invariants=[inv("tag at most 5", "len(self) <= 5")]),
           ConstrainedPrimitive("Short_tag", "str", bases=["Tag"], invariants=[inv("tag at least 2", "len(self) >= 2")])]
    classes = [
        Class("Level0", abstract=True, with_model_type=True, description="Declare the properties.", props=[
            Prop("name", Prim("str")), Prop("tag", Ref("Short_tag")), Prop("parts", ListOf(Ref("Short_tag"))),
            Prop("remark", OptionalOf(Prim("str")))],
            invariants=[inv("name at least 2", "len(self.name) >= 2"), inv("at most 3 parts", "len(self.parts) <= 3")]),
        Class("Level1", bases=["Level0"], description="Bound the name from above.",
              invariants=[inv("name at most 9", "len(self.name) <= 9"), inv("remark at most 6", "self.remark is None or len(self.remark) <= 6")]),
        Class("Level2", bases=["Level1"], description="Constrain the characters.",
              invariants=[inv("name of letters", "matches_letters(self.name)"), inv("at least 1 part", "len(self.parts) >= 1"),
                          inv("tag at most 4", "len(self.tag) <= 4")]),
        Class("Level3", bases=["Level2"], description="Tighten everything.",
              invariants=[inv("name at least 3", "len(self.name) >= 3"), inv("name upper", "matches_upper(self.name)"),
                          inv("remark at least 2", "not (self.remark is not None) or len(self.remark) >= 2")]),
        Class("Registry", props=[Prop("levels", ListOf(Ref("Level0"))), Prop("top", OptionalOf(Ref("Level1")))], description="Hold them."),
    ]
    specs: List[Spec] = []
    valid = {"Level1": {"name": "ab", "tag": "ab", "parts": [], "remark": "abcdef"},
             "Level2": {"name": "abcdefghi", "tag": "abcd", "parts": ["ab"], "remark": None},
             "Level3": {"name": "ABC", "tag": "ab", "parts": ["ab", "abcde", "xyz"], "remark": "ab"}}
    for cname, d in valid.items():
        specs.append(Spec(cname, d, mutate=True))
        specs += [Spec(cname, x) for x in vary(d, {"name": ["ABCDEFGHI", "ABC", "AB"], "remark": [None, "ab", "abcdef"], "tag": ["abcde", "ab"]})[1:]]
    specs.append(Spec("Registry", {"levels": [dict(valid["Level3"], __class__="Level3"), dict(valid["Level1"], __class__="Level1")],
                                   "top": dict(valid["Level2"], __class__="Level2")}, mutate=True))
    out = []
    for label, order in (("top-down", None), ("holder-first", ["Registry", "Short_tag", "Tag", "Level0", "Level1", "Level2", "Level3"])):
        m = MM(classes=classes, constrained_primitives=cps, verification_functions=fns, version="V1", xml_namespace="urn:aasv:levels", order=order)
        m._explicit = specs  # type: ignore[attr-defined]
        out.append((label, m))
    return out


# --------------------------------------------------------------------------- where ``modelType`` is required


def model_type_family() -> List[Tuple[str, Any]]:
    """Hierarchies over (own setting) x (setting of the parents / grand-parents) x (abstract / concrete parent) x (used as a
    property type or not).  A class lacking the setting with concrete descendants may not be a property type (front end)
    and may not be concrete (generator); everything else is in the main model."""
    name = Prop("name", Prim("str"))

    def size() -> Any:
        return Prop("size", Prim("int"))

    classes = [
        # A: the leaf sets it, the abstract parent lacks it
        Class("A_thing", abstract=True, props=[name], description="Lack the setting."),
        Class("A_leaf", bases=["A_thing"], with_model_type=True, props=[size()], description="Set it on the leaf."),
        # B: the leaf sets it, parent and grand-parent lack it
        Class("B_base", abstract=True, props=[name], description="Lack the setting."),
        Class("B_mid", abstract=True, bases=["B_base"], props=[Prop("remark", OptionalOf(Prim("str")))], description="Lack it as well."),
        Class("B_leaf", bases=["B_mid"], with_model_type=True, props=[size()], description="Set it on the leaf."),
        # C: an abstract middle class sets it (its parent lacks it); leaves inherit; the middle one is a property type
        Class("C_base", abstract=True, props=[name], description="Lack the setting."),
        Class("C_mid", abstract=True, bases=["C_base"], with_model_type=True, props=[Prop("level", Prim("int"))], description="Set it in the middle."),
        Class("C_leaf", bases=["C_mid"], props=[size()], description="Inherit it."),
        Class("C_other", bases=["C_mid"], description="Inherit it, without own properties."),
        # D: from the grand-parent
        Class("D_root", abstract=True, with_model_type=True, props=[name], description="Set it at the root."),
        Class("D_mid", abstract=True, bases=["D_root"], description="Inherit it."),
        Class("D_leaf", bases=["D_mid"], props=[size()], description="Inherit it from the grand-parent."),
        Class("D_twin", bases=["D_mid"], props=[size()], description="Inherit it from the grand-parent as well."),
        # E: two parents, one with, one without (both orders); E2: both lack it, the child sets it
        Class("E_left", abstract=True, props=[Prop("a", Prim("str"))], description="Lack the setting."),
        Class("E_right", abstract=True, with_model_type=True, props=[Prop("b", Prim("str"))], description="Set it."),
        Class("E_both", bases=["E_left", "E_right"], props=[Prop("c", Prim("int"))], description="Inherit it from the second parent."),
        Class("E_both_rev", bases=["E_right", "E_left"], description="Inherit it from the first parent."),
        Class("E2_left", abstract=True, props=[Prop("a", Prim("str"))], description="Lack the setting."),
        Class("E2_right", abstract=True, props=[Prop("b", Prim("str"))], description="Lack the setting."),
        Class("E2_both", bases=["E2_left", "E2_right"], with_model_type=True, description="Set it below two parents lacking it."),
        # F: a concrete parent with the setting
        Class("F_parent", with_model_type=True, props=[name], description="Be concrete and set it."),
        Class("F_child", bases=["F_parent"], props=[size()], description="Inherit it from a concrete parent."),
        # G: no parents
        Class("G_lone", with_model_type=True, props=[size()], description="Stand alone with the setting."),
        Class("G_plain", props=[size()], description="Stand alone without the setting."),
        Class("G_false", with_model_type=False, props=[size()], description="Stand alone, explicitly without."),
        # H: nowhere
        Class("H_base", abstract=True, props=[name], description="Lack the setting."),
        Class("H_leaf", bases=["H_base"], props=[size()], description="Lack it as well."),
        # L: set on every level
        Class("L_root", abstract=True, with_model_type=True, props=[name], description="Set it."),
        Class("L_leaf", bases=["L_root"], with_model_type=True, props=[size()], description="Set it again."),
        # J: two leaves set it below a constrained parent lacking it
        Class("J_base", abstract=True, props=[name], invariants=[inv("name at least 1", "len(self.name) >= 1")], description="Lack the setting."),
        Class("J_one", bases=["J_base"], with_model_type=True, description="Set it."),
        Class("J_two", bases=["J_base"], with_model_type=True, props=[size()],
              invariants=[inv("name at most 3", "len(self.name) <= 3")], description="Set it and tighten."),
        Class("Holder", description="Hold one of each.", props=[
            Prop("a_leaf", Ref("A_leaf")), Prop("b_leaf", OptionalOf(Ref("B_leaf"))), Prop("c_mids", ListOf(Ref("C_mid"))),
            Prop("c_leaf", Ref("C_leaf")), Prop("d_roots", ListOf(Ref("D_root"))), Prop("d_mid", OptionalOf(Ref("D_mid"))),
            Prop("e_rights", ListOf(Ref("E_right"))), Prop("e_both", Ref("E_both")), Prop("e2_both", Ref("E2_both")),
            Prop("f_parents", ListOf(Ref("F_parent"))), Prop("f_child", Ref("F_child")), Prop("g_lone", Ref("G_lone")),
            Prop("g_plain", Ref("G_plain")), Prop("g_false", Ref("G_false")), Prop("h_leaf", Ref("H_leaf")),
            Prop("i_roots", ListOf(Ref("L_root"))), Prop("j_one", Ref("J_one")), Prop("j_twos", ListOf(Ref("J_two")))]),
    ]
    values: Dict[str, Dict[str, Any]] = {
        "A_leaf": {"name": "x", "size": 1}, "B_leaf": {"name": "x", "remark": None, "size": 2}, "C_leaf": {"name": "x", "level": 1, "size": 3},
        "C_other": {"name": "y", "level": 2}, "D_leaf": {"name": "x", "size": 4}, "D_twin": {"name": "y", "size": 5},
        "E_both": {"a": "p", "b": "q", "c": 6}, "E_both_rev": {"a": "p", "b": "q"}, "E2_both": {"a": "p", "b": "q"},
        "F_parent": {"name": "x"}, "F_child": {"name": "y", "size": 7}, "G_lone": {"size": 8}, "G_plain": {"size": 9},
        "G_false": {"size": 10}, "H_leaf": {"name": "x", "size": 11}, "L_leaf": {"name": "x", "size": 12},
        "J_one": {"name": "abcd"}, "J_two": {"name": "abc", "size": 13},
    }

    def obj(cname: str) -> Dict[str, Any]:
        return dict(values[cname], __class__=cname)

    specs = [Spec(cname, v, mutate=True) for cname, v in values.items()]
    specs.append(Spec("Holder", {
        "a_leaf": obj("A_leaf"), "b_leaf": obj("B_leaf"), "c_mids": [obj("C_leaf"), obj("C_other")], "c_leaf": obj("C_leaf"),
        "d_roots": [obj("D_twin"), obj("D_leaf")], "d_mid": obj("D_leaf"), "e_rights": [obj("E_both"), obj("E_both_rev")],
        "e_both": obj("E_both"), "e2_both": obj("E2_both"), "f_parents": [obj("F_parent"), obj("F_child")], "f_child": obj("F_child"),
        "g_lone": obj("G_lone"), "g_plain": obj("G_plain"), "g_false": obj("G_false"), "h_leaf": obj("H_leaf"),
        "i_roots": [obj("L_leaf")], "j_one": obj("J_one"), "j_twos": [obj("J_two")]}, mutate=True))
    m = MM(classes=classes, version="V1", xml_namespace="urn:aasv:modeltype")
    m._explicit = specs  # type: ignore[attr-defined]
    # the shape the GENERATOR refuses: a concrete parent lacking the setting with a concrete child (setting it or not)
    refused = MM(classes=[
        Class("K_parent", props=[name], description="Be concrete and lack the setting."),
        Class("K_child", bases=["K_parent"], with_model_type=True, props=[size()], description="Set it."),
        Class("Keeper", props=[Prop("child", Ref("K_child"))], description="Keep the child only."),
    ], version="V1", xml_namespace="urn:aasv:modeltype")
    refused._explicit = [Spec("K_child", {"name": "x", "size": 1}, mutate=True)]  # type: ignore[attr-defined]
    return [("model-type", m), ("model-type-concrete-parent", refused)]


# --------------------------------------------------------------------------- bounds of exactly 0 and 1

#: (suffix, constraint on ``len(X)`` with ``{L}`` = ``len(X)``, a value length ON the bound)
ZERO_ONE_BOUNDS = [
    ("eq0", "{L} == 0", 0), ("le0", "{L} <= 0", 0), ("lt1", "{L} < 1", 0), ("ge0le0", "0 >= {L}", 0),
    ("eq1", "{L} == 1", 1), ("le1", "{L} <= 1", 1), ("lt2", "2 > {L}", 1), ("ge1", "{L} >= 1", 1), ("gt0", "{L} > 0", 1),
    ("ge0", "{L} >= 0", 0), ("eq2", "{L} == 2", 2),
]


def _text(n: int) -> str:
    return "abcdefgh"[:n]


def zero_bounds_families() -> List[Tuple[str, Any]]:
    out: List[Tuple[str, Any]] = []

    # ---- 0: own properties (required and optional/guarded) of every kind; one class per kind keeps the classes small
    classes: List[Any] = [Class("Item", props=[Prop("label", Prim("str"))], description="Be an item.")]
    specs: List[Spec] = []
    kinds = [
        ("Texts", Prim("str"), _text),
        ("Blobs", Prim("bytes"), lambda n: bytes(range(n))),
        ("Lists", ListOf(Prim("str")), lambda n: ["x"] * n),
        ("Refs", ListOf(Ref("Item")), lambda n: [{"__class__": "Item", "label": "i"}] * n),
    ]
    for cname, t, make in kinds:
        props, invs, vals = [], [], {}
        for suffix, k, n in ZERO_ONE_BOUNDS:
            p = f"v_{suffix}"
            props.append(Prop(p, t))
            invs.append(inv(f"{p}: {k}", k.format(L=f"len(self.{p})")))
            vals[p] = make(n)
        for j, (suffix, k, n) in enumerate(ZERO_ONE_BOUNDS[:6]):
            p = f"o_{suffix}"
            props.append(Prop(p, OptionalOf(t)))
            guard = f"self.{p} is None or " if j % 2 == 0 else f"not (self.{p} is not None) or "
            invs.append(inv(f"{p}: guarded {k}", guard + k.format(L=f"len(self.{p})")))
            vals[p] = make(n)
        if cname == "Refs":
            props.append(Prop("spare", Ref("Item")))
            vals["spare"] = {"__class__": "Item", "label": "spare"}
        classes.append(Class(cname, props=props, invariants=invs, description=f"Bound {cname.lower()} by 0 and 1."))
        specs.append(Spec(cname, vals, mutate=True))
        specs.append(Spec(cname, {p: (None if p.startswith("o_") else v) for p, v in vals.items()}, mutate=False))
    m = MM(classes=classes, version="V1", xml_namespace="urn:aasv:zero")
    m._explicit = specs  # type: ignore[attr-defined]
    out.append(("zero-bounds-own", m))

    # ---- 1: constrained primitives (strings, byte arrays), chains tightening down to 0, as property / item / optional
    cps: List[Any] = []
    classes = []
    specs = []
    for base, make in (("str", _text), ("bytes", lambda n: bytes(range(n)))):
        props, vals = [], {}
        for suffix, k, n in ZERO_ONE_BOUNDS:
            cp = f"{base.capitalize()}_{suffix}"
            cps.append(ConstrainedPrimitive(cp, base, invariants=[inv(k, k.format(L="len(self)"))]))
            props += [Prop(f"v_{suffix}", Ref(cp)), Prop(f"o_{suffix}", OptionalOf(Ref(cp))), Prop(f"l_{suffix}", ListOf(Ref(cp)))]
            vals.update({f"v_{suffix}": make(n), f"o_{suffix}": make(n), f"l_{suffix}": [make(n)]})
        # chains: at most 3 -> at most 1 -> exactly 0 ; at least 0 -> at least 1 -> exactly 1
        cps += [ConstrainedPrimitive(f"{base.capitalize()}_upto3", base, invariants=[inv("at most 3", "len(self) <= 3")]),
                ConstrainedPrimitive(f"{base.capitalize()}_upto1", base, bases=[f"{base.capitalize()}_upto3"], invariants=[inv("at most 1", "len(self) <= 1")]),
                ConstrainedPrimitive(f"{base.capitalize()}_none", base, bases=[f"{base.capitalize()}_upto1"], invariants=[inv("empty", "len(self) < 1")]),
                ConstrainedPrimitive(f"{base.capitalize()}_some", base, bases=[f"{base.capitalize()}_upto3"], invariants=[inv("not empty", "len(self) >= 1")]),
                ConstrainedPrimitive(f"{base.capitalize()}_single", base, bases=[f"{base.capitalize()}_some", f"{base.capitalize()}_upto1"])]
        for suffix, n in (("upto1", 1), ("none", 0), ("some", 1), ("single", 1)):
            props += [Prop(f"c_{suffix}", Ref(f"{base.capitalize()}_{suffix}")), Prop(f"cl_{suffix}", ListOf(Ref(f"{base.capitalize()}_{suffix}")))]
            vals.update({f"c_{suffix}": make(n), f"cl_{suffix}": [make(n), make(n)]})
        cname = f"Holder_{base}"
        classes.append(Class(cname, props=props, description=f"Hold the constrained {base} values.",
                             invariants=[inv("further bounded by the class", "len(self.c_upto1) == 0"),
                                         inv("the list of them is empty", "len(self.cl_upto1) <= 0")]))
        vals.update({"c_upto1": make(0), "cl_upto1": []})
        specs.append(Spec(cname, vals, mutate=True))
        specs.append(Spec(cname, {p: (None if p.startswith("o_") else [] if p.startswith("l_") else v) for p, v in vals.items()}, mutate=False))
    m = MM(classes=classes, constrained_primitives=cps, version="V1", xml_namespace="urn:aasv:zero")
    m._explicit = specs  # type: ignore[attr-defined]
    out.append(("zero-bounds-constrained", m))

    # ---- 2: inherited positions: unchanged, tightened by the child / the grand-child, from unbounded / from a looser bound
    cps = [ConstrainedPrimitive("Tag", "str", invariants=[inv("at most 1", "len(self) <= 1")])]
    node_props = [Prop("children", ListOf(Prim("str"))), Prop("label", Prim("str")), Prop("blob", Prim("bytes")),
                  Prop("tag", Ref("Tag")), Prop("kids", ListOf(Ref("Item"))), Prop("memo", OptionalOf(Prim("str")))]

    def bounds(expr: str, memo: bool = True) -> List[Any]:
        ps = ["children", "label", "blob", "kids"] + (["tag"] if "<" in expr or "== 0" in expr else [])
        res = [inv(f"{p}: {expr}", expr.format(L=f"len(self.{p})")) for p in ps]
        if memo:
            res.append(inv(f"memo: {expr}", "self.memo is None or " + expr.format(L="len(self.memo)")))
        return res

    classes = [
        Class("Item", props=[Prop("label", Prim("str"))], description="Be an item."),
        # a: the root is unbounded
        Class("Node_a", abstract=True, with_model_type=True, props=node_props, description="Leave everything unbounded."),
        Class("Inner_a", bases=["Node_a"], invariants=bounds("{L} <= 2"), description="Allow two."),
        Class("Leaf_a", bases=["Node_a"], invariants=bounds("{L} == 0"), description="Allow none."),
        Class("Single_a", bases=["Node_a"], invariants=bounds("{L} == 1"), description="Demand exactly one."),
        Class("Some_a", bases=["Node_a"], invariants=bounds("{L} >= 1"), description="Demand at least one."),
        # b: the root has loose bounds, tightened twice
        Class("Node_b", abstract=True, with_model_type=True, props=node_props, invariants=bounds("{L} <= 3"), description="Allow three."),
        Class("Mid_b", abstract=True, bases=["Node_b"], invariants=bounds("{L} <= 1"), description="Allow one."),
        Class("One_b", bases=["Mid_b"], invariants=bounds("1 <= {L}"), description="Demand exactly one by adding the other bound."),
        Class("Leaf_b", bases=["Mid_b"], invariants=bounds("{L} < 1"), description="Allow none."),
        Class("Low_b", bases=["Node_b"], invariants=bounds("{L} > 0"), description="Demand one to three."),
        # c: the root is bounded by 0 / 1 already, the leaves inherit it unchanged
        Class("Node_c", abstract=True, with_model_type=True, props=node_props, invariants=bounds("{L} <= 0"), description="Allow none."),
        Class("Leaf_c", bases=["Node_c"], description="Inherit it unchanged."),
        Class("Mid_c", abstract=True, bases=["Node_c"], description="Inherit it unchanged."),
        Class("Deep_c", bases=["Mid_c"], props=[Prop("extra", Prim("int"))], description="Inherit it over two levels."),
        Class("Node_d", abstract=True, with_model_type=True, props=node_props, invariants=bounds("{L} == 1"), description="Demand exactly one."),
        Class("Leaf_d", bases=["Node_d"], description="Inherit it unchanged."),
        Class("Tree", props=[Prop("a_nodes", ListOf(Ref("Node_a"))), Prop("b_nodes", ListOf(Ref("Node_b"))), Prop("c_node", Ref("Node_c")),
                             Prop("d_node", OptionalOf(Ref("Node_d"))), Prop("spare", Ref("Item"))], description="Hold the nodes."),
    ]

    def node(cname: str, n: int, memo: bool = True, **more: Any) -> Dict[str, Any]:
        return dict({"children": ["c"] * n, "label": _text(n), "blob": bytes(range(n)), "tag": _text(min(n, 1)),
                     "kids": [{"__class__": "Item", "label": "k"}] * n, "memo": _text(n) if memo else None}, **more)

    on_bound = {"Inner_a": [2, 0], "Leaf_a": [0], "Single_a": [1], "Some_a": [1, 3], "One_b": [1], "Leaf_b": [0], "Low_b": [1, 3],
                "Leaf_c": [0], "Deep_c": [0], "Leaf_d": [1]}
    specs = []
    for cname, ns in on_bound.items():
        more = {"extra": 1} if cname == "Deep_c" else {}
        for i, n in enumerate(ns):
            specs.append(Spec(cname, node(cname, n, **more), mutate=True))
        specs.append(Spec(cname, node(cname, ns[0], memo=False, **more), mutate=False))

    def nested(cname: str, n: int) -> Dict[str, Any]:
        return dict(node(cname, n, **({"extra": 1} if cname == "Deep_c" else {})), __class__=cname)

    specs.append(Spec("Tree", {"a_nodes": [nested("Leaf_a", 0), nested("Single_a", 1), nested("Inner_a", 2)],
                               "b_nodes": [nested("Leaf_b", 0), nested("One_b", 1)], "c_node": nested("Deep_c", 0),
                               "d_node": nested("Leaf_d", 1), "spare": {"__class__": "Item", "label": "s"}}, mutate=True))
    m = MM(classes=classes, constrained_primitives=cps, version="V1", xml_namespace="urn:aasv:zero")
    m._explicit = specs  # type: ignore[attr-defined]
    out.append(("zero-bounds-inherited", m))
    return out


# --------------------------------------------------------------------------- all of them


def families() -> Iterator[Tuple[str, Any]]:
    yield "astral", astral_family()
    for k in range(n_forms_chunks()):
        yield f"forms-{k}", forms_family(k)
    yield "cp-forms", cp_forms_family()
    yield "bounds", bounds_family()
    yield "cp-chains", cp_chains_family()
    for label, m in class_chains_family():
        yield "class-chains-" + label, m
    yield from model_type_family()
    yield from zero_bounds_families()
