"""
Generators of abstract meta-models (see ``harness.mm`` for the overview).

* ``enumerate_hierarchies(max_classes)``  all class DAG shapes up to isomorphism, with
  abstract/concrete colourings and Python-legal declaration orders; ``hierarchy_to_mm``.
* ``random_mm(rng, size, features)``      random *valid* meta-models (every one of them must
  be accepted by the real front end — enforced by ``tools/selftest_mm.py``).
* ``mutants(mm)``                         single-rule violations ``(rule_id, source_text)``.

All randomness comes from the ``random.Random`` passed in; nothing else (no hash order, no
clock) influences the output, so the same seed gives the same model text.
"""
from __future__ import annotations

import ast
import copy
import dataclasses
import itertools
import os
import pathlib
import random
import re
from dataclasses import dataclass, field
from typing import Any, Callable, Dict, Iterator, List, Optional, Sequence, Set, Tuple, Union

from harness.mm_model import (
    MM, All, And, Any_, Arg, Assign, Class, Comparison, Constant, ConstantPrimitive, ConstantSet,
    ConstrainedPrimitive, Ctor, Enum, EnumLiteral, Expr, ForEach, ForRange, FunctionCall, ImplSpecificFn,
    Implication, Index, Invariant, IsIn, IsNone, IsNotNone, ListOf, Member, Method, MethodCall, Name, Not,
    OptionalOf, Or, PVar, PatternFn, Prim, Prop, Ref, Return, SELF, Sub, Add, TranspilableFn, Type,
    all_props, ancestors, default_ctor, descendants, concrete_descendants, is_optional, length, prop, render,
    beneath_optional,
)

REPO = pathlib.Path(os.environ.get("VERIF_REPO", "/repo"))

# =========================================================================== reserved names

_FALLBACK_RESERVED = {
    "str", "string", "int", "integer", "float", "real", "decimal", "number", "bool", "boolean", "bytes",
    "bytearray", "object", "class", "type_name", "match", "path", "error", "context", "visitor", "transformer",
    "descend", "accept", "transform", "model_type", "constants", "verification", "jsonization", "stringification",
}

_reserved_cache: Optional[Set[str]] = None


def reserved_names(repo: Optional[pathlib.Path] = None) -> Set[str]:
    """
    Every lower-case name the front end reserves for types, members, constants or functions:
    all string literals of ``parse/_translate.py:_verify_symbol_table`` (read with ``ast`` from
    the repository under test, never imported).  A superset of each individual reserved list —
    names generated for *valid* models avoid all of them.
    """
    global _reserved_cache
    if _reserved_cache is not None and repo is None:
        return _reserved_cache
    names: Set[str] = set(_FALLBACK_RESERVED)
    try:
        src = ((repo or REPO) / "aas_core_codegen" / "parse" / "_translate.py").read_text(encoding="utf-8")
        for node in ast.walk(ast.parse(src)):
            if isinstance(node, ast.FunctionDef) and node.name == "_verify_symbol_table":
                for sub in ast.walk(node):
                    if isinstance(sub, ast.Set):
                        for elt in sub.elts:
                            if isinstance(elt, ast.Constant) and isinstance(elt.value, str):
                                names.add(elt.value.lower())
    except (OSError, SyntaxError):
        pass
    if repo is None:
        _reserved_cache = names
    return names


def is_safe_name(name: str) -> bool:
    """True if ``name`` trips none of the reserved-name rules (types, members, constants, functions)."""
    low = name.lower()
    if low in reserved_names():
        return False
    if name.startswith("I_") or name.startswith("Must_"):
        return False
    if low.startswith("mutable"):
        return False
    if low.startswith("over") and (low.endswith("or_empty") or low.endswith("orempty")):
        return False
    return True


_WORDS = [
    "alpha", "bravo", "cedar", "dune", "ember", "fjord", "grove", "harbor", "iris", "jade", "kelp", "lotus",
    "maple", "nectar", "onyx", "pearl", "quartz", "raven", "sable", "tulip", "umber", "velvet", "willow", "xenon",
    "yarrow", "zephyr", "amber", "birch", "coral", "dahlia",
]


class _Names:
    """Allocator of fresh, safe, pairwise-distinct (also case-insensitively, also without ``_``) names."""

    def __init__(self, rng: random.Random) -> None:
        self.rng = rng
        self.used: Set[str] = set()

    def _key(self, n: str) -> str:
        return n.lower().replace("_", "")

    def fresh(self, prefix: str, capital: bool = False) -> str:
        for _ in range(1000):
            w = self.rng.choice(_WORDS)
            if self.rng.random() < 0.5:
                w = w + "_" + self.rng.choice(_WORDS)
            n = f"{prefix}_{w}" if prefix else w
            if capital:
                n = n[0].upper() + n[1:]
            if self._key(n) in self.used or not is_safe_name(n):
                continue
            self.used.add(self._key(n))
            return n
        raise RuntimeError("name space exhausted")


# =========================================================================== hierarchies


@dataclass(frozen=True)
class Hierarchy:
    """
    A class DAG on nodes ``0..n-1``: ``parents[i]`` are the bases of class ``i`` in declaration
    order of the ``class`` statement, ``abstract[i]`` its marker, ``order`` the order in which
    the classes are declared in the file (always a linear extension: bases first).
    ``mro_legal`` says whether CPython itself could create the classes (C3 linearisation
    succeeds); the front end does not care.
    """

    parents: Tuple[Tuple[int, ...], ...]
    abstract: Tuple[bool, ...]
    order: Tuple[int, ...]
    mro_legal: bool = True

    @property
    def n(self) -> int:
        return len(self.parents)


def _c3(parents: Sequence[Sequence[int]]) -> Optional[List[List[int]]]:
    """C3 linearisation of every node, or None if some class has no consistent MRO."""
    mro: Dict[int, List[int]] = {}

    def merge(seqs: List[List[int]]) -> Optional[List[int]]:
        res: List[int] = []
        seqs = [list(s) for s in seqs if s]
        while seqs:
            for s in seqs:
                head = s[0]
                if not any(head in t[1:] for t in seqs):
                    break
            else:
                return None
            res.append(head)
            seqs = [[x for x in s if x != head] for s in seqs]
            seqs = [s for s in seqs if s]
        return res

    for i in range(len(parents)):
        # nodes are topologically labelled: parents have smaller indices
        seqs = [mro[p] for p in parents[i]] + [list(parents[i])]
        if any(s is None for s in seqs):
            return None
        m = merge(seqs)  # type: ignore[arg-type]
        if m is None:
            return None
        mro[i] = [i] + m
    return [mro[i] for i in range(len(parents))]


def _canon(n: int, edges: frozenset, perms: Sequence[Tuple[int, ...]]) -> Tuple[Tuple[int, int], ...]:
    best = None
    for p in perms:
        e = tuple(sorted((p[a], p[b]) for a, b in edges))
        if best is None or e < best:
            best = e
    return best or ()


def dag_shapes(n: int) -> List[Tuple[Tuple[int, ...], ...]]:
    """
    All DAGs on ``n`` unlabelled nodes, one representative per isomorphism class, as parent
    tuples over a topological labelling (parents have smaller indices).  1, 2, 6, 31, 302 shapes
    for n = 1..5 (n = 6 has 5984 and takes about a minute).
    """
    pairs = [(a, b) for b in range(n) for a in range(b)]
    perms = list(itertools.permutations(range(n)))
    seen: Dict[Tuple[Tuple[int, int], ...], Tuple[Tuple[int, ...], ...]] = {}
    for mask in range(1 << len(pairs)):
        edges = frozenset(pairs[k] for k in range(len(pairs)) if mask >> k & 1)
        key = _canon(n, edges, perms)
        if key in seen:
            continue
        seen[key] = tuple(tuple(a for a in range(b) if (a, b) in edges) for b in range(n))
    return [seen[k] for k in sorted(seen)]


def _automorphisms(parents: Tuple[Tuple[int, ...], ...]) -> List[Tuple[int, ...]]:
    n = len(parents)
    edges = {(a, b) for b in range(n) for a in parents[b]}
    return [p for p in itertools.permutations(range(n)) if {(p[a], p[b]) for a, b in edges} == edges]


def legal_orders(parents: Sequence[Sequence[int]], limit: Optional[int] = None) -> List[Tuple[int, ...]]:
    """All declaration orders in which every class comes after its bases (linear extensions)."""
    n = len(parents)
    out: List[Tuple[int, ...]] = []

    def rec(prefix: List[int], placed: Set[int]) -> None:
        if limit is not None and len(out) >= limit:
            return
        if len(prefix) == n:
            out.append(tuple(prefix))
            return
        for i in range(n):
            if i not in placed and all(p in placed for p in parents[i]):
                prefix.append(i)
                placed.add(i)
                rec(prefix, placed)
                placed.discard(i)
                prefix.pop()

    rec([], set())
    return out


def enumerate_hierarchies(
    max_classes: int,
    abstract_mixes: bool = True,
    all_orders_up_to: int = 4,
    base_orders: bool = False,
) -> Iterator[Hierarchy]:
    """
    Every class-DAG shape on 1..``max_classes`` classes up to isomorphism (chains, trees,
    diamonds, multi-root forests, redundant "grandparent" edges), each with every
    abstract/concrete colouring up to the shape's automorphisms (``abstract_mixes``), and

    * for shapes with at most ``all_orders_up_to`` classes: in **every** Python-legal declaration
      order (linear extension),
    * for larger ones: in the first and the last linear extension.

    ``base_orders`` additionally yields every permutation of each multi-base list.
    Deterministic and seed-independent.  Counts (shapes): 1, 2, 6, 31, 302 for n = 1..5.
    """
    for n in range(1, max_classes + 1):
        for shape in dag_shapes(n):
            autos = _automorphisms(shape) if abstract_mixes else []
            colourings: List[Tuple[bool, ...]] = []
            if abstract_mixes:
                seen = set()
                for col in itertools.product((False, True), repeat=n):
                    key = min(tuple(col[p.index(i)] for i in range(n)) for p in autos)
                    if key in seen:
                        continue
                    seen.add(key)
                    colourings.append(tuple(col))
            else:
                colourings = [tuple(False for _ in range(n))]
            orders = legal_orders(shape)
            if n > all_orders_up_to:
                orders = [orders[0]] + ([orders[-1]] if len(orders) > 1 else [])
            variants = [shape]
            if base_orders:
                variants = [tuple(v) for v in itertools.product(*[list(itertools.permutations(ps)) for ps in shape])]
            for parents in variants:
                legal = _c3(parents) is not None
                for col in colourings:
                    for order in orders:
                        yield Hierarchy(parents=tuple(tuple(p) for p in parents), abstract=col, order=order, mro_legal=legal)


def hierarchy_to_mm(
    h: Hierarchy,
    props_per_class: int = 1,
    invariants: bool = True,
    holder: bool = False,
    with_model_type: Optional[str] = "roots",
) -> MM:
    """
    A meta-model realising ``h``: classes ``Klass_a, Klass_b, ...`` (index order), each with
    ``props_per_class`` own ``str`` properties ``p_<class letter><k>`` and (``invariants``) one
    own invariant; declared in ``h.order``.

    ``with_model_type``: ``"roots"`` puts ``@serialization(with_model_type=True)`` on every root
    (inherited by all), ``"all"`` on every class, ``None`` nowhere.  ``holder`` adds a concrete
    class ``Holder`` with one optional property per class (forces model-type dispatch; needs
    ``with_model_type``).
    """
    letters = "abcdefghijklmnopqrstuvwxyz"
    names = [f"Klass_{letters[i]}" for i in range(h.n)]
    classes = []
    for i in range(h.n):
        props = [Prop(f"p_{letters[i]}{k}", Prim("str")) for k in range(props_per_class)]
        invs = []
        if invariants and props:
            invs.append(Invariant(f"Property {props[0].name} of {names[i]} is not empty.", Comparison(length(prop(props[0].name)), ">", Constant(0))))
        wmt = None
        if with_model_type == "all" or (with_model_type == "roots" and not h.parents[i]):
            wmt = True
        classes.append(Class(names[i], bases=[names[p] for p in h.parents[i]], abstract=h.abstract[i], props=props, invariants=invs, with_model_type=wmt))
    order = [names[i] for i in h.order]
    if holder:
        classes.append(Class("Holder", props=[Prop(f"h_{letters[i]}", OptionalOf(Ref(names[i]))) for i in range(h.n)]))
        order.append("Holder")
    return MM(classes=classes, order=order)


# =========================================================================== safe regex grammar

_ATOMS = ["a", "b", "x", "0", "9", "-", "_", "[a-z]", "[A-Z]", "[0-9]", "[a-zA-Z0-9]", "[a-f0-9]", r"\.", r"\+", "[^a-c]", "[a-z_]"]


def safe_pattern(rng: random.Random, depth: int = 2) -> str:
    """
    An anchored pattern ``^...$`` from a small grammar every back end can digest: literals,
    simple character classes, escaped ``.``/``+``, groups with ``|``, greedy quantifiers
    ``* + ? {m} {m,n}``; never empty, no inner anchors, no non-greedy quantifiers, no quantified
    group that can match the empty string (the C++ VM loops on those).
    """

    def atom(d: int) -> Tuple[str, bool]:
        """-> (text, can match empty)"""
        if d > 0 and rng.random() < 0.3:
            alts = [seq(d - 1, nonempty=True) for _ in range(rng.randint(1, 3))]
            return "(" + "|".join(a for a in alts) + ")", False
        return rng.choice(_ATOMS), False

    def quantified(d: int) -> Tuple[str, bool]:
        text, _ = atom(d)
        r = rng.random()
        if r < 0.5:
            return text, False
        q = rng.choice(["*", "+", "?", "{2}", "{1,3}", "{0,2}", "{2,}"])
        return text + q, q in ("*", "?", "{0,2}")

    def seq(d: int, nonempty: bool) -> str:
        for _ in range(50):
            items = [quantified(d) for _ in range(rng.randint(1, 4))]
            if not nonempty or not all(e for _, e in items):
                return "".join(t for t, _ in items)
        return "a"

    return "^" + seq(depth, nonempty=True) + "$"


def sample_match(pattern: str, rng: random.Random, max_repeat: int = 3) -> Optional[str]:
    """
    A string matching ``pattern`` (Python ``re`` semantics), generated from the pattern's parse
    tree; None if the pattern uses a construct the sampler does not know.  The result is
    verified with ``re.fullmatch``-like anchoring by the caller where it matters.
    """
    try:
        import re._parser as sre_parse  # type: ignore
        import re._constants as sre_c  # type: ignore
    except ImportError:  # pragma: no cover
        import sre_parse  # type: ignore
        import sre_constants as sre_c  # type: ignore

    try:
        tree = sre_parse.parse(pattern)
    except re.error:
        return None

    def from_in(items: Any) -> Optional[str]:
        negate = False
        cands: List[int] = []
        for op, av in items:
            if op is sre_c.NEGATE:
                negate = True
            elif op is sre_c.LITERAL:
                cands.append(av)
            elif op is sre_c.RANGE:
                lo, hi = av
                cands.extend({lo, hi, (lo + hi) // 2, rng.randint(lo, hi)})
            elif op is sre_c.CATEGORY:
                cands.extend(ord(c) for c in {sre_c.CATEGORY_DIGIT: "07", sre_c.CATEGORY_SPACE: " \t", sre_c.CATEGORY_WORD: "a_Z5"}.get(av, ""))
                if av in (sre_c.CATEGORY_NOT_DIGIT, sre_c.CATEGORY_NOT_SPACE, sre_c.CATEGORY_NOT_WORD):
                    cands.extend(ord(c) for c in "-!")
            else:
                return None
        if not negate:
            return chr(rng.choice(cands)) if cands else None
        for c in "azAZ09_-. !é\U0001F600":
            if re.fullmatch(_in_to_class(items), c):
                return c
        return None

    def _in_to_class(items: Any) -> str:
        parts = []
        for op, av in items:
            if op is sre_c.NEGATE:
                parts.append("^")
            elif op is sre_c.LITERAL:
                parts.append(re.escape(chr(av)))
            elif op is sre_c.RANGE:
                parts.append(re.escape(chr(av[0])) + "-" + re.escape(chr(av[1])))
        return "[" + "".join(parts) + "]"

    def gen(seq: Any) -> Optional[str]:
        out = []
        for op, av in seq:
            if op is sre_c.LITERAL:
                out.append(chr(av))
            elif op is sre_c.NOT_LITERAL:
                out.append("b" if av == ord("a") else "a")
            elif op is sre_c.ANY:
                out.append(rng.choice("ax0 -"))
            elif op is sre_c.IN:
                s = from_in(av)
                if s is None:
                    return None
                out.append(s)
            elif op in (sre_c.MAX_REPEAT, sre_c.MIN_REPEAT):
                lo, hi, sub = av
                hi = min(hi, lo + max_repeat) if hi is not sre_c.MAXREPEAT else lo + max_repeat
                for _ in range(rng.randint(lo, hi)):
                    s = gen(sub)
                    if s is None:
                        return None
                    out.append(s)
            elif op is sre_c.SUBPATTERN:
                s = gen(av[3])
                if s is None:
                    return None
                out.append(s)
            elif op is sre_c.BRANCH:
                s = gen(rng.choice(av[1]))
                if s is None:
                    return None
                out.append(s)
            elif op is sre_c.AT:
                continue
            else:
                return None
        return "".join(out)

    return gen(tree)


# =========================================================================== features


@dataclass
class Features:
    """
    Toggles of ``random_mm``.

    The defaults give models that the front end accepts *and* that stay clear of the generator
    assertions / unsupported corners known on the pinned tree (the "hazard" flags, all off), so
    that the bulk of the default models reaches deep into every back end.  ``Features.everything()``
    switches every flag on to hunt those defects; every hazard flag names the defect it provokes.
    """

    inheritance: bool = True            #: class DAGs (chains, multi-root, multiple bases)
    diamonds: bool = True               #: multiple bases may share an ancestor (NOTE: with a pattern-constrained inherited property the
                                        #: jsonschema generator asserts in tightening_steps_from_other_to_that_constraints)
    constrained_primitives: bool = True  #: constrained primitives incl. inheritance chains
    enums: bool = True
    constants: bool = True              #: primitive constants (bool/int/float/str)
    constant_sets: bool = True          #: sets of str/int/float/bool and of enumeration literals, ``superset_of`` chains
    pattern_functions: bool = True      #: ``@verification`` pattern functions, anchored, safe grammar
    transpilable_functions: bool = True  #: simple understood verification functions
    impl_specific: bool = False         #: implementation-specific methods and verification functions
    descriptions: bool = True           #: docstrings incl. resolvable references
    schema_invariants: bool = True      #: recognised forms: len bounds (both operand orders, guards), pattern, set membership
    general_invariants: bool = True     #: other well-typed boolean invariants
    quantifiers: bool = True            #: ``all``/``any`` over ``ForEach``/``ForRange`` in invariants
    class_props: bool = True            #: properties typed with classes (abstract ones: concrete descendants are chosen)
    lists: bool = True                  #: ``List[...]`` properties
    boundary_values: bool = True        #: awkward printable-ASCII literal values ("", quotes, backslash, braces, ``*/``, long)
    # ---- hazards (off by default; each one is tied to a defect or unsupported corner of the pinned tree)
    non_ascii_values: bool = False      #: non-ASCII / astral literal values: cpp generator raises ViolationError
    control_char_values: bool = False   #: CR, LF, TAB, NUL, DEL, U+0085 in literal values: xsd generator raises ExpatError
    huge_ints: bool = False             #: ints > 2**53 (typescript reports an error), > 2**63-1 (cpp, golang report errors)
    lists_of_non_classes: bool = False  #: ``List[str|int|enum|constrained]``: cpp/java generators assert
    nested_lists: bool = False          #: ``List[List[T]]``
    len_bounds_admitting_zero: bool = False  #: ``len(x) >= 0`` etc.: LenConstraint precondition (DESIGN 7 #4)
    crossing_len_bounds: bool = False   #: contradictory bounds on one property (reported as error, or crash across parent/child)
    len_of_bytes: bool = False          #: ``len(self.some_bytes)``: java reports "do not know how to compute the length"
    len_of_constrained: bool = False    #: ``len(self.p)`` with ``p`` typed by a constrained primitive: java reports an error
    arithmetic_on_constrained: bool = False  #: ``self.p + 1`` with ``p`` a constrained int: rejected by the type checker (all SDK targets)
    duplicate_enum_values: bool = False  #: two literals with the same value: ViolationError in intermediate.translate
    guards_on_other_property: bool = False  #: ``self.a is None or len(self.b) < 5`` (misread by the schema inference)
    joined_str_in_invariants: bool = False  #: f-strings inside invariants
    local_variables_in_functions: bool = False  #: assignments in transpilable functions: cpp asserts, golang/java report errors
    abstract_without_concrete_descendants: bool = False  #: as a property type: refused by the front end (repair of C11-F1); otherwise golang/python/typescript report an error
    descendants_without_model_type: bool = False  #: class with concrete descendants but no with_model_type: jsonschema asserts
    classes_without_properties: bool = False  #: python jsonization raises ViolationError (empty setter)
    undocumented_classes: bool = False  #: a class without docstring, with >= 2 bases, that gets an interface: java raises ViolationError
    tautologies_after_narrowing: bool = False  #: ``x is None or x is not None``: rejected by the type checker
    multiple_patterns_per_value: bool = False  #: two pattern constraints on one value: xsd intersects them with greenery (minutes, or "digit escaping" error)
    impl_specific_classes: bool = False  #: ``@implementation_specific`` classes: csharp asserts, java raises ViolationError, cpp reports an error
    two_argument_methods: bool = False  #: a method with exactly two arguments: csharp/java/typescript generators assert (``len(arg_codes) > 2`` / ``== 1`` / else)

    HAZARDS = (
        "non_ascii_values", "control_char_values", "huge_ints", "lists_of_non_classes", "nested_lists",
        "len_bounds_admitting_zero", "crossing_len_bounds", "len_of_bytes", "len_of_constrained",
        "arithmetic_on_constrained", "duplicate_enum_values", "guards_on_other_property", "joined_str_in_invariants",
        "local_variables_in_functions", "abstract_without_concrete_descendants", "descendants_without_model_type",
        "classes_without_properties", "undocumented_classes", "tautologies_after_narrowing", "multiple_patterns_per_value",
        "impl_specific_classes", "two_argument_methods",
    )

    @staticmethod
    def everything() -> "Features":
        f = Features()
        for fld in dataclasses.fields(f):
            setattr(f, fld.name, True)
        return f

    @staticmethod
    def minimal() -> "Features":
        f = Features()
        for fld in dataclasses.fields(f):
            setattr(f, fld.name, False)
        return f

    @staticmethod
    def hierarchy_only() -> "Features":
        f = Features.minimal()
        f.inheritance = True
        return f


# =========================================================================== value pools

STR_PLAIN = ["a", "abc", "Some value", "x y", "A-1", "value_2"]
STR_BOUNDARY = ["", "a", '"', "'", "\\", "say \"hi\"", " ", "{x}", "$", "*/", "<&>", "%s", "ab" * 20]
STR_NON_ASCII = ["ä", "日本", "\U0001F600", "é", " "]
STR_CONTROL = ["a\rb", "a\nb", "\t", "\x00", "\x7f", "\u0085", "\x1b"]
INT_VALUES = [0, 1, 2, 7, 255, 2**31 - 1, 2**31, 2**53]
INT_HUGE = [2**53 + 1, 2**63 - 1, 2**63, 2**64, 10**30]
FLOAT_VALUES = [0.0, 0.5, 1.0, 1.5, 1e-9, 123456.789, 1e22, 1.7976931348623157e308, 5e-324, 0.1]


# =========================================================================== random meta-models


@dataclass
class _Atom:
    """A usable sub-expression of an invariant with its run-time kind."""

    expr: Expr
    kind: str          #: 'int' 'float' 'str' 'bool' 'bytes' or 'enum:<name>'
    constrained: bool  #: typed by a constrained primitive (no arithmetic, ``len`` only under a flag)
    const: bool = False  #: a meta-model constant (never the only ingredient of a comparison)


class _Gen:
    """State of one ``random_mm`` run."""

    def __init__(self, rng: random.Random, size: int, ft: Features) -> None:
        self.rng = rng
        self.size = max(1, size)
        self.ft = ft
        self.names = _Names(rng)
        self.mm = MM()
        self.desc_counter = 0
        #: length window (lo, hi) promised so far, per ("", property name) / (constrained primitive, "self")
        self.len_window: Dict[Tuple[str, str], Tuple[int, int]] = {}
        #: keys (as for ``len_window``) that already carry a pattern constraint
        self.has_pattern: Set[Tuple[str, str]] = set()

    # ---- helpers

    def chance(self, p: float) -> bool:
        return self.rng.random() < p

    def pick(self, xs: Sequence[Any]) -> Any:
        return xs[self.rng.randrange(len(xs))]

    def str_pool(self) -> List[str]:
        ft = self.ft
        pool = list(STR_PLAIN)
        if ft.boundary_values:
            pool += STR_BOUNDARY
        if ft.non_ascii_values:
            pool += STR_NON_ASCII
        if ft.control_char_values:
            pool += STR_CONTROL
        return list(dict.fromkeys(pool))

    def str_value(self) -> str:
        if self.chance(0.4):
            return self.pick(STR_PLAIN)
        return self.pick(self.str_pool())

    def description(self, what: str, refs: Sequence[str] = (), always: bool = False) -> Optional[str]:
        if not self.ft.descriptions:
            return None
        if not always and self.chance(0.4):
            return None
        text = f"Represent {what}."
        if refs and self.chance(0.6):
            text = f"Represent {what}, see {self.pick(list(refs))}."
        if self.chance(0.25):
            text += "\n\nThis is a remark with *emphasis* and ``literal`` text."
        return text

    # ---- enumerations

    def gen_enums(self) -> None:
        if not self.ft.enums:
            return
        for _ in range(self.rng.randint(0, max(1, self.size // 2))):
            name = self.names.fresh("", capital=True)
            values: List[str] = []
            lits = []
            for _k in range(self.rng.randint(1, 4)):
                v = self.str_value()
                if v in values and not self.ft.duplicate_enum_values:
                    v = v + str(len(values))
                    if v in values:
                        continue
                values.append(v)
                # the "Lit_" prefix keeps <Enum><Literal> apart from every class name after case conversion
                lits.append(EnumLiteral(self.names.fresh("Lit", capital=True), v, self.description("a literal")))
            self.mm.enums.append(Enum(name, lits, self.description("an enumeration")))

    # ---- verification functions

    def gen_functions(self) -> None:
        ft = self.ft
        if ft.pattern_functions:
            for _ in range(self.rng.randint(1, 3)):
                pat = safe_pattern(self.rng)
                name = self.names.fresh("matches")
                style = self.pick(["fstring", "plain", "inline", "vars"])
                if style == "vars":
                    fn = PatternFn(name, parts=("^", PVar("body")), variables=[("body", (pat[1:],))])
                    assert fn.pattern == pat
                else:
                    fn = PatternFn(name, parts=(pat,), style=style)
                fn.arg = self.pick(["text", "value"])
                if ft.descriptions and self.chance(0.5):
                    fn.description = f"Check that :paramref:`{fn.arg}` matches the pattern.\n\n:param {fn.arg}: to be checked\n:returns: True if it matches"
                self.mm.verification_functions.append(fn)
        if ft.transpilable_functions and self.chance(0.7):
            for _ in range(self.rng.randint(1, 2)):
                kinds = ["int_lt", "str_len", "str_eq", "float_cmp"] + (["local_var"] if ft.local_variables_in_functions else [])
                kind = self.pick(kinds)
                name = self.names.fresh("is")
                if kind == "int_lt":
                    fn2 = TranspilableFn(name, [Arg("value", Prim("int"))], Prim("bool"), [Return(Comparison(Name("value"), self.pick(["<", "<=", ">", ">="]), Constant(self.rng.randint(0, 100))))])
                elif kind == "str_len":
                    fn2 = TranspilableFn(name, [Arg("text", Prim("str"))], Prim("bool"), [Return(Comparison(length(Name("text")), self.pick(["<", "<=", ">", ">=", "==", "!="]), Constant(self.rng.randint(0, 10))))])
                elif kind == "str_eq":
                    fn2 = TranspilableFn(name, [Arg("text", Prim("str"))], Prim("bool"), [Return(Comparison(Name("text"), self.pick(["==", "!="]), Constant(self.pick(STR_PLAIN))))])
                elif kind == "float_cmp":
                    fn2 = TranspilableFn(name, [Arg("value", Prim("float"))], Prim("bool"), [Return(Comparison(Name("value"), self.pick(["<", ">="]), Constant(self.pick([0.5, 1.5, 100.0]))))])
                else:
                    fn2 = TranspilableFn(name, [Arg("value", Prim("float"))], Prim("bool"), [Assign("limit", Constant(self.pick([0.5, 1.5, 100.0]))), Return(Comparison(Name("value"), "<", Name("limit")))])
                if ft.descriptions and self.chance(0.5):
                    a = fn2.args[0].name
                    fn2.description = f"Check :paramref:`{a}`.\n\n:param {a}: to be checked\n:returns: True if fine"
                self.mm.verification_functions.append(fn2)
        if ft.impl_specific and self.chance(0.6):
            name = self.names.fresh("check")
            desc = "Check the :paramref:`text` in a way only the implementation knows.\n\n:param text: to be checked\n:returns: True if fine"
            self.mm.verification_functions.append(ImplSpecificFn(name, [Arg("text", Prim("str"))], Prim("bool"), desc if ft.descriptions else None))

    def fns(self, kind: type) -> List[Any]:
        return [f for f in self.mm.verification_functions if isinstance(f, kind)]

    # ---- constants

    def gen_constants(self) -> None:
        ft = self.ft
        ints = INT_VALUES + (INT_HUGE if ft.huge_ints else [])
        if ft.constants:
            for _ in range(self.rng.randint(0, 4)):
                t = self.pick(["bool", "int", "float", "str"])
                v: Any
                if t == "bool":
                    v = self.chance(0.5)
                elif t == "int":
                    v = self.pick(ints)
                elif t == "float":
                    v = self.pick(FLOAT_VALUES)
                else:
                    v = self.str_value()
                self.mm.constants.append(ConstantPrimitive(self.names.fresh("", capital=True), t, v, self.description("a constant")))
        if ft.constant_sets:
            for _ in range(self.rng.randint(0, 3)):
                kinds = ["str", "str", "int"] + (["float", "bool"] if self.chance(0.2) else []) + (["enum"] if self.mm.enums else [])
                kind = self.pick(kinds)
                pool: List[Any]
                if kind == "str":
                    pool, item = self.str_pool(), "str"
                elif kind == "int":
                    pool, item = list(ints), "int"
                elif kind == "float":
                    pool, item = list(FLOAT_VALUES), "float"
                elif kind == "bool":
                    pool, item = [True, False], "bool"
                else:
                    e = self.pick(self.mm.enums)
                    if not e.literals:
                        continue
                    pool, item = [lit.name for lit in e.literals], e.name
                self.rng.shuffle(pool)
                values: List[Any] = []
                prev: Optional[ConstantSet] = None
                for _k in range(self.rng.randint(1, 3)):  # a superset_of chain: every set contains the previous one
                    take = self.rng.randint(1, 3)
                    while take and pool:
                        values.append(pool.pop())
                        take -= 1
                    listed = list(values)
                    self.rng.shuffle(listed)
                    cs = ConstantSet(self.names.fresh("", capital=True), item, listed, superset_of=[prev.name] if prev else [], description=self.description("a set of values"))
                    self.mm.constant_sets.append(cs)
                    prev = cs

    def sets_of(self, item: str) -> List[ConstantSet]:
        return [s for s in self.mm.constant_sets if s.item_type == item]

    # ---- constrained primitives

    def gen_constrained(self) -> None:
        if not self.ft.constrained_primitives:
            return
        for _ in range(self.rng.randint(0, max(1, self.size // 2))):
            base = self.pick(["str", "str", "str", "int", "float", "bytes", "bool"])
            prev: List[str] = []
            for _k in range(self.rng.randint(1, 3)):
                name = self.names.fresh("", capital=True)
                bases: List[str] = [prev[-1]] if prev else []
                cp = ConstrainedPrimitive(name, base, bases=bases, description=self.description("a constrained primitive"))
                self.mm.constrained_primitives.append(cp)
                if prev and (prev[-1], "self") in self.len_window:
                    self.len_window[(name, "self")] = self.len_window[(prev[-1], "self")]
                if prev and (prev[-1], "self") in self.has_pattern:
                    self.has_pattern.add((name, "self"))
                for _i in range(self.rng.randint(0, 2)):
                    e = self.cp_invariant(cp)
                    if e is not None:
                        cp.invariants.append(Invariant(self.inv_description(name), e))
                prev.append(name)

    def inv_description(self, owner: str) -> str:
        self.desc_counter += 1
        base = f"Constraint {self.desc_counter} of {owner}"
        if self.ft.boundary_values and self.chance(0.15):
            base += self.pick([': must hold "always".', ": a\\b", ": 100%", ": {x}", ": it's */ so"])
        if self.ft.non_ascii_values and self.chance(0.15):
            base += self.pick([" — né?", " \U0001F600"])
        return base

    def len_bound(self, key: Tuple[str, str], subject: Expr, allow_min: bool = True) -> Optional[Expr]:
        """
        A recognised length comparison on ``subject`` (random operator, random operand order)
        that keeps the window promised so far for ``key`` satisfiable; None if nothing fits.
        Without ``len_bounds_admitting_zero`` every constant is such that the bound excludes 0
        or is an upper bound only.
        """
        ft = self.ft
        known = key in self.len_window
        lo, hi = self.len_window.get(key, (0, 10**6))
        if ft.crossing_len_bounds and self.chance(0.3):
            lo, hi = 0, 10**6
        floor = 0 if ft.len_bounds_admitting_zero else 1
        low = max(lo, floor)
        form = self.pick(["min", "max", "exact", "min", "max"]) if allow_min else "max"
        e: Comparison
        if form == "exact":
            if known and not ft.crossing_len_bounds:
                return None  # a second exact length (even an equal one) is reported as a contradiction
            n = self.rng.randint(low, min(hi, low + 6))
            new = (n, n)
            e = Comparison(length(subject), "==", Constant(n)) if self.chance(0.7) else Comparison(Constant(n), "==", length(subject))
        elif form == "min":
            n = self.rng.randint(low, min(hi, low + 4))
            new = (n, hi)
            e = self.pick([
                Comparison(length(subject), ">=", Constant(n)),
                Comparison(length(subject), ">", Constant(n - 1)),
                Comparison(Constant(n), "<=", length(subject)),
                Comparison(Constant(n - 1), "<", length(subject)),
            ])
        else:
            n = self.rng.randint(low, min(hi, low + 12))
            new = (lo, n)
            e = self.pick([
                Comparison(length(subject), "<=", Constant(n)),
                Comparison(length(subject), "<", Constant(n + 1)),
                Comparison(Constant(n), ">=", length(subject)),
                Comparison(Constant(n + 1), ">", length(subject)),
            ])
        if any(isinstance(c, Constant) and c.value < 0 for c in (e.left, e.right)):
            return None
        self.len_window[key] = (max(new[0], lo), min(new[1], hi))
        return e

    def cp_invariant(self, cp: ConstrainedPrimitive) -> Optional[Expr]:
        base, ft = cp.base, self.ft
        options: List[str] = []
        if (base == "str" or (base == "bytes" and ft.len_of_bytes)) and ft.schema_invariants and (not cp.bases or ft.len_of_constrained):
            options.append("len")  # NOTE: java cannot compute ``len(self)`` in a *derived* constrained primitive
        if base == "str":
            if self.fns(PatternFn) and ft.schema_invariants and ((cp.name, "self") not in self.has_pattern or ft.multiple_patterns_per_value):
                options.append("pattern")
            if self.sets_of("str") and ft.schema_invariants:
                options.append("set")
            if ft.general_invariants:
                options.append("str_ne")
        if base in ("int", "float") and ft.general_invariants:
            options.append("num")
        if base == "bool" and ft.general_invariants:
            options.append("bool")
        if not options:
            return None
        kind = self.pick(options)
        if kind == "len":
            return self.len_bound((cp.name, "self"), SELF)
        if kind == "pattern":
            self.has_pattern.add((cp.name, "self"))
            return FunctionCall(self.pick(self.fns(PatternFn)).name, (SELF,))
        if kind == "set":
            return IsIn(SELF, Name(self.pick(self.sets_of("str")).name))
        if kind == "str_ne":
            return Comparison(SELF, "!=", Constant(self.pick(STR_PLAIN)))
        if kind == "num":
            c = Constant(self.rng.randint(0, 100)) if base == "int" else Constant(self.pick([0.0, 0.5, 100.0]))
            return Comparison(SELF, self.pick([">", ">=", "<", "<=", "!="]), c)
        return self.pick([SELF, Or((SELF, Not(SELF)))])

    # ---- classes

    def gen_classes(self) -> None:
        ft, rng = self.ft, self.rng
        n = self.size
        names = [self.names.fresh("", capital=True) for _ in range(n)]
        parents: List[List[int]] = []
        for i in range(n):
            ps: List[int] = []
            if ft.inheritance and i > 0 and self.chance(0.6):
                k = 1 if self.chance(0.7) else 2
                ps = sorted(rng.sample(range(i), min(k, i)))
                if k == 2 and ft.diamonds and self.chance(0.5):
                    # prefer a diamond: two unrelated classes with a common ancestor
                    pairs = [(a, b) for a in range(i) for b in range(a + 1, i)
                             if _anc_idx(parents, a) & _anc_idx(parents, b) and a not in _anc_idx(parents, b) and b not in _anc_idx(parents, a)]
                    if pairs:
                        ps = list(self.pick(pairs))
                # keep CPython able to build the class: drop a base that is an ancestor of another base
                ps = [p for p in ps if not any(p in _anc_idx(parents, q) for q in ps if q != p)]
                if len(ps) == 2 and not ft.diamonds and (_anc_idx(parents, ps[0]) & _anc_idx(parents, ps[1])):
                    ps = ps[:1]
            parents.append(ps)
        abstract = [self.chance(0.4) for _ in range(n)]
        if not ft.abstract_without_concrete_descendants:
            for i in range(n):
                desc = [j for j in range(n) if i in _anc_idx(parents, j)]
                if abstract[i] and not any(not abstract[j] for j in desc):
                    leaves = [j for j in desc if not any(j in parents[k] for k in range(n))]
                    abstract[self.pick(leaves) if leaves else i] = False
        for i in range(n):
            self.mm.classes.append(Class(names[i], bases=[names[p] for p in parents[i]], abstract=abstract[i]))
        for i in range(n):
            self.gen_props(i)
        self.fix_model_types()
        if ft.impl_specific_classes:
            loners = [c for c in self.mm.classes if not c.bases and not c.abstract and not descendants(self.mm, c.name)]
            if loners and self.chance(0.5):
                self.pick(loners).impl_specific = True
        if ft.impl_specific:
            self.gen_methods()
        for c in self.mm.classes:
            refs = [f":class:`{self.pick(self.mm.classes).name}`"] + ([f":attr:`{c.props[0].name}`"] if c.props else [])
            c.description = self.description("a thing", refs=refs, always=not ft.undocumented_classes)
            self.gen_invariants(c)

    def instantiable(self) -> Set[str]:
        """Names of the concrete classes for which a finite instance certainly exists."""
        mm = self.mm
        ok: Set[str] = set()
        changed = True
        while changed:
            changed = False
            for c in mm.classes:
                if c.name in ok or c.abstract:
                    continue
                good = True
                for p, _ in all_props(mm, c.name):
                    t = p.type
                    if isinstance(t, Ref) and isinstance(mm.find(t.name), Class):
                        if not any(d in ok for d in [t.name] + descendants(mm, t.name)):
                            good = False
                if good:
                    ok.add(c.name)
                    changed = True
        return ok

    def base_type(self, for_list: bool) -> Optional[Type]:
        ft = self.ft
        kinds = ["prim"] * 4
        if self.mm.enums:
            kinds.append("enum")
        if self.mm.constrained_primitives:
            kinds += ["cp", "cp"]
        if ft.class_props:
            kinds += ["class", "class"]
        if for_list:
            kinds = (["class"] * 3 if ft.class_props else []) + (kinds if ft.lists_of_non_classes else [])
            if not kinds:
                return None
        k = self.pick(kinds)
        if k == "prim":
            return Prim(self.pick(["str", "str", "int", "float", "bool", "bytes"]))
        if k == "enum":
            return Ref(self.pick(self.mm.enums).name)
        if k == "cp":
            return Ref(self.pick(self.mm.constrained_primitives).name)
        return Ref(self.pick(self.mm.classes).name)

    def gen_props(self, i: int) -> None:
        c = self.mm.classes[i]
        count = self.rng.randint(0, 4)
        if count == 0 and not self.ft.classes_without_properties and not all_props(self.mm, c.name):
            count = 1
        for _ in range(count):
            t: Optional[Type]
            if self.ft.lists and self.chance(0.3):
                item = self.base_type(for_list=True)
                if item is None:
                    continue
                if self.ft.nested_lists and self.chance(0.2):
                    item = ListOf(item)
                t = ListOf(item)
                if self.chance(0.5):
                    t = OptionalOf(t)
            else:
                t = self.base_type(for_list=False)
                assert t is not None
                required_class = isinstance(t, Ref) and isinstance(self.mm.find(t.name), Class)
                if self.chance(0.45):
                    t = OptionalOf(t)
                elif required_class:
                    # a required class-typed property must not make any class uninstantiable (mutual
                    # required references admit no finite instance): try it, take it back if it does
                    before = self.instantiable()
                    probe = Prop("probe_only", t)
                    c.props.append(probe)
                    after = self.instantiable()
                    c.props.remove(probe)
                    if not before <= after:
                        t = OptionalOf(t)
            c.props.append(Prop(self.names.fresh(""), t, self.description("a property")))

    def fix_model_types(self) -> None:
        """Set ``with_model_type`` where the front end (and the JSON schema generator) demand it, consistently."""
        mm = self.mm
        need: Set[str] = set()

        def refs(t: Type) -> Iterator[str]:
            if isinstance(t, Ref):
                yield t.name
            elif isinstance(t, (ListOf, OptionalOf)):
                yield from refs(t.item)

        for c in mm.classes:
            for p in c.props:
                for r in refs(p.type):
                    if isinstance(mm.find(r), Class) and concrete_descendants(mm, r):
                        need.add(r)
                        need.update(concrete_descendants(mm, r))
        if not self.ft.descendants_without_model_type:
            for c in mm.classes:
                if concrete_descendants(mm, c.name):
                    need.add(c.name)
                    need.update(concrete_descendants(mm, c.name))
        # close over the inheritance relation (both directions) so that no explicit value can contradict
        comp = set(need)
        changed = True
        while changed:
            changed = False
            for c in mm.classes:
                rel = set(c.bases)
                if (c.name in comp and not rel <= comp) or (rel & comp and c.name not in comp):
                    comp |= rel | {c.name}
                    changed = True
        explicit_everywhere = self.chance(0.5)
        for c in mm.classes:
            if c.name in comp and (explicit_everywhere or not c.bases):
                c.with_model_type = True
        # sprinkle the setting on unrelated stand-alone classes as well
        for c in mm.classes:
            if c.name not in comp and not c.bases and not descendants(mm, c.name) and self.chance(0.15):
                c.with_model_type = self.chance(0.7)

    def gen_methods(self) -> None:
        mm = self.mm
        # a method reaching a class along two base paths is rejected (diamond): find the unsafe owners
        unsafe: Set[str] = set()
        for d in mm.classes:
            if len(d.bases) >= 2:
                sets = [set(ancestors(mm, b)) | {b} for b in d.bases]
                for a, b in itertools.combinations(sets, 2):
                    unsafe |= a & b
        for c in mm.classes:
            if c.name in unsafe or not self.chance(0.3):
                continue
            kind = self.pick(["bool", "int", "opt_str"])
            ret: Type = {"bool": Prim("bool"), "int": Prim("int"), "opt_str": OptionalOf(Prim("str"))}[kind]
            nargs = self.pick([0, 0, 1, 3] + ([2, 2] if self.ft.two_argument_methods else []))
            args = [Arg(self.names.fresh("arg"), self.pick([Prim("int"), Prim("str"), OptionalOf(Prim("bool"))])) for _ in range(nargs)]
            desc = None
            if self.ft.descriptions:
                desc = "Compute something implementation-specific." + "".join(f"\n\n:param {a.name}: an argument" if i == 0 else f"\n:param {a.name}: an argument" for i, a in enumerate(args))
            c.methods.append(Method(self.names.fresh("compute"), args, ret, impl_specific=True, description=desc))

    # ---- invariants of classes

    def gen_invariants(self, c: Class) -> None:
        ft = self.ft
        props = [p for p, _ in all_props(self.mm, c.name)]
        if not props:
            return
        for _ in range(self.rng.randint(0, 3)):
            e: Optional[Expr] = None
            if ft.schema_invariants and (not ft.general_invariants or self.chance(0.5)):
                e = self.schema_invariant(c, props)
            elif ft.general_invariants:
                e = self.general_invariant(c, props)
            if e is not None:
                c.invariants.append(Invariant(self.inv_description(c.name), e))

    def guard(self, p: Prop, body: Expr, other: Optional[Prop] = None) -> Expr:
        """Wrap ``body`` (which dereferences optional ``p``) into one of the two recognised guard forms."""
        g = prop((other or p).name)
        if self.chance(0.5):
            return Implication(IsNotNone(g), body)
        return Or((IsNone(g), body))

    def prim_of(self, t: Type) -> Optional[str]:
        """The primitive a value of type ``t`` is at run time (through constrained primitives), else None."""
        t = beneath_optional(t)
        if isinstance(t, Prim):
            return t.name
        if isinstance(t, Ref):
            x = self.mm.find(t.name)
            if isinstance(x, ConstrainedPrimitive):
                return x.base
        return None

    def is_cp(self, t: Type) -> bool:
        t = beneath_optional(t)
        return isinstance(t, Ref) and isinstance(self.mm.find(t.name), ConstrainedPrimitive)

    def len_allowed(self, t: Type) -> bool:
        """May ``len(<value of type t>)`` be written without provoking a known unsupported corner?"""
        pr = self.prim_of(t)
        if self.is_cp(t) and not self.ft.len_of_constrained:
            return False
        if pr == "bytes" and not self.ft.len_of_bytes:
            return False
        return pr in ("str", "bytes") or isinstance(beneath_optional(t), ListOf)

    def item_reaches(self, t: Type, owner: str) -> bool:
        """Can a value of (list) type ``t`` contain, however deep, an instance of ``owner`` or a relative of it?"""
        mm = self.mm
        related = {owner} | set(ancestors(mm, owner)) | set(descendants(mm, owner))

        def refs(x: Type) -> Iterator[str]:
            if isinstance(x, Ref):
                if isinstance(mm.find(x.name), Class):
                    yield x.name
            elif isinstance(x, (ListOf, OptionalOf)):
                yield from refs(x.item)

        seen: Set[str] = set()
        stack = list(refs(t))
        while stack:
            n = stack.pop()
            for k in [n] + descendants(mm, n):
                if k in seen:
                    continue
                seen.add(k)
                if k in related:
                    return True
                for q, _ in all_props(mm, k):
                    stack.extend(refs(q.type))
        return False

    def schema_invariant(self, c: Class, props: List[Prop]) -> Optional[Expr]:
        cands: List[Tuple[str, Prop]] = []
        for p in props:
            t = beneath_optional(p.type)
            pr = self.prim_of(t)
            if self.len_allowed(t):
                cands.append(("len", p))
            if pr == "str":
                patterned = ("", p.name) in self.has_pattern or (isinstance(t, Ref) and (t.name, "self") in self.has_pattern)
                if self.fns(PatternFn) and (not patterned or self.ft.multiple_patterns_per_value):
                    cands.append(("pattern", p))
                if self.sets_of("str"):
                    cands.append(("set", p))
            elif pr in ("int", "float", "bool") and self.sets_of(pr):
                cands.append(("set", p))
            elif isinstance(t, Ref) and isinstance(self.mm.find(t.name), Enum) and self.sets_of(t.name):
                cands.append(("set", p))
        if not cands:
            return None
        kind, p = self.pick(cands)
        subject = prop(p.name)
        body: Optional[Expr]
        if kind == "len":
            # property names are unique in the model: one window per property, shared along the
            # inheritance chain and seeded by the constrained primitive the property is typed with
            key = ("", p.name)
            t0 = beneath_optional(p.type)
            if key not in self.len_window and isinstance(t0, Ref) and (t0.name, "self") in self.len_window:
                self.len_window[key] = self.len_window[(t0.name, "self")]
            # a lower bound on a list whose items can contain the owner again admits no finite instance
            allow_min = not (isinstance(t0, ListOf) and self.item_reaches(t0, c.name))
            body = self.len_bound(key, subject, allow_min=allow_min)
            if body is None:
                return None
        elif kind == "pattern":
            self.has_pattern.add(("", p.name))
            body = FunctionCall(self.pick(self.fns(PatternFn)).name, (subject,))
        else:
            t = beneath_optional(p.type)
            item = self.prim_of(t) or t.name  # type: ignore[union-attr]
            body = IsIn(subject, Name(self.pick(self.sets_of(item)).name))
        if is_optional(p.type):
            return self.guard(p, body)
        if self.ft.guards_on_other_property and self.chance(0.3):
            # hazard (DESIGN 7 #6): a constraint on a required property guarded by *another* property
            others = [q for q in props if is_optional(q.type) and q.name != p.name]
            if others:
                return self.guard(p, body, self.pick(others))
        return body

    # -- general, type-directed boolean expressions

    def atoms(self, props: List[Prop], nonnull: Set[str], root: Expr = SELF) -> List[_Atom]:
        """Usable primitive-valued sub-expressions: non-optional (or narrowed) properties, one nested level, constants."""
        out: List[_Atom] = []
        for p in props:
            if is_optional(p.type) and p.name not in nonnull:
                continue
            t = beneath_optional(p.type)
            pr = self.prim_of(t)
            here = Member(root, p.name)
            if pr is not None:
                out.append(_Atom(here, pr, self.is_cp(t)))
            elif isinstance(t, Ref) and isinstance(self.mm.find(t.name), Enum):
                out.append(_Atom(here, "enum:" + t.name, False))
            elif isinstance(t, Ref) and isinstance(self.mm.find(t.name), Class) and root is SELF:
                for q, _ in all_props(self.mm, t.name):
                    if is_optional(q.type):
                        continue
                    qpr = self.prim_of(q.type)
                    if qpr is not None:
                        out.append(_Atom(Member(here, q.name), qpr, self.is_cp(q.type)))
        if root is SELF:
            for cst in self.mm.constants:
                out.append(_Atom(Name(cst.name), cst.type, False, const=True))
        return out

    def num_expr(self, kind: str, atoms: List[_Atom], depth: int) -> Expr:
        """An arithmetic expression of kind 'int' or 'float' (plain primitives only, unless the hazard flag is on)."""
        pool = [a.expr for a in atoms if a.kind == kind and (not a.constrained or self.ft.arithmetic_on_constrained)]
        # NOTE: a huge constant makes e.g. ``self.n + Big`` overflow in the typed targets; harmless in Python
        if kind == "int":
            pool.extend(length(a.expr) for a in atoms if a.kind in ("str", "bytes") and self.len_allowed_atom(a))
        lit: Expr = Constant(self.rng.randint(0, 20)) if kind == "int" else Constant(self.pick([0.0, 0.5, 2.5, 100.0]))
        base: Expr = lit if (not pool or self.chance(0.3)) else self.pick(pool)
        if depth > 0 and self.chance(0.3):
            other = self.num_expr(kind, atoms, depth - 1)
            return Add(base, other) if self.chance(0.5) else Sub(base, other)
        return base

    def len_allowed_atom(self, a: _Atom) -> bool:
        if a.constrained and not self.ft.len_of_constrained:
            return False
        if a.kind == "bytes" and not self.ft.len_of_bytes:
            return False
        return a.kind in ("str", "bytes")

    def unrecognised_len_comparison(self, a: Expr) -> Expr:
        """A comparison involving ``len(a)`` that the schema inference does *not* recognise as a bound."""
        n = self.rng.randint(0, 12)
        return self.pick([
            Comparison(length(a), "!=", Constant(n)),
            Comparison(Add(length(a), Constant(1)), self.pick(["<", "<=", ">", ">="]), Constant(n + 1)),
            Comparison(Constant(n), "!=", length(a)),
        ])

    def bool_leaf(self, atoms: List[_Atom]) -> Optional[Expr]:
        own = [x for x in atoms if not x.const]
        if not own:
            return None
        a = self.pick(own)
        k = a.kind
        if k == "bool":
            return a.expr if self.chance(0.6) else Comparison(a.expr, self.pick(["==", "!="]), Constant(self.chance(0.5)))
        if k in ("int", "float"):
            # the left side mentions a property; the right side is something else (else: tautology/contradiction)
            left = a.expr
            if not a.constrained and self.chance(0.3):
                left = Add(left, self.num_expr(k, atoms, 0)) if self.chance(0.5) else Sub(left, self.num_expr(k, atoms, 0))
            for _ in range(5):
                right = self.num_expr(k, atoms, 1)
                if right != left and right != a.expr:
                    break
            else:
                right = Constant(1) if k == "int" else Constant(1.5)
            return Comparison(left, self.pick(list(("<", "<=", ">", ">=", "!=", "<=", ">="))), right)
        if k == "str":
            r = self.rng.random()
            if r < 0.3 and self.len_allowed_atom(a):
                return self.unrecognised_len_comparison(a.expr)
            if r < 0.55:
                fns = [f for f in self.fns(TranspilableFn) if f.args[0].type == Prim("str")]
                if fns:
                    return FunctionCall(self.pick(fns).name, (a.expr,))
            if r < 0.7 and self.ft.joined_str_in_invariants:
                return Comparison(a.expr, "==", JoinedStrOf(("x-", a.expr)))
            strs = [b.expr for b in atoms if b.kind == "str" and b.expr != a.expr]
            other = self.pick(strs) if strs and self.chance(0.3) else Constant(self.pick(STR_PLAIN))
            return Comparison(a.expr, self.pick(["==", "!=", "!="]), other)
        if k == "bytes":
            if self.len_allowed_atom(a):
                return self.unrecognised_len_comparison(a.expr)
            return None
        if k.startswith("enum:"):
            e = self.mm.find(k[5:])
            assert isinstance(e, Enum)
            if not e.literals:
                return None
            return Comparison(a.expr, self.pick(["==", "!="]), Member(Name(e.name), self.pick(e.literals).name))
        return None

    def bool_expr(self, atoms: List[_Atom], depth: int) -> Optional[Expr]:
        if depth <= 0 or self.chance(0.45):
            return self.bool_leaf(atoms)
        form = self.pick(["and", "or", "not", "impl"])
        a = self.bool_expr(atoms, depth - 1)
        b = self.bool_expr(atoms, depth - 1)
        if a is None or b is None:
            return a or b
        if form == "and":
            c = self.bool_leaf(atoms) if self.chance(0.2) else None
            return And((a, b, c) if c is not None else (a, b))
        if form == "or":
            if isinstance(a, Not):  # ``not x or y`` is read as an implication: say so explicitly
                return Implication(a.operand, b)
            return Or((a, b))
        if form == "not":
            return Not(a)
        return Implication(a, b)

    def general_invariant(self, c: Class, props: List[Prop]) -> Optional[Expr]:
        ft = self.ft
        optionals = [p for p in props if is_optional(p.type)]
        r = self.rng.random()
        # (1) quantifiers over list properties
        lists = [p for p in props if isinstance(beneath_optional(p.type), ListOf)]
        if ft.quantifiers and lists and r < 0.3:
            p = self.pick(lists)
            e = self.quantified(p)
            if e is not None:
                return self.guard(p, e) if is_optional(p.type) else e
        # (2) nullness facts
        if optionals and r < 0.45:
            p = self.pick(optionals)
            others = [q for q in optionals if q.name != p.name]
            P = prop(p.name)
            if not others:
                forms: List[Expr] = [Not(IsNone(P)), IsNotNone(P)]
                if ft.tautologies_after_narrowing:
                    forms.append(Or((IsNone(P), IsNotNone(P))))
                return self.pick(forms)
            Q = prop(self.pick(others).name)
            return self.pick([
                Or((IsNotNone(P), IsNotNone(Q))),
                Implication(IsNotNone(P), IsNotNone(Q)),
                Or((And((IsNone(P), IsNone(Q))), And((IsNotNone(P), IsNotNone(Q))))),
                Not(And((IsNone(P), IsNone(Q)))),
            ])
        # (3) boolean combination, possibly under a guard that makes optionals usable
        guard_props: List[Prop] = []
        if optionals and self.chance(0.5):
            guard_props = self.rng.sample(optionals, min(len(optionals), self.rng.randint(1, 2)))
        atoms = self.atoms(props, {p.name for p in guard_props})
        if ft.impl_specific and self.chance(0.3):
            ms = [m for m in _all_methods(self.mm, c.name) if m.returns == Prim("bool") and not m.args]
            if ms:
                atoms.append(_Atom(MethodCall(Member(SELF, self.pick(ms).name), ()), "bool", False))
        body = self.bool_expr(atoms, 2)
        if body is None:
            return None
        if not guard_props:
            return body
        checks = tuple(IsNotNone(prop(p.name)) for p in guard_props)
        form = self.pick(["impl", "and", "or"]) if len(checks) == 1 else self.pick(["impl", "and"])
        if form == "impl":
            return Implication(checks[0] if len(checks) == 1 else And(checks), body)
        if form == "and":
            return And(checks + (body,))
        return Or((IsNone(prop(guard_props[0].name)), body))

    def quantified(self, p: Prop) -> Optional[Expr]:
        lt = beneath_optional(p.type)
        assert isinstance(lt, ListOf)
        item = lt.item
        var = self.pick(["item", "element", "x"])
        v = Name(var)
        cond: Optional[Expr] = None
        pr = self.prim_of(item)
        if isinstance(item, ListOf):
            cond = Comparison(length(v), ">=", Constant(1))
        elif pr == "str":
            opts: List[Expr] = [Comparison(v, "!=", Constant(""))]
            if self.len_allowed(item):
                opts.append(Comparison(length(v), "<=", Constant(self.rng.randint(1, 20))))
            if self.fns(PatternFn):
                opts.append(FunctionCall(self.pick(self.fns(PatternFn)).name, (v,)))
            cond = self.pick(opts)
        elif pr in ("int", "float"):
            cond = Comparison(v, self.pick([">", ">=", "<", "!="]), Constant(0 if pr == "int" else 0.0))
        elif pr == "bool":
            cond = v
        elif pr == "bytes":
            cond = Comparison(length(v), ">", Constant(0)) if self.len_allowed(item) else None
        elif isinstance(item, Ref) and isinstance(self.mm.find(item.name), Enum):
            e = self.mm.find(item.name)
            assert isinstance(e, Enum)
            if e.literals:
                cond = Comparison(v, "!=", Member(Name(item.name), self.pick(e.literals).name))
        elif isinstance(item, Ref) and isinstance(self.mm.find(item.name), Class):
            sub_props = [q for q, _ in all_props(self.mm, item.name)]
            cond = self.bool_leaf(self.atoms(sub_props, set(), root=v))
            opt_sub = [q for q in sub_props if is_optional(q.type)]
            if cond is None and opt_sub:
                cond = IsNotNone(Member(v, self.pick(opt_sub).name))
        if cond is None:
            return None
        subject = prop(p.name)
        quant = All if self.chance(0.7) else Any_
        if self.chance(0.25) and not isinstance(item, ListOf):
            # index form over a range: all(<cond on self.p[i]> for i in range(0, len(self.p)))
            cond_i = _substitute(cond, v, Index(subject, Name("i")))
            return quant(ForRange("i", Constant(0), length(subject)), cond_i)
        return quant(ForEach(var, subject), cond)

    # ---- assembly

    def finish(self) -> MM:
        mm = self.mm
        # random Python-legal declaration order of our types
        items: List[str] = [e.name for e in mm.enums] + [c.name for c in mm.constrained_primitives] + [c.name for c in mm.classes]
        deps: Dict[str, List[str]] = {n: [] for n in items}
        for cp in mm.constrained_primitives:
            deps[cp.name] = list(cp.bases)
        for c in mm.classes:
            deps[c.name] = list(c.bases)
        order: List[str] = []
        remaining = list(items)
        while remaining:
            ready = [n for n in remaining if all(d in order for d in deps[n])]
            n = self.pick(ready)
            order.append(n)
            remaining.remove(n)
        mm.order = order
        if self.ft.descriptions and self.chance(0.5):
            mm.description = "Provide a generated meta-model.\n\nIt exists only for testing."
        mm.version = self.pick(["V0.1", "1", "2024.1-beta", "v 3"])
        mm.xml_namespace = self.pick(["https://example.com/aasv/0/1", "http://x.org/ns", "urn:aasv:test"])
        return mm


def JoinedStrOf(parts: Tuple[Any, ...]) -> Expr:
    from harness.mm_model import JoinedStr

    return JoinedStr(tuple(parts))


def _anc_idx(parents: List[List[int]], i: int) -> Set[int]:
    out: Set[int] = set()
    stack = list(parents[i])
    while stack:
        p = stack.pop()
        if p not in out:
            out.add(p)
            stack.extend(parents[p])
    return out


def _all_methods(mm: MM, cls_name: str) -> List[Method]:
    out: List[Method] = []
    for a in ancestors(mm, cls_name) + [cls_name]:
        out.extend(mm.cls(a).methods)
    return out


def _substitute(e: Any, old: Expr, new: Expr) -> Any:
    if e == old:
        return new
    if dataclasses.is_dataclass(e) and not isinstance(e, type):
        changes = {}
        for f in dataclasses.fields(e):
            v = getattr(e, f.name)
            if isinstance(v, tuple):
                changes[f.name] = tuple(_substitute(x, old, new) for x in v)
            elif dataclasses.is_dataclass(v):
                changes[f.name] = _substitute(v, old, new)
        return dataclasses.replace(e, **changes) if changes else e
    return e


def random_mm(rng: random.Random, size: int = 4, features: Optional[Features] = None) -> MM:
    """
    A random **valid** abstract meta-model with about ``size`` classes; deterministic in ``rng``.

    What is generated (each part behind a ``Features`` toggle): enumerations, pattern /
    transpilable / implementation-specific verification functions, primitive constants with
    boundary values (bool, int >= 0, float >= 0, str — the front end has no syntax for negative
    numbers or ``bytearray`` constants), constant sets with ``superset_of`` chains,
    constrained-primitive chains with recognised invariants, a class DAG with abstract/concrete
    mixes, properties over the full type grammar, ``with_model_type`` exactly consistent with the
    front end's demands, type-directed well-typed invariants (recognised schema forms with both
    operand orders and both guard spellings, general boolean combinations with nullness
    narrowing, ``all``/``any`` over ``ForEach``/``ForRange``), docstrings with resolvable
    references, a random Python-legal declaration order.
    """
    g = _Gen(rng, size, features or Features())
    g.gen_enums()
    g.gen_functions()
    g.gen_constants()
    g.gen_constrained()
    g.gen_classes()
    return g.finish()


# =========================================================================== mutants

#: rule id -> one-line description (the C06 statement, clause by clause, plus neighbours)
RULES: Dict[str, str] = {
    "cycle": "inheritance must be acyclic",
    "missing_base": "every base must be a declared class",
    "duplicate_type_name": "type names are unique",
    "duplicate_property_name": "property names are unique within a class",
    "duplicate_constant_name": "constant names are unique",
    "duplicate_function_name": "verification function names are unique",
    "duplicate_across_kinds": "types, constants and functions share one name space",
    "reserved_type_name": "type names must not be reserved",
    "reserved_type_prefix": "type names must not start with I_ / Must_",
    "reserved_property_name": "property names must not be reserved",
    "reserved_constant_name": "constant names must not be reserved",
    "reserved_function_name": "function names must not be reserved",
    "redeclared_inherited_property": "an inherited property must not be declared again",
    "redeclared_inherited_method": "an inherited method must not be declared again",
    "ctor_arg_name": "constructor arguments equal the properties by name",
    "ctor_arg_missing": "every property has a constructor argument",
    "ctor_arg_extra": "every constructor argument is a property",
    "ctor_arg_type": "constructor argument and property have the same type",
    "ctor_arg_order": "constructor arguments follow the property order",
    "ctor_missing": "a class with own properties needs a constructor",
    "ctor_unassigned_property": "every property is assigned in the constructor",
    "ctor_super_call_missing_arg": "super constructor calls pass all arguments",
    "non_none_default": "optional constructor arguments default to None",
    "optional_without_default": "optional constructor arguments have a default",
    "nested_optional": "no Optional[Optional[T]]",
    "list_of_optional": "no List[Optional[T]]",
    "duplicate_invariant_description": "invariant descriptions are unique within a class",
    "duplicate_inherited_invariant_description": "invariant descriptions are unique including inherited ones",
    "dangling_doc_class": "documentation references to types resolve",
    "dangling_doc_attr": "documentation references to attributes resolve",
    "dangling_doc_const": "documentation references to constants resolve",
    "dangling_doc_constraintref": "constraint references resolve",
    "dangling_type_reference": "property types refer to declared types",
    "empty_pattern": "pattern functions are not empty",
    "unanchored_pattern_start": "patterns start with ^",
    "unanchored_pattern_end": "patterns end with $",
    "unanchored_pattern_union": "a top-level union is not anchored as a whole",
    "missing_with_model_type": "classes with concrete descendants used in properties need with_model_type",
    "dangling_superset": "superset_of names a declared constant set",
    "superset_not_contained": "a declared subset must be contained in the set",
}


def _first(xs: Sequence[Any]) -> Any:
    return xs[0] if xs else None


def mutants(mm: MM, rng: Optional[random.Random] = None, max_sites_per_rule: int = 2) -> Iterator[Tuple[str, str]]:
    """
    Single-rule mutants of a *valid* model: yields ``(rule_id, mutated_source_text)``; every
    text breaks exactly the rule ``RULES[rule_id]`` (and nothing else on purpose) and must be
    rejected by the front end.  Rules without an applicable site in ``mm`` are skipped; up to
    ``max_sites_per_rule`` sites per rule (chosen with ``rng`` or the first ones).
    """
    rng = rng or random.Random(0)

    def sites(xs: Sequence[Any]) -> List[Any]:
        xs = list(xs)
        if len(xs) <= max_sites_per_rule:
            return xs
        return rng.sample(xs, max_sites_per_rule)

    def clone(freeze: bool = True) -> MM:
        """A deep copy; with ``freeze`` every class gets its (valid) constructor spelled out, so that a
        mutation of properties or bases changes nothing but the mutated spot."""
        m = copy.deepcopy(mm)
        if freeze:
            for c in m.classes:
                if c.ctor is None:
                    c.ctor = default_ctor(mm, c.name)
        return m

    def emit(rule: str, m: MM) -> Tuple[str, str]:
        assert rule in RULES, rule
        return rule, render(m)

    classes = [c.name for c in mm.classes]
    with_bases = [c.name for c in mm.classes if c.bases]
    with_props = [c.name for c in mm.classes if c.props]

    # ---- cycle
    for n in sites(classes):
        m = clone()
        m.cls(n).bases = [n] + m.cls(n).bases
        yield emit("cycle", m)
    for n in sites(with_bases):
        m = clone()
        top = ancestors(m, n)[0]
        m.cls(top).bases = m.cls(top).bases + [n]
        yield emit("cycle", m)
    # ---- missing base
    for n in sites(classes):
        m = clone()
        m.cls(n).bases = m.cls(n).bases + ["Nonexistent_parent"]
        yield emit("missing_base", m)
    # ---- duplicate names
    for n in sites(classes):
        m = clone()
        dup = copy.deepcopy(m.cls(n))
        m.classes.append(dup)
        yield emit("duplicate_type_name", m)
    for e in sites(mm.enums):
        if mm.classes:
            m = clone()
            m.enums.append(Enum(mm.classes[0].name, [EnumLiteral("Lit_one", "one")]))
            yield emit("duplicate_type_name", m)
            break
    for n in sites(with_props):
        m = clone()
        c = m.cls(n)
        c.props.append(copy.deepcopy(c.props[0]))
        yield emit("duplicate_property_name", m)
    for cst in sites(mm.constants):
        m = clone()
        m.constants.append(copy.deepcopy(cst))
        yield emit("duplicate_constant_name", m)
    for f in sites(mm.verification_functions):
        m = clone()
        m.verification_functions.append(copy.deepcopy(f))
        yield emit("duplicate_function_name", m)
    if mm.classes:
        m = clone()
        m.constants.append(ConstantPrimitive(mm.classes[0].name, "str", "x"))
        yield emit("duplicate_across_kinds", m)
    if mm.classes and mm.verification_functions:
        m = clone()
        m.verification_functions.append(PatternFn.simple(mm.classes[-1].name, "^a$"))
        yield emit("duplicate_across_kinds", m)
    # ---- reserved names
    for new in sites(["Class", "Path", "Error", "String", "Visitor", "Record", "Transformer"]):
        if mm.classes:
            m = clone(freeze=False)
            _rename_class(m, m.classes[0].name, new)
            yield emit("reserved_type_name", m)
    for new in ("I_something", "Must_something"):
        if mm.classes:
            m = clone(freeze=False)
            _rename_class(m, m.classes[-1].name, new)
            yield emit("reserved_type_prefix", m)
    for n in sites(with_props):
        for new in sites(["type_name", "model_type", "descend", "mutable_thing", "class", "for", "accept"]):
            if new in ("class", "for"):
                continue  # not even Python
            m = clone(freeze=False)
            _rename_prop(m, n, m.cls(n).props[0].name, new)
            yield emit("reserved_property_name", m)
    for cst in sites(mm.constants):
        m = clone()
        [c for c in m.constants if c.name == cst.name][0].name = "Model_type"
        yield emit("reserved_constant_name", m)
    m = clone()
    m.verification_functions.append(PatternFn.simple("transform", "^a$"))
    yield emit("reserved_function_name", m)
    # ---- re-declared inherited members
    for n in sites(with_bases):
        inherited = [p for p, owner in all_props(mm, n) if owner != n]
        if inherited:
            m = clone()
            c = m.cls(n)
            c.props.append(copy.deepcopy(inherited[0]))
            yield emit("redeclared_inherited_property", m)
    for n in sites(with_bases):
        base = mm.cls(n).bases[0]
        if any(len(d.bases) >= 2 for d in mm.classes):
            continue  # keep clear of the diamond rule
        m = clone()
        meth = Method("compute_it", [], Prim("bool"), impl_specific=True)
        m.cls(base).methods.append(copy.deepcopy(meth))
        m.cls(n).methods.append(copy.deepcopy(meth))
        yield emit("redeclared_inherited_method", m)
    # ---- constructor
    for n in sites(with_props):
        c0 = mm.cls(n)
        ctor0 = default_ctor(mm, n)
        assert ctor0 is not None
        own = c0.props[0].name
        # name
        m = clone()
        ctor = copy.deepcopy(ctor0)
        for a in ctor.args:
            if a.name == own:
                a.name = own + "_renamed"
        ctor.assigns = [(p, (v + "_renamed" if p == own else v)) for p, v in ctor.assigns]
        m.cls(n).ctor = ctor
        yield emit("ctor_arg_name", m)
        # missing
        m = clone()
        ctor = copy.deepcopy(ctor0)
        ctor.args = [a for a in ctor.args if a.name != own]
        ctor.assigns = [(p, v) for p, v in ctor.assigns if p != own]
        m.cls(n).ctor = ctor
        yield emit("ctor_arg_missing", m)
        # extra
        m = clone()
        ctor = copy.deepcopy(ctor0)
        pos = len([a for a in ctor.args if a.default is None])
        ctor.args.insert(pos, Arg("surplus_argument", Prim("int")))
        m.cls(n).ctor = ctor
        yield emit("ctor_arg_extra", m)
        # type
        m = clone()
        ctor = copy.deepcopy(ctor0)
        for a in ctor.args:
            if a.name == own:
                t0 = beneath_optional(a.type)
                t1: Type = Prim("int") if t0 != Prim("int") else Prim("str")
                a.type = OptionalOf(t1) if is_optional(a.type) else t1
        m.cls(n).ctor = ctor
        yield emit("ctor_arg_type", m)
        # order: swap two arguments of the same default-ness
        req = [i for i, a in enumerate(ctor0.args) if a.default is None]
        opt = [i for i, a in enumerate(ctor0.args) if a.default is not None]
        for grp in (req, opt):
            if len(grp) >= 2:
                m = clone()
                ctor = copy.deepcopy(ctor0)
                i, j = grp[0], grp[1]
                ctor.args[i], ctor.args[j] = ctor.args[j], ctor.args[i]
                m.cls(n).ctor = ctor
                yield emit("ctor_arg_order", m)
                break
        # unassigned
        m = clone()
        ctor = copy.deepcopy(ctor0)
        ctor.assigns = [(p, v) for p, v in ctor.assigns if p != own]
        m.cls(n).ctor = ctor
        yield emit("ctor_unassigned_property", m)
        # missing constructor altogether
        if not c0.bases:
            m = clone()
            m.cls(n).ctor = Ctor(args=[])
            text = render(m)
            text = text.replace("    def __init__(self) -> None:\n        pass\n", "", 1)
            yield "ctor_missing", text
        # defaults
        opt_args = [a for a in ctor0.args if is_optional(a.type)]
        if opt_args:
            m = clone()
            ctor = copy.deepcopy(ctor0)
            for a in ctor.args:
                if a.name == opt_args[0].name:
                    t0 = beneath_optional(a.type)
                    a.default = {"int": "0", "str": '""', "bool": "False", "float": "0.0"}.get(getattr(t0, "name", ""), "[]") if isinstance(t0, Prim) else ("[]" if isinstance(t0, ListOf) else "0")
            m.cls(n).ctor = ctor
            yield emit("non_none_default", m)
            # no default at all (on every optional argument: Python wants defaults to be trailing)
            m = clone()
            ctor = copy.deepcopy(ctor0)
            for a in ctor.args:
                a.default = None
            m.cls(n).ctor = ctor
            yield emit("optional_without_default", m)
    for n in sites(with_bases):
        ctor0 = default_ctor(mm, n)
        if ctor0 is not None and ctor0.super_calls and (ctor0.super_calls[0][1] or ctor0.super_calls[0][2]):
            m = clone()
            ctor = copy.deepcopy(ctor0)
            b, pos, kws = ctor.super_calls[0]
            ctor.super_calls[0] = (b, pos[:-1], kws[:-1]) if pos else (b, pos, kws[:-1])
            m.cls(n).ctor = ctor
            yield emit("ctor_super_call_missing_arg", m)
    # ---- type shapes
    for n in sites(with_props):
        c0 = mm.cls(n)
        for rule, wrap in (("nested_optional", lambda t: OptionalOf(OptionalOf(beneath_optional(t)))), ("list_of_optional", lambda t: ListOf(OptionalOf(beneath_optional(t) if not isinstance(beneath_optional(t), ListOf) else Prim("str"))))):
            m = clone(freeze=False)
            p = m.cls(n).props[0]
            p.type = wrap(p.type)
            yield emit(rule, m)
        m = clone(freeze=False)
        p = m.cls(n).props[0]
        p.type = Ref("Nonexistent_type")
        yield emit("dangling_type_reference", m)
    # ---- invariant descriptions
    for c0 in sites([c for c in mm.classes if c.props]):
        m = clone()
        c = m.cls(c0.name)
        p0 = c.props[0].name
        e: Expr = IsNotNone(prop(p0)) if is_optional(c.props[0].type) else Or((Constant(True), Constant(False)))
        e2: Expr = IsNone(prop(p0)) if is_optional(c.props[0].type) else Or((Constant(False), Constant(True)))
        c.invariants.append(Invariant("A description used twice.", Or((e, e2))))
        c.invariants.append(Invariant("A description used twice.", Or((e2, e))))
        yield emit("duplicate_invariant_description", m)
    for n in sites(with_bases):
        base = mm.cls(n).bases[0]
        m = clone()
        taut: Expr = Or((Constant(True), Constant(False)))
        m.cls(base).invariants.append(Invariant("A description shared with the child.", taut))
        m.cls(n).invariants.append(Invariant("A description shared with the child.", Or((Constant(False), Constant(True)))))
        yield emit("duplicate_inherited_invariant_description", m)
    # ---- documentation references
    for rule, ref in (("dangling_doc_class", ":class:`Nonexistent_type`"), ("dangling_doc_attr", ":attr:`nonexistent_property`"), ("dangling_doc_const", ":const:`Nonexistent_constant`"), ("dangling_doc_constraintref", ":constraintref:`AASd-404`")):
        for n in sites(classes):
            m = clone()
            m.cls(n).description = f"Represent something, see {ref}."
            yield emit(rule, m)
        if rule == "dangling_doc_attr" and mm.classes:
            m = clone()
            m.cls(mm.classes[0].name).description = "Represent something, see :attr:`Nonexistent_type.some_property`."
            yield emit(rule, m)
    # ---- patterns
    m = clone()
    m.verification_functions.append(PatternFn.simple("matches_nothing_at_all", ""))
    yield emit("empty_pattern", m)
    for rule, pat in (("unanchored_pattern_start", "[a-z]+$"), ("unanchored_pattern_end", "^[a-z]+"), ("unanchored_pattern_start", "[a-z]+"), ("unanchored_pattern_union", "^a$|^b$"), ("unanchored_pattern_end", "^a$b"), ("unanchored_pattern_start", "(^a$)")):
        m = clone()
        m.verification_functions.append(PatternFn.simple("matches_loosely", pat))
        yield emit(rule, m)
    # ---- model type
    for c0 in mm.classes:
        if concrete_descendants(mm, c0.name):
            m = clone()
            for c in m.classes:
                c.with_model_type = None
            m.classes.append(Class("Holder_of_it", props=[Prop("held_value", OptionalOf(Ref(c0.name)))]))
            yield emit("missing_with_model_type", m)
            break
    # ---- constant sets
    for cs in sites(mm.constant_sets):
        m = clone()
        [s for s in m.constant_sets if s.name == cs.name][0].superset_of.append("Nonexistent_set")
        yield emit("dangling_superset", m)
    for cs in sites([s for s in mm.constant_sets if s.superset_of]):
        sub = [s for s in mm.constant_sets if s.name == cs.superset_of[0]]
        if sub and sub[0].values:
            m = clone()
            target = [s for s in m.constant_sets if s.name == cs.name][0]
            target.values = [v for v in target.values if v != sub[0].values[0]]
            yield emit("superset_not_contained", m)


def _rename_class(m: MM, old: str, new: str) -> None:
    def rt(t: Type) -> Type:
        if isinstance(t, Ref):
            return Ref(new) if t.name == old else t
        if isinstance(t, ListOf):
            return ListOf(rt(t.item))
        if isinstance(t, OptionalOf):
            return OptionalOf(rt(t.item))
        return t

    for c in m.classes:
        if c.name == old:
            c.name = new
        c.bases = [new if b == old else b for b in c.bases]
        for p in c.props:
            p.type = rt(p.type)
        if c.description:
            c.description = c.description.replace(f"`{old}`", f"`{new}`")
    if m.order:
        m.order = [new if n == old else n for n in m.order]


def _rename_prop(m: MM, cls_name: str, old: str, new: str) -> None:
    """Rename a property consistently (declaration, invariants of the class and its descendants, docs)."""
    for n in [cls_name] + descendants(m, cls_name):
        c = m.cls(n)
        for p in c.props:
            if p.name == old:
                p.name = new
        c.invariants = [Invariant(i.description, _substitute(i.expr, prop(old), prop(new))) for i in c.invariants]
        if c.description:
            c.description = c.description.replace(f"`{old}`", f"`{new}`")
    for c in m.classes:
        for i, inv in enumerate(c.invariants):
            c.invariants[i] = Invariant(inv.description, _rename_member(inv.expr, old, new))


def _rename_member(e: Any, old: str, new: str) -> Any:
    if isinstance(e, Member) and e.name == old:
        return Member(_rename_member(e.instance, old, new), new)
    if dataclasses.is_dataclass(e) and not isinstance(e, type):
        changes = {}
        for f in dataclasses.fields(e):
            v = getattr(e, f.name)
            if isinstance(v, tuple):
                changes[f.name] = tuple(_rename_member(x, old, new) for x in v)
            elif dataclasses.is_dataclass(v):
                changes[f.name] = _rename_member(v, old, new)
        return dataclasses.replace(e, **changes) if changes else e
    return e
