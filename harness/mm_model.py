"""
Abstract meta-models for aas-core-codegen: data model, renderer to meta-model source text.

This is the shared "platform" library (DESIGN.md 2.3 ``gen.mm`` / ``gen.inst``).  It has
four parts; this module holds the first one and re-exports the public names of the others,
so that a property check only needs ``from harness import mm``:

* ``harness.mm``       abstract meta-model (plain dataclasses) + ``render`` / ``render_expr``
* ``harness.mm_gen``   generators: ``enumerate_hierarchies``, ``random_mm``, ``mutants``
* ``harness.mm_run``   running the project in-process: ``load``, ``snippets_for``,
                       ``generate``, ``smoke``, ``load_python_sdk``
* ``harness.mm_inst``  instances of a generated Python SDK: ``random_instance``,
                       ``mutate_jsonable``, ``mutate_xml``, ``eval_invariant_python``

The abstract value is the shared truth: one renderer produces the Python source text the
real front end reads (``render``); property checks that also need the Lean side write their
own S-expression printer over the same dataclasses.

Conventions
-----------
* Everything is a *plain, frozen-free dataclass* (mutable on purpose: mutators copy with
  ``copy.deepcopy`` / ``dataclasses.replace`` and edit).  Expression nodes are frozen (hashable).
* Type grammar:  ``Prim('str'|'int'|'float'|'bool'|'bytes') | Ref(name) | ListOf(T) | OptionalOf(T)``.
  ``Prim('bytes')`` is rendered as ``bytearray`` (the name the meta-model language uses).
* ``Class.invariants`` / ``ConstrainedPrimitive.invariants`` are in *semantic* order, i.e. the
  order in which the front end will list them (``symbol_table...invariants``).  The renderer
  emits the ``@invariant`` decorators bottom-up so that this order is what the parser
  reconstructs (the parser reverses the decorator list).
* ``Class.props`` are the properties *declared by* the class; ``all_props(mm, cls)`` gives the
  stacked list (ancestors first, in the order the intermediate layer stacks them).
* The constructor is derived (``default_ctor``) unless ``Class.ctor`` is given explicitly;
  mutators use an explicit ``Ctor`` to break exactly one rule.
"""
from __future__ import annotations

import dataclasses
import math
from dataclasses import dataclass, field
from typing import Any, Dict, Iterable, Iterator, List, Optional, Sequence, Tuple, Union

# =========================================================================== types

PRIMS = ("bool", "int", "float", "str", "bytes")

#: how a primitive is spelled in the meta-model language
PRIM_TO_SOURCE = {"bool": "bool", "int": "int", "float": "float", "str": "str", "bytes": "bytearray"}


@dataclass(frozen=True)
class Prim:
    """A primitive type: one of ``bool int float str bytes``."""

    name: str

    def __post_init__(self) -> None:
        assert self.name in PRIMS, self.name


@dataclass(frozen=True)
class Ref:
    """A reference to one of "our types" by name: class, enumeration or constrained primitive."""

    name: str


@dataclass(frozen=True)
class ListOf:
    """``List[item]``."""

    item: "Type"


@dataclass(frozen=True)
class OptionalOf:
    """``Optional[item]``."""

    item: "Type"


Type = Union[Prim, Ref, ListOf, OptionalOf]


def render_type(t: Type, quote_refs: bool = False) -> str:
    """Render a type annotation; ``quote_refs`` writes ``Ref`` as a string literal (forward reference)."""
    if isinstance(t, Prim):
        return PRIM_TO_SOURCE[t.name]
    if isinstance(t, Ref):
        return f'"{t.name}"' if quote_refs else t.name
    if isinstance(t, ListOf):
        return f"List[{render_type(t.item, quote_refs)}]"
    if isinstance(t, OptionalOf):
        return f"Optional[{render_type(t.item, quote_refs)}]"
    raise TypeError(f"not a type: {t!r}")


def beneath_optional(t: Type) -> Type:
    """Strip one level of ``OptionalOf`` (if any)."""
    return t.item if isinstance(t, OptionalOf) else t


def is_optional(t: Type) -> bool:
    return isinstance(t, OptionalOf)


# =========================================================================== expressions
# Mirror of aas_core_codegen/parse/tree.py.  All nodes are frozen (hashable, comparable).


@dataclass(frozen=True)
class Name:
    identifier: str


@dataclass(frozen=True)
class Member:
    instance: "Expr"
    name: str


@dataclass(frozen=True)
class Index:
    collection: "Expr"
    index: "Expr"


@dataclass(frozen=True)
class Comparison:
    """``left op right`` with ``op`` one of ``< <= > >= == !=``."""

    left: "Expr"
    op: str
    right: "Expr"

    def __post_init__(self) -> None:
        assert self.op in COMPARATORS, self.op


COMPARATORS = ("<", "<=", ">", ">=", "==", "!=")


@dataclass(frozen=True)
class IsIn:
    member: "Expr"
    container: "Expr"


@dataclass(frozen=True)
class Implication:
    """Rendered as ``not (antecedent) or consequent`` (the only spelling the parser recognises)."""

    antecedent: "Expr"
    consequent: "Expr"


@dataclass(frozen=True)
class MethodCall:
    member: Member
    args: Tuple["Expr", ...] = ()


@dataclass(frozen=True)
class FunctionCall:
    """Call of a verification function or of the builtin ``len``."""

    name: str
    args: Tuple["Expr", ...] = ()


@dataclass(frozen=True)
class Constant:
    """A ``bool``, ``int``, ``float`` or ``str`` literal (negative numbers included)."""

    value: Any


@dataclass(frozen=True)
class IsNone:
    value: "Expr"


@dataclass(frozen=True)
class IsNotNone:
    value: "Expr"


@dataclass(frozen=True)
class Not:
    operand: "Expr"


@dataclass(frozen=True)
class And:
    values: Tuple["Expr", ...]


@dataclass(frozen=True)
class Or:
    """NOTE: ``Or((Not(a), b))`` renders to the same text as ``Implication(a, b)`` and is parsed as such."""

    values: Tuple["Expr", ...]


@dataclass(frozen=True)
class Add:
    left: "Expr"
    right: "Expr"


@dataclass(frozen=True)
class Sub:
    left: "Expr"
    right: "Expr"


@dataclass(frozen=True)
class JoinedStr:
    """An f-string; ``values`` are ``str`` pieces and expression pieces (formatted values)."""

    values: Tuple[Union[str, "Expr"], ...]


@dataclass(frozen=True)
class ForEach:
    variable: str
    iteration: "Expr"


@dataclass(frozen=True)
class ForRange:
    variable: str
    start: "Expr"
    end: "Expr"


@dataclass(frozen=True)
class Any_:
    """``any(condition for variable in ...)``  (named ``Any_`` to keep ``typing.Any`` usable)."""

    generator: Union[ForEach, ForRange]
    condition: "Expr"


@dataclass(frozen=True)
class All:
    """``all(condition for variable in ...)``."""

    generator: Union[ForEach, ForRange]
    condition: "Expr"


Expr = Union[
    Name, Member, Index, Comparison, IsIn, Implication, MethodCall, FunctionCall, Constant,
    IsNone, IsNotNone, Not, And, Or, Add, Sub, JoinedStr, Any_, All,
]

SELF = Name("self")


def prop(name: str) -> Member:
    """``self.<name>``."""
    return Member(SELF, name)


def length(e: "Expr") -> FunctionCall:
    """``len(e)``."""
    return FunctionCall("len", (e,))


# --------------------------------------------------------------------------- literal rendering


def render_str_literal(s: str) -> str:
    """
    A Python string literal denoting exactly ``s`` that survives UTF-8 encoding of the file.

    ``repr`` escapes every non-printable character and lone surrogates; printable non-ASCII
    (including astral) characters are kept verbatim.  Double quotes are preferred.
    """
    r = repr(s)
    if r[0] == "'" and '"' not in s:
        body = r[1:-1].replace("\\'", "'")
        return '"' + body + '"'
    return r


def _escape_fstring_piece(s: str) -> str:
    out = []
    for ch in s:
        cp = ord(ch)
        if ch == "\\":
            out.append("\\\\")
        elif ch == '"':
            out.append('\\"')
        elif ch == "{":
            out.append("{{")
        elif ch == "}":
            out.append("}}")
        elif ch == "\n":
            out.append("\\n")
        elif ch == "\r":
            out.append("\\r")
        elif ch == "\t":
            out.append("\\t")
        elif ch.isprintable() and not (0xD800 <= cp <= 0xDFFF):
            out.append(ch)
        elif cp <= 0xFF:
            out.append(f"\\x{cp:02x}")
        elif cp <= 0xFFFF:
            out.append(f"\\u{cp:04x}")
        else:
            out.append(f"\\U{cp:08x}")
    return "".join(out)


def render_constant(value: Any) -> str:
    """Literal text for a constant value (``bool int float str bytes``).  ``inf``/``nan`` have no literal."""
    if isinstance(value, bool):
        return "True" if value else "False"
    if isinstance(value, int):
        return repr(value)
    if isinstance(value, float):
        if math.isinf(value) or math.isnan(value):
            raise ValueError(f"no Python literal for {value!r}")
        return repr(value)
    if isinstance(value, str):
        return render_str_literal(value)
    if isinstance(value, (bytes, bytearray)):
        return repr(bytes(value))
    raise TypeError(f"not a constant value: {value!r}")


# --------------------------------------------------------------------------- expression rendering

# precedence levels (higher binds tighter)
_P_OR, _P_AND, _P_NOT, _P_CMP, _P_ADD, _P_ATOM = 1, 2, 3, 4, 5, 7


def _prec(e: Expr) -> int:
    if isinstance(e, (Or, Implication)):
        return _P_OR
    if isinstance(e, And):
        return _P_AND
    if isinstance(e, Not):
        return _P_NOT
    if isinstance(e, (Comparison, IsIn, IsNone, IsNotNone)):
        return _P_CMP
    if isinstance(e, (Add, Sub)):
        return _P_ADD
    if isinstance(e, Constant) and isinstance(e.value, (int, float)) and not isinstance(e.value, bool):
        # a negative literal is a unary minus: binds looser than call/attribute/subscript
        neg = e.value < 0 or (isinstance(e.value, float) and math.copysign(1.0, e.value) < 0)
        return 6 if neg else _P_ATOM
    return _P_ATOM


def render_expr(e: Expr, full_parens: bool = False) -> str:
    """
    Render an invariant/verification-body expression as Python source.

    With ``full_parens`` every compound sub-expression is parenthesised (useful to make sure a
    finding does not depend on operator precedence); otherwise the minimal parentheses that
    make CPython's ``ast`` produce exactly this tree are emitted (plus the customary
    parentheses around an implication's antecedent).
    """

    def sub(x: Expr, need: int) -> str:
        text = go(x)
        if _prec(x) < need or (full_parens and _prec(x) < _P_ATOM):
            return "(" + text + ")"
        return text

    def go(x: Expr) -> str:
        if isinstance(x, Name):
            return x.identifier
        if isinstance(x, Member):
            return f"{sub(x.instance, _P_ATOM)}.{x.name}"
        if isinstance(x, Index):
            return f"{sub(x.collection, _P_ATOM)}[{go(x.index)}]"
        if isinstance(x, Comparison):
            return f"{sub(x.left, _P_ADD)} {x.op} {sub(x.right, _P_ADD)}"
        if isinstance(x, IsIn):
            return f"{sub(x.member, _P_ADD)} in {sub(x.container, _P_ADD)}"
        if isinstance(x, IsNone):
            return f"{sub(x.value, _P_ADD)} is None"
        if isinstance(x, IsNotNone):
            return f"{sub(x.value, _P_ADD)} is not None"
        if isinstance(x, Implication):
            ante = go(x.antecedent)
            if _prec(x.antecedent) < _P_ATOM:
                ante = "(" + ante + ")"
            return f"not {ante} or {sub(x.consequent, _P_AND)}"
        if isinstance(x, MethodCall):
            return f"{go(x.member)}({', '.join(go(a) for a in x.args)})"
        if isinstance(x, FunctionCall):
            return f"{x.name}({', '.join(go(a) for a in x.args)})"
        if isinstance(x, Constant):
            return render_constant(x.value)
        if isinstance(x, Not):
            return f"not {sub(x.operand, _P_NOT)}"
        if isinstance(x, And):
            assert len(x.values) >= 2, "And needs at least two values"
            return " and ".join(sub(v, _P_NOT) for v in x.values)
        if isinstance(x, Or):
            assert len(x.values) >= 2, "Or needs at least two values"
            return " or ".join(sub(v, _P_AND) for v in x.values)
        if isinstance(x, Add):
            return f"{sub(x.left, _P_ADD)} + {sub(x.right, 6)}"
        if isinstance(x, Sub):
            return f"{sub(x.left, _P_ADD)} - {sub(x.right, 6)}"
        if isinstance(x, JoinedStr):
            parts = []
            for v in x.values:
                if isinstance(v, str):
                    parts.append(_escape_fstring_piece(v))
                else:
                    parts.append("{" + go(v) + "}")
            return 'f"' + "".join(parts) + '"'
        if isinstance(x, (Any_, All)):
            fn = "any" if isinstance(x, Any_) else "all"
            g = x.generator
            if isinstance(g, ForEach):
                it = f"for {g.variable} in {sub(g.iteration, _P_OR + 1)}"
            else:
                it = f"for {g.variable} in range({go(g.start)}, {go(g.end)})"
            return f"{fn}({sub(x.condition, _P_OR)} {it})"
        raise TypeError(f"not an expression: {x!r}")

    return go(e)


def walk_expr(e: Any) -> Iterator[Any]:
    """Pre-order iteration over all expression nodes (generators and their parts included)."""
    yield e
    if dataclasses.is_dataclass(e):
        for f in dataclasses.fields(e):
            v = getattr(e, f.name)
            if isinstance(v, tuple):
                for item in v:
                    if dataclasses.is_dataclass(item):
                        yield from walk_expr(item)
            elif dataclasses.is_dataclass(v):
                yield from walk_expr(v)


# =========================================================================== declarations


@dataclass
class Invariant:
    """``@invariant(lambda self: <expr>, "<description>")``."""

    description: str
    expr: Expr


@dataclass
class Prop:
    name: str
    type: Type
    description: Optional[str] = None


@dataclass
class Arg:
    """An argument of a method / verification function / explicit constructor."""

    name: str
    type: Type
    #: source text of the default value (``"None"``), or None for "no default"
    default: Optional[str] = None


@dataclass
class Method:
    """
    A class method.  The generators only accept implementation-specific methods, so that is
    the default; a non-implementation-specific method needs ``body`` (statements).
    """

    name: str
    args: List[Arg] = field(default_factory=list)
    returns: Optional[Type] = None
    impl_specific: bool = True
    non_mutating: bool = False
    description: Optional[str] = None
    body: Optional[List["Stmt"]] = None


@dataclass
class Ctor:
    """
    An explicit constructor (used by mutators; valid models normally use ``default_ctor``).

    ``super_calls`` are ``(base_name, positional_arg_names, keyword_arg_pairs)``;
    ``assigns`` are ``(property_name, value_source_text)``.
    """

    args: List[Arg]
    super_calls: List[Tuple[str, List[str], List[Tuple[str, str]]]] = field(default_factory=list)
    assigns: List[Tuple[str, str]] = field(default_factory=list)
    description: Optional[str] = None


@dataclass
class Class:
    name: str
    bases: List[str] = field(default_factory=list)
    abstract: bool = False
    props: List[Prop] = field(default_factory=list)
    invariants: List[Invariant] = field(default_factory=list)
    methods: List[Method] = field(default_factory=list)
    #: ``@serialization(with_model_type=...)``; None = no decorator (setting is inherited)
    with_model_type: Optional[bool] = None
    description: Optional[str] = None
    impl_specific: bool = False
    #: explicit constructor; None = derive with ``default_ctor``
    ctor: Optional[Ctor] = None


@dataclass
class EnumLiteral:
    name: str
    value: str
    description: Optional[str] = None


@dataclass
class Enum:
    name: str
    literals: List[EnumLiteral] = field(default_factory=list)
    description: Optional[str] = None

    @staticmethod
    def of(name: str, literals: Sequence[Tuple[str, str]], description: Optional[str] = None) -> "Enum":
        """Convenience constructor from ``[(literal_name, literal_value)]``."""
        return Enum(name, [EnumLiteral(n, v) for n, v in literals], description)


@dataclass
class ConstrainedPrimitive:
    """
    ``class X(<base>, DBC)`` (``base`` one of PRIMS, "initial set") or
    ``class X(Parent1, Parent2, DBC)`` (``bases`` = other constrained primitives).
    Exactly one of ``base`` / ``bases`` is used for rendering: ``bases`` wins if non-empty.
    ``base`` is always filled with the constrainee so that consumers need not resolve it.
    """

    name: str
    base: str
    bases: List[str] = field(default_factory=list)
    invariants: List[Invariant] = field(default_factory=list)
    description: Optional[str] = None


@dataclass
class ConstantPrimitive:
    """``NAME: <type> = constant_<type>(value=..., description=...)``; ``type`` in PRIMS."""

    name: str
    type: str
    value: Any
    description: Optional[str] = None


@dataclass
class ConstantSet:
    """
    ``NAME: Set[<item_type>] = constant_set(values=[...], description=..., superset_of=[...])``.

    ``item_type`` is a primitive name from PRIMS or the name of an enumeration; for an
    enumeration ``values`` are literal *names*.
    """

    name: str
    item_type: str
    values: List[Any] = field(default_factory=list)
    superset_of: List[str] = field(default_factory=list)
    description: Optional[str] = None


# --------------------------------------------------------------------------- verification functions


@dataclass(frozen=True)
class PVar:
    """Reference to a helper variable inside a pattern function's f-string."""

    name: str


@dataclass
class PatternFn:
    """
    A pattern verification function::

        @verification
        def <name>(<arg>: str) -> bool:
            <var> = f"..."            # for (var, parts) in variables
            pattern = f"..."          # parts
            return match(pattern, <arg>) is not None

    ``parts`` / variable parts are tuples of ``str`` and ``PVar``.  ``pattern`` evaluates them.
    """

    name: str
    parts: Tuple[Union[str, PVar], ...]
    variables: List[Tuple[str, Tuple[Union[str, PVar], ...]]] = field(default_factory=list)
    arg: str = "text"
    description: Optional[str] = None
    #: "fstring" -> ``pattern = f"..."``;  "plain" -> ``pattern = "..."`` (only without PVar);
    #: "inline" -> ``return match(f"...", text) is not None`` without the assignment
    style: str = "fstring"

    @staticmethod
    def simple(name: str, pattern: str, **kw: Any) -> "PatternFn":
        return PatternFn(name=name, parts=(pattern,), **kw)

    @property
    def pattern(self) -> str:
        """The pattern text the function matches against (what the front end infers)."""
        env: Dict[str, str] = {}

        def ev(parts: Sequence[Union[str, PVar]]) -> str:
            return "".join(p if isinstance(p, str) else env[p.name] for p in parts)

        for var, parts in self.variables:
            env[var] = ev(parts)
        return ev(self.parts)


@dataclass(frozen=True)
class Assign:
    target: str
    value: Expr


@dataclass(frozen=True)
class Return:
    value: Expr


Stmt = Union[Assign, Return]


@dataclass
class TranspilableFn:
    """A simple understood verification function (``@verification def f(args) -> T: <stmts>``)."""

    name: str
    args: List[Arg]
    returns: Type
    body: List[Stmt]
    description: Optional[str] = None


@dataclass
class ImplSpecificFn:
    """``@verification @implementation_specific def f(args) -> T: ...`` (needs a snippet per target)."""

    name: str
    args: List[Arg]
    returns: Type
    description: Optional[str] = None


VerificationFn = Union[PatternFn, TranspilableFn, ImplSpecificFn]


@dataclass
class MM:
    """
    An abstract meta-model.

    ``order`` is the declaration order of *our types* (classes, enumerations and constrained
    primitives) by name; None means: enumerations, constrained primitives, classes, each in
    list order.  Verification functions are rendered first, then the types, then the constants
    (the front end resolves everything by name, Python itself needs bases before subclasses
    and enumerations before constant sets that mention their literals).
    """

    classes: List[Class] = field(default_factory=list)
    enums: List[Enum] = field(default_factory=list)
    constrained_primitives: List[ConstrainedPrimitive] = field(default_factory=list)
    constants: List[ConstantPrimitive] = field(default_factory=list)
    constant_sets: List[ConstantSet] = field(default_factory=list)
    verification_functions: List[VerificationFn] = field(default_factory=list)
    version: str = "V0.1"
    xml_namespace: str = "https://example.com/aasv/0/1"
    description: Optional[str] = None
    order: Optional[List[str]] = None

    # ---- lookups

    def cls(self, name: str) -> Class:
        for c in self.classes:
            if c.name == name:
                return c
        raise KeyError(name)

    def find(self, name: str) -> Union[Class, Enum, ConstrainedPrimitive, None]:
        for coll in (self.classes, self.enums, self.constrained_primitives):
            for x in coll:  # type: ignore
                if x.name == name:
                    return x
        return None

    def fn(self, name: str) -> VerificationFn:
        for f in self.verification_functions:
            if f.name == name:
                return f
        raise KeyError(name)

    def constant(self, name: str) -> Union[ConstantPrimitive, ConstantSet]:
        for c in list(self.constants) + list(self.constant_sets):
            if c.name == name:
                return c
        raise KeyError(name)

    def our_types_in_order(self) -> List[Union[Class, Enum, ConstrainedPrimitive]]:
        """Our types in declaration order; types not mentioned in ``order`` (and duplicates) come last."""
        items: List[Any] = list(self.enums) + list(self.constrained_primitives) + list(self.classes)
        if self.order is None:
            return items
        rank = {n: i for i, n in reversed(list(enumerate(self.order)))}
        first_seen: set = set()
        keyed = []
        for pos, x in enumerate(items):
            if x.name in rank and x.name not in first_seen:
                first_seen.add(x.name)
                keyed.append((0, rank[x.name], pos, x))
            else:
                keyed.append((1, pos, pos, x))
        keyed.sort(key=lambda k: k[:3])
        return [k[3] for k in keyed]


# =========================================================================== structure helpers


def _find_class(mm: MM, name: str) -> Optional[Class]:
    for c in mm.classes:
        if c.name == name:
            return c
    return None


def ancestors(mm: MM, cls_name: str) -> List[str]:
    """
    All proper ancestors of a class (no duplicates), parents before children, deterministic.
    Robust against broken models (mutants): unknown bases are skipped, cycles are cut.
    """
    out: List[str] = []
    visiting: set = set()

    def visit(n: str) -> None:
        c = _find_class(mm, n)
        if c is None or n in visiting:
            return
        visiting.add(n)
        for b in c.bases:
            if _find_class(mm, b) is None:
                continue
            visit(b)
            if b not in out and b != cls_name:
                out.append(b)
        visiting.discard(n)

    visit(cls_name)
    return out


def descendants(mm: MM, cls_name: str) -> List[str]:
    """All proper descendants of a class, in ``mm.classes`` order."""
    return [c.name for c in mm.classes if c.name != cls_name and cls_name in ancestors(mm, c.name)]


def concrete_descendants(mm: MM, cls_name: str) -> List[str]:
    return [n for n in descendants(mm, cls_name) if not mm.cls(n).abstract]


def all_props(mm: MM, cls_name: str, _visiting: Optional[frozenset] = None) -> List[Tuple[Prop, str]]:
    """
    Stacked properties of a class as ``(prop, declaring_class_name)`` in the order the
    intermediate layer produces: for each base in order its stacked properties (duplicates
    from diamonds dropped), then the class's own.  Unknown bases are skipped, cycles are cut.
    """
    c = _find_class(mm, cls_name)
    if c is None:
        return []
    visiting = (_visiting or frozenset()) | {cls_name}
    out: List[Tuple[Prop, str]] = []
    seen = set()
    for b in c.bases:
        if b in visiting:
            continue
        for p, owner in all_props(mm, b, visiting):
            if (p.name, owner) not in seen:
                seen.add((p.name, owner))
                out.append((p, owner))
    out.extend((p, cls_name) for p in c.props)
    return out


def all_invariants(mm: MM, name: str, _visiting: Optional[frozenset] = None) -> List[Tuple[Invariant, str]]:
    """Stacked invariants ``(invariant, declaring_type_name)`` of a class or constrained primitive."""
    t = mm.find(name)
    if not isinstance(t, (Class, ConstrainedPrimitive)):
        return []
    visiting = (_visiting or frozenset()) | {name}
    out: List[Tuple[Invariant, str]] = []
    seen = set()
    for b in t.bases:
        if b in visiting:
            continue
        for inv, owner in all_invariants(mm, b, visiting):
            if id(inv) not in seen:
                seen.add(id(inv))
                out.append((inv, owner))
    out.extend((inv, name) for inv in t.invariants)
    return out


def default_ctor(mm: MM, cls_name: str, keyword_super_args: bool = False) -> Optional[Ctor]:
    """
    The canonical constructor of a class, or None if the class has no (stacked) properties.

    Arguments: required properties in stacked order, then the optional ones with ``= None``
    (this is the order ``_verify_constructor_arguments_and_properties_match`` demands and
    Python needs).  Every base with properties gets ``Base.__init__(self, ...)`` with the
    base's own constructor arguments in the base's order; own properties are assigned.
    """
    c = mm.cls(cls_name)
    props = all_props(mm, cls_name)
    if not props:
        return None
    required = [p for p, _ in props if not is_optional(p.type)]
    optional = [p for p, _ in props if is_optional(p.type)]
    args = [Arg(p.name, p.type) for p in required] + [Arg(p.name, p.type, "None") for p in optional]
    super_calls: List[Tuple[str, List[str], List[Tuple[str, str]]]] = []
    for b in c.bases:
        base_cls = _find_class(mm, b)
        if base_cls is None or b == cls_name or cls_name in ancestors(mm, b):
            continue
        base_ctor = base_cls.ctor if base_cls.ctor is not None else default_ctor(mm, b)
        if base_ctor is None:
            continue
        names = [a.name for a in base_ctor.args]
        if keyword_super_args:
            super_calls.append((b, [], [(n, n) for n in names]))
        else:
            super_calls.append((b, names, []))
    assigns = [(p.name, p.name) for p in c.props]
    return Ctor(args=args, super_calls=super_calls, assigns=assigns)


# =========================================================================== rendering

_I = "    "


def _docstring(text: str, indent: str) -> List[str]:
    """
    A docstring statement.  The text is emitted as one *escaped* literal when it contains
    characters that could end a triple-quoted string; otherwise as a readable block.
    """
    if '"""' in text or "\\" in text or text.endswith('"') or any((not ch.isprintable()) and ch != "\n" for ch in text):
        return [indent + render_str_literal(text)]
    lines = text.split("\n")
    if len(lines) == 1:
        return [f'{indent}"""{text}"""']
    out = [f'{indent}"""']
    out.extend((indent + ln) if ln.strip() else "" for ln in lines)
    out.append(f'{indent}"""')
    return out


def _render_parts(parts: Sequence[Union[str, PVar]], style: str) -> str:
    if style == "plain":
        assert all(isinstance(p, str) for p in parts)
        return render_str_literal("".join(parts))  # type: ignore
    body = "".join(_escape_fstring_piece(p) if isinstance(p, str) else "{" + p.name + "}" for p in parts)
    return 'f"' + body + '"'


def render_stmt(s: Stmt) -> str:
    if isinstance(s, Assign):
        return f"{s.target} = {render_expr(s.value)}"
    if isinstance(s, Return):
        return f"return {render_expr(s.value)}"
    raise TypeError(repr(s))


def _render_args(args: Sequence[Arg], with_self: bool) -> str:
    parts = ["self"] if with_self else []
    for a in args:
        t = render_type(a.type, quote_refs=True)
        parts.append(f"{a.name}: {t}" + (f" = {a.default}" if a.default is not None else ""))
    return ", ".join(parts)


def render_verification_fn(f: VerificationFn) -> List[str]:
    out: List[str] = ["@verification"]
    if isinstance(f, PatternFn):
        out.append(f"def {f.name}({f.arg}: str) -> bool:")
        if f.description is not None:
            out.extend(_docstring(f.description, _I))
        for var, parts in f.variables:
            out.append(f"{_I}{var} = {_render_parts(parts, 'fstring')}")
        if f.style == "inline":
            out.append(f"{_I}return match({_render_parts(f.parts, 'fstring')}, {f.arg}) is not None")
        else:
            out.append(f"{_I}pattern = {_render_parts(f.parts, f.style)}")
            out.append(f"{_I}return match(pattern, {f.arg}) is not None")
        return out
    if isinstance(f, TranspilableFn):
        ret = render_type(f.returns, quote_refs=True)
        out.append(f"def {f.name}({_render_args(f.args, False)}) -> {ret}:")
        if f.description is not None:
            out.extend(_docstring(f.description, _I))
        out.extend(_I + render_stmt(s) for s in f.body)
        return out
    if isinstance(f, ImplSpecificFn):
        ret = render_type(f.returns, quote_refs=True)
        out.append("@implementation_specific")
        out.append(f"def {f.name}({_render_args(f.args, False)}) -> {ret}:")
        if f.description is not None:
            out.extend(_docstring(f.description, _I))
        out.append(f"{_I}raise NotImplementedError()")
        return out
    raise TypeError(repr(f))


def _render_invariants(invs: Sequence[Invariant]) -> List[str]:
    # decorators are applied bottom-up and the parser reverses them: emit in reverse
    return [f"@invariant(lambda self: {render_expr(inv.expr)}, {render_str_literal(inv.description)})" for inv in reversed(invs)]


def render_ctor(ctor: Ctor) -> List[str]:
    out = [f"{_I}def __init__({_render_args(ctor.args, True)}) -> None:"]
    if ctor.description is not None:
        out.extend(_docstring(ctor.description, _I * 2))
    for base, pos, kws in ctor.super_calls:
        args = ["self"] + list(pos) + [f"{k}={v}" for k, v in kws]
        out.append(f"{_I * 2}{base}.__init__({', '.join(args)})")
    for name, value in ctor.assigns:
        out.append(f"{_I * 2}self.{name} = {value}")
    if not ctor.super_calls and not ctor.assigns and ctor.description is None:
        out.append(f"{_I * 2}pass")
    return out


def render_class(mm: MM, c: Class) -> List[str]:
    out: List[str] = []
    out.extend(_render_invariants(c.invariants))
    if c.abstract:
        out.append("@abstract")
    if c.impl_specific:
        out.append("@implementation_specific")
    if c.with_model_type is not None:
        out.append(f"@serialization(with_model_type={c.with_model_type})")
    out.append(f"class {c.name}({', '.join(list(c.bases) + ['DBC'])}):")
    body: List[str] = []
    if c.description is not None:
        body.extend(_docstring(c.description, _I))
        body.append("")
    for p in c.props:
        body.append(f"{_I}{p.name}: {render_type(p.type, quote_refs=True)}")
        if p.description is not None:
            body.extend(_docstring(p.description, _I))
        body.append("")
    for m in c.methods:
        if m.impl_specific:
            body.append(f"{_I}@implementation_specific")
        if m.non_mutating:
            body.append(f"{_I}@non_mutating")
        ret = "None" if m.returns is None else render_type(m.returns, quote_refs=True)
        body.append(f"{_I}def {m.name}({_render_args(m.args, True)}) -> {ret}:")
        if m.description is not None:
            body.extend(_docstring(m.description, _I * 2))
        if m.body:
            body.extend(_I * 2 + render_stmt(s) for s in m.body)
        else:
            body.append(f"{_I * 2}raise NotImplementedError()")
        body.append("")
    ctor = c.ctor if c.ctor is not None else default_ctor(mm, c.name)
    if ctor is not None:
        body.extend(render_ctor(ctor))
    while body and body[-1] == "":
        body.pop()
    if not body:
        body = [f"{_I}pass"]
    return out + body


def render_enum(e: Enum) -> List[str]:
    out = [f"class {e.name}(Enum):"]
    body: List[str] = []
    if e.description is not None:
        body.extend(_docstring(e.description, _I))
        body.append("")
    for lit in e.literals:
        body.append(f"{_I}{lit.name} = {render_str_literal(lit.value)}")
        if lit.description is not None:
            body.extend(_docstring(lit.description, _I))
    if not body:
        body = [f"{_I}pass"]
    return out + body


def render_constrained_primitive(cp: ConstrainedPrimitive) -> List[str]:
    out = _render_invariants(cp.invariants)
    bases = list(cp.bases) if cp.bases else [PRIM_TO_SOURCE[cp.base]]
    out.append(f"class {cp.name}({', '.join(bases + ['DBC'])}):")
    if cp.description is not None:
        out.extend(_docstring(cp.description, _I))
    else:
        out.append(f"{_I}pass")
    return out


def render_constant_primitive(c: ConstantPrimitive) -> List[str]:
    t = PRIM_TO_SOURCE[c.type]
    value = render_constant(c.value)
    if c.type == "bytes":
        # the front end wants ``bytearray`` typed literals; Python has only ``bytes`` literals
        value = repr(bytes(c.value))
    args = [f"value={value}"]
    if c.description is not None:
        args.append(f"description={render_str_literal(c.description)}")
    return [f"{c.name}: {t} = constant_{t}({', '.join(args)})"]


def render_constant_set(mm: MM, c: ConstantSet) -> List[str]:
    if c.item_type in PRIMS:
        t = PRIM_TO_SOURCE[c.item_type]
        values = [render_constant(v) for v in c.values]
    else:
        t = c.item_type
        values = [f"{c.item_type}.{v}" for v in c.values]
    out = [f"{c.name}: Set[{t}] = constant_set("]
    out.append(f"{_I}values=[")
    out.extend(f"{_I * 2}{v}," for v in values)
    out.append(f"{_I}],")
    if c.description is not None:
        out.append(f"{_I}description={render_str_literal(c.description)},")
    if c.superset_of:
        out.append(f"{_I}superset_of=[{', '.join(c.superset_of)}],")
    out.append(")")
    return out


HEADER = """\
from enum import Enum
from re import match
from typing import List, Optional, Set

from icontract import invariant, DBC

from aas_core_meta.marker import (
    abstract,
    serialization,
    implementation_specific,
    verification,
    constant_set,
    non_mutating,
)
"""


def render(mm: MM, header: bool = True) -> str:
    """
    The meta-model Python source text for ``mm``, as the front end (``run.load_model``) reads it.

    Layout: optional module docstring, imports (``header=False`` leaves them out: the front end
    does not need them), ``__version__``/``__xml_namespace__``, verification functions, our
    types in ``mm.our_types_in_order()``, constants, constant sets.
    """
    blocks: List[List[str]] = []
    if mm.description is not None:
        blocks.append(_docstring(mm.description, ""))
    if header:
        blocks.append(HEADER.rstrip("\n").split("\n"))
    blocks.append([f"__version__ = {render_str_literal(mm.version)}", "", f"__xml_namespace__ = {render_str_literal(mm.xml_namespace)}"])
    for f in mm.verification_functions:
        blocks.append(render_verification_fn(f))
    for t in mm.our_types_in_order():
        if isinstance(t, Class):
            blocks.append(render_class(mm, t))
        elif isinstance(t, Enum):
            blocks.append(render_enum(t))
        else:
            blocks.append(render_constrained_primitive(t))
    for c in mm.constants:
        blocks.append(render_constant_primitive(c))
    for cs in mm.constant_sets:
        blocks.append(render_constant_set(mm, cs))
    return "\n\n\n".join("\n".join(b) for b in blocks) + "\n"
