"""
Fresh processes for C29's HISTORY stream: what the Python generator writes for a meta-model must not depend on
what the same process generated before.

``Pool`` starts ONE helper interpreter (``python -m harness.c29_fresh``) that imports the project under test and then
only waits.  Every job is a HISTORY ``[model_1, ..., model_n]`` (``{"source": text, "snippets": {key: text}, "module": name}``);
the helper ``fork()``s one child per job, the child runs the front end + ``python.lib.generate_types`` on the models one
after the other (exactly the calls ``Sdk.build`` makes) and reports, per model, the generated text (or the error / crash)
and the property order the front end computed.  A child never lives longer than its job and no generation ever happens
in the helper itself, so the first model of every job is generated in a process WITHOUT any history ("alone", as the
command line tool does) and the later ones after exactly the recorded predecessors.  Up to ``PARALLEL`` children run
at the same time; jobs are submitted early and collected late so that they overlap with the in-process streams.

Protocol (helper): one JSON line ``{"id": n, "history": [...]}`` per job on stdin, one JSON line
``{"id": n, "results": [{"code" | "error" | "crash", "order": {class: [property names]}}]}`` per job on stdout
(in completion order).  An empty line / EOF ends the helper after the running children are done.
"""
from __future__ import annotations

import json
import os
import queue
import select
import subprocess
import sys
import tempfile
import threading
import time
from typing import Any, Dict, List, Optional

PARALLEL = 4


# =========================================================================== the code that runs in a child


def generate_one(model: Dict[str, Any]) -> Dict[str, Any]:
    """One model through the front end and ``generate_types``; never raises for what the project does."""
    from harness import mm
    from harness.core import crash_name

    ld = mm.load(model["source"])
    if not ld.ok:
        return {"crash": ld.crash} if ld.crash else {"error": ld.error or "rejected"}
    try:  # the project's code
        from aas_core_codegen import specific_implementations as SI
        from aas_core_codegen.common import Stripped
        from aas_core_codegen.python import common as python_common, lib as python_lib

        verified, errors = python_lib.verify_for_types(symbol_table=ld.symbol_table)
        if errors is not None:
            return {"error": "verify_for_types: " + "; ".join(str(e.message) for e in errors)}
        spec = {SI.ImplementationKey(k): Stripped(v) for k, v in model.get("snippets", {}).items()}
        code, errors = python_lib.generate_types(
            symbol_table=verified, qualified_module_name=python_common.QualifiedModuleName(model.get("module", "aasv_c29")), spec_impls=spec
        )
        if errors is not None:
            return {"error": "generate_types: " + "; ".join(str(e.message) for e in errors)}
        order = {str(c.name): [str(p.name) for p in c.properties] for c in ld.symbol_table.classes}
    except BaseException as e:  # noqa: B902
        if isinstance(e, (KeyboardInterrupt, SystemExit)):
            raise
        return {"crash": crash_name(e)}
    return {"code": code, "order": order}


def run_history(history: List[Dict[str, Any]]) -> List[Dict[str, Any]]:
    out = []
    for m in history:
        t0 = time.time()
        r = generate_one(m)
        r["seconds"] = round(time.time() - t0, 2)
        out.append(r)
    return out


# =========================================================================== the helper interpreter


def _helper_main() -> int:
    from harness import mm  # noqa: F401  (harness.core puts the repo under test on sys.path)
    import harness.core as core

    if str(core.REPO) not in sys.path:
        sys.path.insert(0, str(core.REPO))
    # import what a generation needs BEFORE forking (module import is not a generation: no model has been seen)
    import gc

    import aas_core_codegen.run  # noqa: F401
    import aas_core_codegen.python.lib  # noqa: F401

    gc.collect()
    gc.freeze()  # fewer pages are copied in the children

    # the protocol gets a private copy of stdout; whatever the project prints goes nowhere
    out = os.fdopen(os.dup(1), "w", encoding="utf-8")
    devnull = os.open(os.devnull, os.O_WRONLY)
    os.dup2(devnull, 1)
    out.write(json.dumps({"ready": True}) + "\n")
    out.flush()
    running: Dict[int, Any] = {}  # read fd -> (pid, job id, chunks)
    pending: List[Dict[str, Any]] = []
    eof = False
    stdin_fd = sys.stdin.fileno()
    buf = b""

    def start(job: Dict[str, Any]) -> None:
        r, w = os.pipe()
        pid = os.fork()
        if pid == 0:  # the child: one history, then gone
            code = 0
            try:
                os.close(r)
                try:
                    res: Any = {"id": job["id"], "results": run_history(job["history"])}
                except BaseException as e:  # noqa: B902  (a harness error: reported, the parent raises)
                    import traceback

                    res = {"id": job["id"], "harness_error": f"{type(e).__name__}: {e}", "traceback": traceback.format_exc()}
                data = (json.dumps(res) + "\n").encode("utf-8")
                while data:
                    n = os.write(w, data)
                    data = data[n:]
                os.close(w)
            except BaseException:  # noqa: B902
                code = 3
            finally:
                try:
                    from harness import mm_run
                    import shutil

                    shutil.rmtree(str(mm_run.scratch_root()), True)
                finally:
                    os._exit(code)
        os.close(w)
        running[r] = (pid, job["id"], [])

    while True:
        while pending and len(running) < PARALLEL:
            start(pending.pop(0))
        if eof and not running and not pending:
            return 0
        fds = list(running) + ([] if eof else [stdin_fd])
        ready, _, _ = select.select(fds, [], [], 60.0)
        for fd in ready:
            if fd == stdin_fd:
                chunk = os.read(stdin_fd, 1 << 20)
                if not chunk:
                    eof = True
                    continue
                buf += chunk
                while b"\n" in buf:
                    line, buf = buf.split(b"\n", 1)
                    if not line.strip():
                        eof = True
                        continue
                    pending.append(json.loads(line.decode("utf-8")))
            else:
                chunk = os.read(fd, 1 << 20)
                pid, job_id, chunks = running[fd]
                if chunk:
                    chunks.append(chunk)
                    continue
                os.close(fd)
                del running[fd]
                _, status = os.waitpid(pid, 0)
                text = b"".join(chunks).decode("utf-8").strip()
                if not text:
                    text = json.dumps({"id": job_id, "harness_error": f"the child ended without an answer (wait status {status})"})
                out.write(text + "\n")
                out.flush()


# =========================================================================== the client


class FreshError(RuntimeError):
    """The machinery failed (not the code under test)."""


class Pool:
    def __init__(self) -> None:
        self.proc: Optional[subprocess.Popen] = None
        self.next_id = 0
        self.done: Dict[int, List[Dict[str, Any]]] = {}
        self.outstanding = 0
        self.lines: "queue.Queue[Optional[str]]" = queue.Queue()
        self.errlog: Any = None

    def _ensure(self) -> None:
        if self.proc is not None:
            return
        import harness.core as core

        root = os.path.dirname(os.path.dirname(os.path.abspath(__file__)))
        env = dict(os.environ)
        env["VERIF_REPO"] = str(core.REPO)
        self.proc = subprocess.Popen(
            [sys.executable, "-c", "import sys; sys.path.insert(0, '.'); from harness.c29_fresh import _helper_main; sys.exit(_helper_main())"],
            cwd=root, env=env, stdin=subprocess.PIPE, stdout=subprocess.PIPE, stderr=self._errlog(),
        )
        # the answers are drained by a thread: the helper must never block on its output while we still write jobs
        threading.Thread(target=self._drain, args=(self.proc.stdout,), daemon=True).start()
        # (the helper announces itself with a ``ready`` line; it is skipped when the first answer is read, so that starting
        # the helper does not hold up the caller)

    def _errlog(self) -> Any:
        self.errlog = tempfile.TemporaryFile(prefix="aasv-c29-fresh-")
        return self.errlog

    def _err_tail(self) -> str:
        try:
            self.errlog.seek(0)
            return self.errlog.read().decode("utf-8", "replace")[-2000:]
        except Exception:  # noqa: BLE001
            return ""

    def _drain(self, stream: Any) -> None:
        try:
            for raw in iter(stream.readline, b""):
                self.lines.put(raw.decode("utf-8"))
        finally:
            self.lines.put(None)

    def _readline(self, timeout: float) -> str:
        assert self.proc is not None
        t0 = time.time()
        while True:
            try:
                line = self.lines.get(timeout=5.0)
            except queue.Empty:
                if time.time() - t0 > timeout:
                    raise FreshError("timeout while waiting for the helper interpreter\n" + self._err_tail())
                continue
            if line is None:
                raise FreshError(f"the helper interpreter ended (exit {self.proc.poll()})\n" + self._err_tail())
            return line

    def submit(self, history: List[Dict[str, Any]]) -> int:
        """Queue one history; returns the ticket for ``result``."""
        self._ensure()
        assert self.proc is not None and self.proc.stdin is not None
        self.next_id += 1
        self.proc.stdin.write((json.dumps({"id": self.next_id, "history": history}) + "\n").encode("utf-8"))
        self.proc.stdin.flush()
        self.outstanding += 1
        return self.next_id

    def result(self, ticket: int, timeout: float = 1500.0) -> List[Dict[str, Any]]:
        while ticket not in self.done:
            if self.outstanding == 0:
                raise FreshError(f"no such job: {ticket}")
            line = self._readline(timeout)
            if not line:
                raise FreshError("the helper interpreter closed its output")
            d = json.loads(line)
            if d.get("ready"):
                continue
            self.outstanding -= 1
            if "harness_error" in d:
                raise FreshError(d["harness_error"] + "\n" + d.get("traceback", ""))
            self.done[d["id"]] = d["results"]
        return self.done.pop(ticket)

    def run(self, history: List[Dict[str, Any]]) -> List[Dict[str, Any]]:
        return self.result(self.submit(history))

    def close(self) -> None:
        if self.proc is None:
            return
        try:
            if self.proc.stdin is not None:
                self.proc.stdin.close()
            self.proc.wait(timeout=30)
        except Exception:  # noqa: BLE001
            self.proc.kill()
        self.proc = None


if __name__ == "__main__":
    sys.exit(_helper_main())
