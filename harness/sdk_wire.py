"""
Wire format of the abstract SDK data model (``lean/AasVerif/Model/SdkTreeWire.lean`` is the Lean twin)
and the abstract instances used by the SDK-level properties.

    ty    := p <bool|int|float|str|bytes> | e <name> | c <name> | l ty | o ty
    mm    := <n> class*n <m> enum*m
    class := <name> <abstract 0|1> <with_model_type 0|1> <n> (<name> ty)*n <k> <name>*k
    enum  := <name> <n> (<name> <value>)*n
    val   := N | b <0|1> | i <int> | f <text> | s <text> | y <text> | E <enum> <literal>
           | L <n> val*n | I <class> <n> val*n

Tokens are comma separated; names and texts are dot-separated hex code points (``enc_text``).
Constrained primitives are replaced by their constrainee (as every generator does); the
property list of a class is ``mm.all_props`` (inherited first), the descendants are
``mm.concrete_descendants``.

Abstract values: ``None | bool | int | float | str | bytes | EnumVal | list | Inst``.
"""
from __future__ import annotations

from dataclasses import dataclass, field
from typing import Any, List, Optional

from harness import mm_model as M
from harness.core import enc_bytes, enc_text


@dataclass(frozen=True)
class EnumVal:
    enum: str
    literal: str  # literal NAME


@dataclass(eq=False)
class Inst:
    """An abstract instance: meta-model class name + values aligned with ``all_props(mm, cls)``."""

    cls: str
    fields: List[Any] = field(default_factory=list)
    #: the SDK object built from it (filled by the builder)
    obj: Any = None
    #: indices (into ``fields``) of constructor arguments that are NOT PASSED when the object is built, and of arguments
    #: passed as ``None``; ``fields[i]`` is then the value the property must hold afterwards (the declared default)
    omit: List[int] = field(default_factory=list)
    nones: List[int] = field(default_factory=list)


def _ref_kind(mm: M.MM, name: str) -> str:
    t = mm.find(name)
    if isinstance(t, M.Class):
        return "c"
    if isinstance(t, M.Enum):
        return "e"
    if isinstance(t, M.ConstrainedPrimitive):
        return "p"
    raise KeyError(name)


def enc_ty(mm: M.MM, t: M.Type) -> List[str]:
    if isinstance(t, M.Prim):
        return ["p", t.name]
    if isinstance(t, M.Ref):
        k = _ref_kind(mm, t.name)
        if k == "p":
            cp = mm.find(t.name)
            assert isinstance(cp, M.ConstrainedPrimitive)
            return ["p", cp.base]
        return [k, enc_text(t.name)]
    if isinstance(t, M.ListOf):
        return ["l"] + enc_ty(mm, t.item)
    if isinstance(t, M.OptionalOf):
        return ["o"] + enc_ty(mm, t.item)
    raise TypeError(repr(t))


def ty_wire(mm: M.MM, t: M.Type) -> str:
    return ",".join(enc_ty(mm, t))


def enc_mm(mm: M.MM, only: Optional[set] = None) -> str:
    """``only``: restrict the class list to these names (enough for functions that only look classes up by name)."""
    classes = [c for c in mm.classes if only is None or c.name in only]
    toks: List[str] = [str(len(classes))]
    for c in classes:
        props = M.all_props(mm, c.name)
        toks += [enc_text(c.name), "1" if c.abstract else "0", "1" if c.with_model_type else "0", str(len(props))]
        for p, _owner in props:
            toks.append(enc_text(p.name))
            toks += enc_ty(mm, p.type)
        desc = M.concrete_descendants(mm, c.name)
        toks.append(str(len(desc)))
        toks += [enc_text(d) for d in desc]
    toks.append(str(len(mm.enums)))
    for e in mm.enums:
        toks += [enc_text(e.name), str(len(e.literals))]
        for lit in e.literals:
            toks += [enc_text(lit.name), enc_text(lit.value)]
    return ",".join(toks)


def enc_val(v: Any) -> List[str]:
    if v is None:
        return ["N"]
    if isinstance(v, bool):
        return ["b", "1" if v else "0"]
    if isinstance(v, int):
        return ["i", str(v)]
    if isinstance(v, float):
        return ["f", enc_text(repr(v))]
    if isinstance(v, str):
        return ["s", enc_text(v)]
    if isinstance(v, (bytes, bytearray)):
        return ["y", enc_bytes(bytes(v))]
    if isinstance(v, EnumVal):
        return ["E", enc_text(v.enum), enc_text(v.literal)]
    if isinstance(v, list):
        out = ["L", str(len(v))]
        for x in v:
            out += enc_val(x)
        return out
    if isinstance(v, Inst):
        out = ["I", enc_text(v.cls), str(len(v.fields))]
        for x in v.fields:
            out += enc_val(x)
        return out
    raise TypeError(repr(v))


def val_wire(v: Any) -> str:
    return ",".join(enc_val(v))


def vals_wire(vs: List[Any]) -> str:
    """A sequence of yielded values as the driver prints it."""
    return "[]" if len(vs) == 0 else ";".join(val_wire(v) for v in vs)


def jsonable(v: Any) -> Any:
    """JSON-safe form of an abstract value (for corpus / replay files); inverse: ``from_jsonable``."""
    if v is None or isinstance(v, (bool, int)):
        return v
    if isinstance(v, float):
        return {"f": repr(v)}
    if isinstance(v, str):
        return {"s": enc_text(v)}
    if isinstance(v, (bytes, bytearray)):
        return {"y": bytes(v).hex()}
    if isinstance(v, EnumVal):
        return {"e": v.enum, "l": v.literal}
    if isinstance(v, list):
        return [jsonable(x) for x in v]
    if isinstance(v, Inst):
        d = {"c": v.cls, "v": [jsonable(x) for x in v.fields]}
        if v.omit:
            d["omit"] = list(v.omit)
        if v.nones:
            d["nones"] = list(v.nones)
        return d
    raise TypeError(repr(v))


def from_jsonable(d: Any) -> Any:
    from harness.core import dec_text

    if d is None or isinstance(d, (bool, int)):
        return d
    if isinstance(d, list):
        return [from_jsonable(x) for x in d]
    if "f" in d:
        return float(d["f"])
    if "s" in d:
        return dec_text(d["s"])
    if "y" in d:
        return bytes.fromhex(d["y"])
    if "e" in d:
        return EnumVal(d["e"], d["l"])
    if "c" in d:
        return Inst(d["c"], [from_jsonable(x) for x in d["v"]], omit=list(d.get("omit", [])), nones=list(d.get("nones", [])))
    raise TypeError(repr(d))


def walk_insts(v: Any) -> List[Inst]:
    """All abstract instances inside a value, pre-order (harness bookkeeping, not the oracle)."""
    out: List[Inst] = []
    if isinstance(v, Inst):
        out.append(v)
        for x in v.fields:
            out += walk_insts(x)
    elif isinstance(v, list):
        for x in v:
            out += walk_insts(x)
    return out
