"""Python twin of lean/AasVerif/Model/Retree/Wire.lean: regex tree <-> comma-separated prefix tokens.

Works on the real ``aas_core_codegen.parse.retree`` node classes. ``FormattedValue``s are
numbered in order of appearance (``fv_ids`` maps ``id(node)`` to the number).
"""
from __future__ import annotations

from typing import Any, Dict, List, Optional, Tuple


def _b(x: bool) -> str:
    return "1" if x else "0"


def enc(regex: Any, fv_ids: Optional[Dict[int, int]] = None) -> str:
    from aas_core_codegen.parse import retree
    from aas_core_codegen.parse.tree import FormattedValue

    if fv_ids is None:
        fv_ids = {}
    out: List[str] = []

    def chr_(c: Any) -> None:
        out.extend([str(ord(c.character)), _b(c.explicitly_encoded)])

    def union(u: Any) -> None:
        out.extend(["u", str(len(u.uniates))])
        for c in u.uniates:
            out.extend(["c", str(len(c.concatenants))])
            for t in c.concatenants:
                term(t)

    def term(t: Any) -> None:
        out.append("t")
        v = t.value
        if isinstance(v, retree.Group):
            out.append("g")
            union(v.union)
        elif isinstance(v, retree.Char):
            out.append("h")
            chr_(v)
        elif isinstance(v, retree.CharSet):
            out.extend(["s", _b(v.complementing), str(len(v.ranges))])
            for r in v.ranges:
                out.append("r")
                chr_(r.start)
                if r.end is None:
                    out.append("n")
                else:
                    out.append("e")
                    chr_(r.end)
        elif isinstance(v, FormattedValue):
            out.extend(["f", str(fv_ids.setdefault(id(v), len(fv_ids)))])
        elif isinstance(v, retree.Symbol):
            out.extend(["y", {"^": "0", "$": "1", ".": "2"}[v.kind.value]])
        else:
            raise AssertionError(type(v))
        q = t.quantifier
        if q is None:
            out.append("n")
        else:
            out.extend(["q", _b(q.non_greedy), _count(q.minimum), "x" if q.maximum is None else _count(q.maximum)])

    union(regex.union)
    return ",".join(out)


def _count(n: int) -> str:
    """Decimal text of a repetition count; a count with more digits than ``str`` converts (CPython's guard) is written as 9…9."""
    if n.bit_length() > 14000:
        return "9" * 4300
    return str(n)


def dec(wire: str, fvs: Optional[List[Any]] = None) -> Any:
    """Build real retree nodes from the wire form (no precondition is bypassed: the constructors run)."""
    from aas_core_codegen.parse import retree

    toks = wire.split(",")
    pos = 0

    def nxt() -> str:
        nonlocal pos
        pos += 1
        return toks[pos - 1]

    def chr_() -> Any:
        code = int(nxt())
        e = nxt() == "1"
        return retree.Char(chr(code), e)

    def union() -> Any:
        assert nxt() == "u"
        n = int(nxt())
        cs = []
        for _ in range(n):
            assert nxt() == "c"
            m = int(nxt())
            cs.append(retree.Concatenation([term() for _ in range(m)]))
        return retree.UnionExpr(cs)

    def term() -> Any:
        assert nxt() == "t"
        k = nxt()
        if k == "g":
            v: Any = retree.Group(union())
        elif k == "h":
            v = chr_()
        elif k == "s":
            compl = nxt() == "1"
            n = int(nxt())
            rs = []
            for _ in range(n):
                assert nxt() == "r"
                s = chr_()
                if nxt() == "n":
                    rs.append(retree.Range(s, None))
                else:
                    rs.append(retree.Range(s, chr_()))
            v = retree.CharSet(compl, rs)
        elif k == "f":
            i = int(nxt())
            if fvs is None:
                raise ValueError("formatted values not supplied")
            v = fvs[i]
        elif k == "y":
            v = retree.Symbol({"0": retree.SymbolKind.START, "1": retree.SymbolKind.END, "2": retree.SymbolKind.DOT}[nxt()])
        else:
            raise AssertionError(k)
        q = nxt()
        if q == "n":
            quant = None
        else:
            ng = nxt() == "1"
            mn = int(nxt())
            mx = nxt()
            quant = retree.Quantifier(ng, mn, None if mx == "x" else int(mx))
        return retree.Term(v, quant)

    r = retree.Regex(union())
    assert pos == len(toks)
    return r
