"""
C19 — spec-derived readers for the two languages without a tool-chain in this sandbox.

Written from the language specifications, independently of the Lean decoders
(`lean/AasVerif/Model/Lit/Dec*.lean`):

* C#:  ECMA-334 6th ed. §6.4.5.6 "String literals" (regular string literals), §6.3.2 line terminators.
* Go:  The Go Programming Language Specification, "String literals" / "Rune literals" /
       "Source code representation" (interpreted string literals only).

Both return ``None`` for a text that is not exactly one literal of the modelled grammar, else the
denoted value: C# -> tuple of UTF-16 code units, Go -> tuple of bytes.
"""
from __future__ import annotations

import re
from typing import List, Optional, Tuple

HEX = "0123456789abcdefABCDEF"


def _utf16(cp: int) -> List[int]:
    if cp >= 0x10000:
        cp -= 0x10000
        return [0xD800 + (cp >> 10), 0xDC00 + (cp & 0x3FF)]
    return [cp]


def read_csharp(src: str) -> Optional[Tuple[int, ...]]:
    # source files are sequences of Unicode characters (UTF-8 here): a lone surrogate cannot be stored
    if any(0xD800 <= ord(c) <= 0xDFFF for c in src):
        return None
    if len(src) < 2 or src[0] != '"':
        return None
    out: List[int] = []
    i = 1
    n = len(src)
    simple = {"'": 0x27, '"': 0x22, "\\": 0x5C, "0": 0, "a": 7, "b": 8, "f": 12, "n": 10, "r": 13, "t": 9, "v": 11}
    while True:
        if i >= n:
            return None  # no closing quote
        c = src[i]
        if c == '"':
            return tuple(out) if i == n - 1 else None
        if c in "\r\n\u0085\u2028\u2029":
            return None  # New_Line_Character
        if c != "\\":
            out += _utf16(ord(c))
            i += 1
            continue
        if i + 1 >= n:
            return None
        e = src[i + 1]
        if e in simple:
            out.append(simple[e])
            i += 2
        elif e == "x":
            j = i + 2
            while j < n and j < i + 6 and src[j] in HEX:
                j += 1
            if j == i + 2:
                return None
            out.append(int(src[i + 2 : j], 16))
            i = j
        elif e == "u":
            h = src[i + 2 : i + 6]
            if len(h) != 4 or any(x not in HEX for x in h):
                return None
            out.append(int(h, 16))
            i += 6
        elif e == "U":
            h = src[i + 2 : i + 10]
            if len(h) != 8 or any(x not in HEX for x in h):
                return None
            v = int(h, 16)
            if v > 0x10FFFF:
                return None
            out += _utf16(v)
            i += 10
        else:
            return None


def read_go(src: str) -> Optional[Tuple[int, ...]]:
    # "Source code is Unicode text encoded in UTF-8": surrogate halves are not code points of valid UTF-8
    if any(0xD800 <= ord(c) <= 0xDFFF for c in src):
        return None
    if len(src) < 2 or src[0] != '"':
        return None
    out = bytearray()
    i = 1
    n = len(src)
    simple = {"a": 7, "b": 8, "f": 12, "n": 10, "r": 13, "t": 9, "v": 11, "\\": 0x5C, '"': 0x22}
    while True:
        if i >= n:
            return None
        c = src[i]
        if c == '"':
            return tuple(out) if i == n - 1 else None
        if c == "\n":
            return None
        if c == "\x00" or c == "\ufeff":
            return None  # implementation restrictions of gc: NUL and a BOM inside the file are rejected
        if c != "\\":
            out += c.encode("utf-8")
            i += 1
            continue
        if i + 1 >= n:
            return None
        e = src[i + 1]
        if e in simple:
            out.append(simple[e])
            i += 2
        elif e == "x":
            h = src[i + 2 : i + 4]
            if len(h) != 2 or any(x not in HEX for x in h):
                return None
            out.append(int(h, 16))
            i += 4
        elif e in "01234567":
            h = src[i + 1 : i + 4]
            if len(h) != 3 or any(x not in "01234567" for x in h):
                return None
            v = int(h, 8)
            if v > 255:
                return None
            out.append(v)
            i += 4
        elif e in "uU":
            w = 4 if e == "u" else 8
            h = src[i + 2 : i + 2 + w]
            if len(h) != w or any(x not in HEX for x in h):
                return None
            v = int(h, 16)
            if v > 0x10FFFF or 0xD800 <= v <= 0xDFFF:
                return None
            out += chr(v).encode("utf-8")
            i += 2 + w
        else:
            return None


_GO_BYTES_RE = re.compile(r"\[\.\.\.\]byte\s*\{")


def read_go_bytes(src: str) -> Optional[Tuple[int, ...]]:
    """`[...]byte{0x00, 0x01}` composite literal, with Go's semicolon insertion rule:
    a line whose last token is a literal gets a ';' — illegal inside the braces, so a new line
    may follow only a ',' or the opening '{'."""
    m = _GO_BYTES_RE.match(src)
    if m is None or not src.endswith("}"):
        return None
    body = src[m.end() : -1]
    toks = re.findall(r"0x[0-9a-fA-F]+|,|\n|[^\s]", body)
    if "".join(toks) != re.sub(r"[ \t\r]", "", body):
        return None
    out: List[int] = []
    prev = "{"
    for t in toks:
        if t == "\n":
            if prev not in ("{", ","):
                return None  # automatic semicolon after an integer literal
            continue
        if t == ",":
            if prev != "lit":
                return None
            prev = ","
        elif t.startswith("0x"):
            if prev == "lit":
                return None
            v = int(t, 16)
            if v > 255:
                return None
            out.append(v)
            prev = "lit"
        else:
            return None
    return tuple(out)
