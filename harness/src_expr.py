"""
Source text of an invariant -> ``harness.mm`` expression WITHOUT the project's parse rules.

``mm.parse_expr`` runs ``aas_core_codegen.parse._rules`` — the code under test.  A rule that re-shapes an expression
(say, reads ``B or not A`` as the implication ``A => B``) would then re-shape the text that ``mm.render`` writes into the
meta-model as well, and the direct oracles (which evaluate / read that text) would never see the original.  The
enumerated families of C08 / C11 / C12 therefore build their expressions with this converter, which reads the CPython
``ast`` of the text and guarantees ``ast(render_expr(expr_of(text))) == ast(text)``.
"""
from __future__ import annotations

import ast
from typing import Any

from harness import mm_model as M

_CMP = {ast.Lt: "<", ast.LtE: "<=", ast.Gt: ">", ast.GtE: ">=", ast.Eq: "==", ast.NotEq: "!="}


class Unsupported(ValueError):
    pass


def _go(n: Any) -> Any:
    if isinstance(n, ast.Name):
        return M.Name(n.id)
    if isinstance(n, ast.Attribute):
        return M.Member(_go(n.value), n.attr)
    if isinstance(n, ast.Subscript):
        return M.Index(_go(n.value), _go(n.slice))
    if isinstance(n, ast.Constant):
        if isinstance(n.value, (bool, int, float, str)):
            return M.Constant(n.value)
        raise Unsupported(f"constant {n.value!r}")
    if isinstance(n, ast.UnaryOp) and isinstance(n.op, ast.USub) and isinstance(n.operand, ast.Constant) \
            and isinstance(n.operand.value, (int, float)) and not isinstance(n.operand.value, bool):
        return M.Constant(-n.operand.value)
    if isinstance(n, ast.UnaryOp) and isinstance(n.op, ast.Not):
        return M.Not(_go(n.operand))
    if isinstance(n, ast.BoolOp):
        values = tuple(_go(v) for v in n.values)
        if isinstance(n.op, ast.And):
            return M.And(values)
        if len(values) == 2 and isinstance(values[0], M.Not):
            # the one spelling of an implication; ``Or((Not(a), b))`` renders to the same text
            return M.Implication(values[0].operand, values[1])
        return M.Or(values)
    if isinstance(n, ast.Compare) and len(n.ops) == 1:
        op, right = n.ops[0], n.comparators[0]
        if isinstance(op, (ast.Is, ast.IsNot)) and isinstance(right, ast.Constant) and right.value is None:
            return (M.IsNone if isinstance(op, ast.Is) else M.IsNotNone)(_go(n.left))
        if isinstance(op, ast.In):
            return M.IsIn(_go(n.left), _go(right))
        if type(op) in _CMP:
            return M.Comparison(_go(n.left), _CMP[type(op)], _go(right))
        raise Unsupported(ast.dump(n))
    if isinstance(n, ast.BinOp) and isinstance(n.op, (ast.Add, ast.Sub)):
        return (M.Add if isinstance(n.op, ast.Add) else M.Sub)(_go(n.left), _go(n.right))
    if isinstance(n, ast.JoinedStr):
        parts = []
        for v in n.values:
            if isinstance(v, ast.Constant) and isinstance(v.value, str):
                parts.append(v.value)
            elif isinstance(v, ast.FormattedValue) and v.conversion == -1 and v.format_spec is None:
                parts.append(_go(v.value))
            else:
                raise Unsupported(ast.dump(n))
        return M.JoinedStr(tuple(parts))
    if isinstance(n, ast.Call) and isinstance(n.func, ast.Name) and not n.keywords:
        if n.func.id in ("any", "all") and len(n.args) == 1 and isinstance(n.args[0], ast.GeneratorExp):
            g = n.args[0]
            if len(g.generators) != 1 or g.generators[0].ifs or not isinstance(g.generators[0].target, ast.Name):
                raise Unsupported(ast.dump(n))
            comp = g.generators[0]
            it = comp.iter
            if isinstance(it, ast.Call) and isinstance(it.func, ast.Name) and it.func.id == "range" and len(it.args) == 2:
                gen: Any = M.ForRange(comp.target.id, _go(it.args[0]), _go(it.args[1]))
            else:
                gen = M.ForEach(comp.target.id, _go(it))
            return (M.Any_ if n.func.id == "any" else M.All)(gen, _go(g.elt))
        return M.FunctionCall(n.func.id, tuple(_go(a) for a in n.args))
    if isinstance(n, ast.Call) and isinstance(n.func, ast.Attribute) and not n.keywords:
        member = _go(n.func)
        return M.MethodCall(member, tuple(_go(a) for a in n.args))
    raise Unsupported(ast.dump(n))


def expr_of(text: str) -> Any:
    """The ``mm`` expression whose rendering has exactly the CPython ``ast`` of ``text``."""
    tree = ast.parse(text, mode="eval").body
    e = _go(tree)
    back = M.render_expr(e)
    if ast.dump(ast.parse(back, mode="eval").body) != ast.dump(tree):
        raise Unsupported(f"{text!r} would be rendered as {back!r}")
    return e


def inv(description: str, text: str) -> Any:
    return M.Invariant(description, expr_of(text))
