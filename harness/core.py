"""
Runner shared by all property checks.

Life-cycle of ``./check Cxx --tier T`` (see DESIGN.md 1.3):

  E  extract Gen/*.lean from /repo's working tree      (failure -> tie broken)
  B  lake build driver + Props.Cxx                      (failure -> proof obligation broken)
  A  audit axioms of every theorem in Props.Cxx, grep forbidden tokens
  C  correspondence: real implementation vs Lean driver on the same inputs
  O  direct oracle of the property on the real implementation
  decision: failing input -> VIOLATION (unless listed in known_findings.json);
            broken E/B/C without failing input -> VIOLATION ... no-failing-input-found.

Exit codes: 0 held, 1 violation, 2 harness error / inconsistent machinery.
"""
from __future__ import annotations

import argparse
import fcntl
import hashlib
import importlib
import json
import os
import pathlib
import random
import re
import shutil
import subprocess
import sys
import tempfile
import time
import traceback
from typing import Any, Callable, Dict, Iterable, List, Optional, Sequence, Tuple

VERIF = pathlib.Path(__file__).resolve().parent.parent
REPO = pathlib.Path(os.environ.get("VERIF_REPO", "/repo"))
LEAN = VERIF / "lean"
DRIVER = LEAN / ".lake" / "build" / "bin" / "driver"
ALLOWED_AXIOMS = {"propext", "Classical.choice", "Quot.sound"}
FORBIDDEN_RE = re.compile(
    r"\b(sorry|admit|native_decide|bv_decide|implemented_by|unsafe)\b|^\s*axiom\s|maxHeartbeats\s+0\b",
    re.M,
)

TRUSTED_BASE = [
    "Lean 4.33.0 kernel (leanchecker re-check in the thorough tier)",
    "axioms allowed: propext, Classical.choice, Quot.sound (audited per theorem on every run)",
    "harness/extract.py (source -> Gen/*.lean translator) and the correspondence harness + canonical printers",
    "CPython 3.12 and the third-party libraries the implementation calls are validated by correspondence, not verified",
]


# --------------------------------------------------------------------------- wire format


def enc_text(s: str) -> str:
    if s == "":
        return "-"
    return ".".join(format(ord(c), "x") for c in s)


def dec_text(w: str) -> str:
    if w == "-":
        return ""
    return "".join(chr(int(p, 16)) for p in w.split("."))


def enc_list(ts: Sequence[str]) -> str:
    if len(ts) == 0:
        return "[]"
    return ",".join(enc_text(t) for t in ts)


def dec_list(w: str) -> List[str]:
    if w == "[]":
        return []
    return [dec_text(p) for p in w.split(",")]


def enc_bytes(b: bytes) -> str:
    if len(b) == 0:
        return "-"
    return ".".join(format(x, "x") for x in b)


def show(s: Any) -> Any:
    """JSON-safe rendering of a value for evidence/replay files (lone surrogates kept as escapes)."""
    if isinstance(s, str):
        return s.encode("utf-8", "backslashreplace").decode("utf-8")
    if isinstance(s, bytes):
        return "bytes:" + s.hex()
    if isinstance(s, (list, tuple)):
        return [show(x) for x in s]
    if isinstance(s, dict):
        return {str(k): show(v) for k, v in s.items()}
    if isinstance(s, (int, float, bool)) or s is None:
        return s
    return repr(s)


def crash_name(exc: BaseException) -> str:
    return f"crash:{type(exc).__name__}"


# --------------------------------------------------------------------------- context


class HarnessError(Exception):
    pass


class Ctx:
    def __init__(self, prop: str, tier: str, seed: int) -> None:
        self.prop = prop
        self.tier = tier
        self.seed = seed
        self.rng = random.Random(seed)
        self.t0 = time.time()
        self.evaluations = 0
        self._distinct: set = set()
        self.samples: List[Any] = []
        self.hist: Dict[str, int] = {}
        self.disagreements: List[Dict[str, Any]] = []
        self.failures: List[Dict[str, Any]] = []
        self._fail_per_sig: Dict[str, int] = {}
        self.notes: List[str] = []
        self.streams: Dict[str, int] = {}
        self.broken: List[Dict[str, Any]] = []  # broken extraction / build / audit items
        self.driver_ok = False
        self.traces_validated = 0
        self._scratch: Optional[pathlib.Path] = None
        self.extra_cov: Dict[str, Any] = {}
        self.assumptions: List[str] = []
        self.searching = False

    # ---- sizing
    def n(self, quick: int, thorough: int) -> int:
        """Budget for a stream; multiplied while searching for a failing input."""
        base = quick if self.tier == "quick" else thorough
        return base * (4 if self.searching else 1)

    # ---- bookkeeping
    def count(self, key: Any, nontrivial: bool = True, stream: str = "") -> None:
        self.evaluations += 1
        if stream:
            self.streams[stream] = self.streams.get(stream, 0) + 1
        if nontrivial:
            h = hashlib.blake2b(repr(key).encode("utf-8", "backslashreplace"), digest_size=8).digest()
            self._distinct.add(h)

    def hit(self, branch: str, k: int = 1) -> None:
        self.hist[branch] = self.hist.get(branch, 0) + k

    def sample(self, obj: Any, cap: int = 12) -> None:
        if len(self.samples) < cap:
            self.samples.append(show(obj))

    def disagree(self, stream: str, inp: Any, impl: Any, model: Any) -> None:
        if len(self.disagreements) < 50:
            self.disagreements.append(
                {"stream": stream, "input": show(inp), "impl": show(impl), "model": show(model)}
            )
        else:
            self.disagreements[-1]["more"] = self.disagreements[-1].get("more", 0) + 1

    def fail(self, inp: Any, what: str, sig: str, extra: Optional[Dict[str, Any]] = None) -> None:
        """The property itself fails on the real implementation for ``inp``."""
        # capped per signature (not only in total): many re-shown known findings must not push an unlisted failure out of the list
        k = self._fail_per_sig.get(sig, 0)
        self._fail_per_sig[sig] = k + 1
        if k < 6 and len(self.failures) < 1000:
            d = {"input": show(inp), "what": what, "sig": sig}
            if extra:
                d.update(show(extra))
            self.failures.append(d)

    def note(self, msg: str) -> None:
        self.notes.append(msg)

    # ---- scratch space (outside /repo and /verif)
    def scratch(self) -> pathlib.Path:
        if self._scratch is None:
            base = os.environ.get("TMPDIR", "/tmp")
            self._scratch = pathlib.Path(tempfile.mkdtemp(prefix=f"aasverif-{self.prop}-", dir=base))
        return self._scratch

    def cleanup(self) -> None:
        if self._scratch is not None:
            shutil.rmtree(self._scratch, ignore_errors=True)
            self._scratch = None

    # ---- Lean driver
    def model(self, lines: Sequence[str]) -> List[str]:
        """Send request lines (without the property prefix) to the driver; one answer per line."""
        if not self.driver_ok:
            raise HarnessError("driver not available")
        if len(lines) == 0:
            return []
        payload = "".join(f"{self.prop} {ln}\n" for ln in lines)
        proc = subprocess.run(
            [str(DRIVER)], input=payload.encode("ascii"), stdout=subprocess.PIPE, stderr=subprocess.PIPE
        )
        if proc.returncode != 0:
            raise HarnessError(f"driver exited {proc.returncode}: {proc.stderr.decode(errors='replace')[:400]}")
        out = proc.stdout.decode("ascii").split("\n")
        if out and out[-1] == "":
            out.pop()
        if len(out) != len(lines):
            raise HarnessError(f"driver answered {len(out)} lines for {len(lines)} requests")
        return out

    def model_as(self, prefix: str, lines: Sequence[str]) -> List[str]:
        """Same as model() but addressing the handler of another property."""
        saved = self.prop
        try:
            self.prop = prefix
            return self.model(lines)
        finally:
            self.prop = saved


# --------------------------------------------------------------------------- Lean build / audit


class _Lock:
    def __enter__(self):
        self.f = open(LEAN / ".build.lock", "w")
        fcntl.flock(self.f, fcntl.LOCK_EX)
        return self

    def __exit__(self, *a):
        fcntl.flock(self.f, fcntl.LOCK_UN)
        self.f.close()


def lake_build(targets: Sequence[str], timeout: int = 3000) -> Tuple[bool, str]:
    with _Lock():
        proc = subprocess.run(
            ["lake", "build", *targets], cwd=LEAN, stdout=subprocess.PIPE, stderr=subprocess.STDOUT, timeout=timeout
        )
    return proc.returncode == 0, proc.stdout.decode(errors="replace")


def imported_gens(props_modules: Sequence[str]) -> List[str]:
    """Names of the Gen/*.lean modules which the given Lean modules import (transitively)."""
    seen: set = set()
    todo = list(props_modules)
    gens: List[str] = []
    while todo:
        m = todo.pop()
        if m in seen or not m.startswith("AasVerif."):
            continue
        seen.add(m)
        if m.startswith("AasVerif.Gen."):
            gens.append(m[len("AasVerif.Gen."):])
            continue
        f = LEAN / (m.replace(".", "/") + ".lean")
        if not f.exists():
            continue
        for line in f.read_text().splitlines():
            if line.startswith("import "):
                todo.append(line.split()[1])
            elif line.strip() and not line.startswith(("/-", "--", " ", "-/")) and not line.startswith("import"):
                break
    return sorted(gens)


def find_gen_function(name: str) -> Any:
    """The extractor ``gen_<name>`` wherever it is defined under harness/ (``def`` preferred over an alias)."""
    import importlib

    here = pathlib.Path(__file__).resolve().parent
    hits: List[Tuple[int, str]] = []
    for f in sorted(here.glob("**/*.py")):
        text = f.read_text()
        modname = "harness." + ".".join(f.relative_to(here).with_suffix("").parts)
        if f"def gen_{name}(" in text:
            hits.append((0, modname))
        elif f"\ngen_{name} =" in text:
            hits.append((1, modname))
    for _, modname in sorted(hits):
        try:
            fn = getattr(importlib.import_module(modname), f"gen_{name}", None)
        except BaseException:  # noqa
            fn = None
        if fn is not None:
            return fn
    return None


def write_gen(ctx: Ctx, mod: Any, gens: Sequence[str]) -> None:
    from . import extract

    for name in gens:
        fn = getattr(mod, f"gen_{name}", None) or getattr(extract, f"gen_{name}", None) or find_gen_function(name)
        if fn is None:
            ctx.broken.append({"stage": "extract", "gen": name, "error": f"no extractor gen_{name} found"})
            continue
        path = LEAN / "AasVerif" / "Gen" / f"{name}.lean"
        try:
            content = fn(REPO)
        except extract.ExtractError as e:
            ctx.broken.append({"stage": "extract", "gen": name, "error": str(e)})
            continue
        old = path.read_text() if path.exists() else None
        if old != content:
            with _Lock():
                path.write_text(content)
            if old is not None:
                ctx.note(f"Gen/{name}.lean changed with the source")


def strip_lean_comments(src: str) -> str:
    out = []
    i = 0
    depth = 0
    n = len(src)
    while i < n:
        if src.startswith("/-", i):
            depth += 1
            i += 2
        elif depth > 0 and src.startswith("-/", i):
            depth -= 1
            i += 2
        elif depth > 0:
            i += 1
        elif src.startswith("--", i):
            j = src.find("\n", i)
            i = n if j < 0 else j
        elif src[i] == '"':
            j = i + 1
            while j < n and src[j] != '"':
                j += 2 if src[j] == "\\" else 1
            out.append('""')
            i = j + 1
        else:
            out.append(src[i])
            i += 1
    return "".join(out)


def grep_forbidden() -> List[str]:
    hits = []
    for p in sorted((LEAN / "AasVerif").rglob("*.lean")) + [LEAN / "Driver.lean"]:
        if p.name == "Audit.lean":
            continue
        body = strip_lean_comments(p.read_text())
        for m in FORBIDDEN_RE.finditer(body):
            hits.append(f"{p.relative_to(LEAN)}: {m.group(0).strip()}")
    return hits


def audit(ctx: Ctx, modules: Sequence[str]) -> Tuple[Dict[str, List[str]], List[str]]:
    """Returns ({theorem: axioms}, problems)."""
    problems: List[str] = []
    theorems: Dict[str, List[str]] = {}
    aud = LEAN / ".audit"
    aud.mkdir(exist_ok=True)
    src = "import AasVerif.Audit\n" + "".join(f"import {m}\n" for m in modules)
    src += "".join(f"#audit_module {m}\n" for m in modules)
    f = aud / f"{ctx.prop}.lean"
    f.write_text(src)
    proc = subprocess.run(
        ["lake", "env", "lean", str(f)], cwd=LEAN, stdout=subprocess.PIPE, stderr=subprocess.STDOUT, timeout=1200
    )
    out = proc.stdout.decode(errors="replace")
    if proc.returncode != 0:
        problems.append("audit file failed to elaborate: " + out[-600:])
    for m in re.finditer(r"AUDIT (\S+) : \[([^\]]*)\]", out.replace("\n ", " ")):
        axs = [a.strip() for a in m.group(2).split(",") if a.strip()]
        if re.search(r"\.(eq_\d+|eq_def|match_\d+|proof_\d+|congr_simp|sizeOf_spec|injEq|inj|noConfusion\w*)$", m.group(1)):
            continue  # auxiliary declarations Lean generates on demand, not property theorems
        theorems[m.group(1)] = axs
        bad = [a for a in axs if a not in ALLOWED_AXIOMS]
        if bad:
            problems.append(f"{m.group(1)} depends on {bad}")
    for h in grep_forbidden():
        problems.append("forbidden token " + h)
    return theorems, problems


# --------------------------------------------------------------------------- findings


def load_findings() -> Dict[str, Any]:
    p = VERIF / "known_findings.json"
    if not p.exists():
        return {"findings": [], "fixed": []}
    return json.loads(p.read_text())


def finding_witnesses(prop: str) -> List[Dict[str, Any]]:
    return [f for f in load_findings()["findings"] if f["property"] == prop]


def corpus(prop: str) -> List[Dict[str, Any]]:
    """Minimised past failures (incl. witnesses of fixed defects), always run first."""
    out = []
    d = VERIF / "corpus" / prop
    if d.is_dir():
        for p in sorted(d.glob("*.json")):
            out.append(json.loads(p.read_text()))
    return out


# --------------------------------------------------------------------------- main


def write_evidence(ctx: Ctx, theorems: Dict[str, List[str]], discharged: int, violations: int, known: List[str]) -> None:
    nobl = max(len(theorems), len(ctx.extra_cov.get("declared_theorems", [])))
    cov: Dict[str, Any] = {
        "obligations": nobl,
        "discharged": discharged,
        "checker_cmd": f"cd /verif/lean && lake build AasVerif.Props.{ctx.prop} && lake env lean .audit/{ctx.prop}.lean",
        "trusted_base": TRUSTED_BASE + ctx.assumptions,
        "theorems": {k: v for k, v in sorted(theorems.items())},
        "evaluations": ctx.evaluations,
        "distinct_nontrivial": len(ctx._distinct),
        "rule": ctx.extra_cov.pop("rule", "inputs are distinct by value; trivial ones (as flagged per stream) are not counted"),
        "samples": ctx.samples if ctx.samples else ["(no samples: correspondence did not run)"],
        "traces_validated_against_impl": ctx.traces_validated,
        "streams": ctx.streams,
        "branch_hits": dict(sorted(ctx.hist.items())),
        "zero_hit_branches": sorted(k for k, v in ctx.hist.items() if v == 0),
        "disagreements": ctx.disagreements[:10],
        "broken": ctx.broken,
        "known_findings_printed": known,
        "notes": ctx.notes,
    }
    cov.update(ctx.extra_cov)
    ev = {
        "property_id": ctx.prop,
        "tier": ctx.tier,
        "seed": ctx.seed,
        "level": "proof",
        "coverage": cov,
        "assumptions": ctx.assumptions,
        "wall_s": round(time.time() - ctx.t0, 2),
        "violations": violations,
    }
    (VERIF / "evidence").mkdir(exist_ok=True)
    (VERIF / "evidence" / f"{ctx.prop}.json").write_text(json.dumps(ev, indent=1, ensure_ascii=True) + "\n")


def declared_theorems(module: str) -> List[str]:
    """Names after `theorem` in the source of a Props module (to notice obligations that vanished from a broken build)."""
    p = LEAN / (module.replace(".", "/") + ".lean")
    if not p.exists():
        return []
    body = strip_lean_comments(p.read_text())
    return re.findall(r"^\s*(?:protected\s+|private\s+)?theorem\s+([^\s:({\[]+)", body, re.M)


def run_check(prop: str, tier: str, seed: int, replay: Optional[str]) -> int:
    mod = importlib.import_module(f"harness.props.{prop.lower()}")
    ctx = Ctx(prop, tier, seed)
    sys.path.insert(0, str(REPO))
    try:
        return _run(ctx, mod, replay)
    finally:
        ctx.cleanup()


def _run(ctx: Ctx, mod: Any, replay: Optional[str]) -> int:
    prop = ctx.prop
    props_modules: List[str] = list(getattr(mod, "LEAN_PROPS", [f"AasVerif.Props.{prop}"]))
    # E
    # own generated models + every generated model the property theorems import (re-exported cores of other properties):
    # the theorems are re-checked against what the code says now, not against a table generated on an earlier run
    own_gens = list(getattr(mod, "GEN", []))
    write_gen(ctx, mod, own_gens + [g for g in imported_gens(props_modules) if g not in own_gens])
    # B (driver first: correspondence needs it even if a theorem breaks)
    ok, log = lake_build(["driver"])
    ctx.driver_ok = ok and DRIVER.exists()
    if not ok:
        ctx.broken.append({"stage": "build", "target": "driver", "log": log[-1500:]})
    theorems: Dict[str, List[str]] = {}
    discharged = 0
    declared: List[str] = []
    for m in props_modules:
        declared += declared_theorems(m)
    ctx.extra_cov["declared_theorems"] = declared
    okp, logp = lake_build(props_modules)
    if not okp:
        failing = sorted(set(re.findall(r"error: (\S+\.lean:\d+:\d+)", logp)))
        ctx.broken.append({"stage": "build", "target": " ".join(props_modules), "errors_at": failing[:10], "log": logp[-1500:]})
    else:
        # A
        theorems, problems = audit(ctx, props_modules)
        if problems:
            print("AUDIT PROBLEMS:\n  " + "\n  ".join(problems))
            write_evidence(ctx, theorems, 0, 0, [])
            return 2
        discharged = len(theorems)

    if replay is not None:
        data = json.loads(pathlib.Path(replay).read_text())
        res = mod.replay(ctx, data)
        print(json.dumps(show(res), indent=1))
        return 0

    # C
    if ctx.driver_ok and hasattr(mod, "correspond"):
        mod.correspond(ctx)
    # O
    if hasattr(mod, "oracle"):
        mod.oracle(ctx)

    tie_broken = bool(ctx.broken) or bool(ctx.disagreements)
    if tie_broken and not ctx.failures:
        # search: larger budget, and the oracle on the disagreeing inputs
        ctx.searching = True
        if hasattr(mod, "search"):
            mod.search(ctx)
        elif hasattr(mod, "oracle"):
            ctx.rng = random.Random(ctx.seed + 1)
            mod.oracle(ctx)

    # ---- decision
    known = load_findings()
    known_sigs = {f["sig"]: f for f in known["findings"] if f["property"] == prop}
    printed: List[str] = []
    unlisted = []
    for f in ctx.failures:
        if f["sig"] in known_sigs:
            kf = known_sigs[f["sig"]]
            line = f"KNOWN-FINDING: property={prop} {kf['id']}: {kf['what']}"
            if line not in printed:
                printed.append(line)
        else:
            unlisted.append(f)
    for line in printed:
        print(line)

    rc = 0
    rdir = VERIF / "replays" / prop
    if unlisted:
        rdir.mkdir(parents=True, exist_ok=True)
        first = min(unlisted, key=lambda f: len(json.dumps(f["input"])))
        path = rdir / f"{first['sig'].replace('/', '_').replace(':', '_')[:60]}-{ctx.seed}.json"
        path.write_text(
            json.dumps(
                {
                    "property": prop,
                    "kind": "failing-input",
                    "failure": first,
                    "other_failures": unlisted[:20],
                    "broken": ctx.broken,
                    "disagreements": ctx.disagreements[:5],
                    "replay_cmd": f"./check {prop} --replay {path.relative_to(VERIF)}",
                },
                indent=1,
            )
            + "\n"
        )
        print(f"  failing input: {json.dumps(first['input'])[:300]} -- {first['what'][:300]}")
        print(f"VIOLATION property={prop} replay={path.relative_to(VERIF)}")
        rc = 1
    elif tie_broken:
        rdir.mkdir(parents=True, exist_ok=True)
        path = rdir / f"unproved-{ctx.seed}.json"
        what = []
        for b in ctx.broken:
            if b["stage"] == "extract":
                what.append(f"translator Gen/{b['gen']} no longer applies: {b['error']}")
            else:
                what.append(f"lake build {b['target']} fails at {b.get('errors_at')}")
        for d in ctx.disagreements[:5]:
            what.append(f"correspondence stream {d['stream']} disagrees on {json.dumps(d['input'])[:200]}")
        path.write_text(
            json.dumps(
                {
                    "property": prop,
                    "kind": "broken-proof-or-correspondence",
                    "no_longer_checks": what,
                    "declared_theorems": declared,
                    "broken": ctx.broken,
                    "disagreements": ctx.disagreements,
                    "searched": {"evaluations": ctx.evaluations, "seed": ctx.seed},
                },
                indent=1,
            )
            + "\n"
        )
        for w in what[:6]:
            print("  " + w[:400])
        print(f"VIOLATION property={prop} replay={path.relative_to(VERIF)} no-failing-input-found")
        rc = 1
    write_evidence(ctx, theorems, discharged, len(unlisted) + (1 if rc == 1 and not unlisted else 0), printed)
    if rc == 0:
        print(
            f"OK property={prop} tier={ctx.tier} theorems={discharged} evaluations={ctx.evaluations} "
            f"distinct={len(ctx._distinct)} wall={time.time() - ctx.t0:.1f}s"
        )
    return rc


def main(argv: Optional[List[str]] = None) -> int:
    ap = argparse.ArgumentParser()
    ap.add_argument("prop")
    ap.add_argument("--tier", default=os.environ.get("VERIF_TIER", "quick"), choices=["quick", "thorough"])
    ap.add_argument("--replay", default=None)
    ap.add_argument("--seed", type=int, default=int(os.environ.get("VERIF_SEED", "0") or 0))
    args = ap.parse_args(argv)
    try:
        return run_check(args.prop.upper(), args.tier, args.seed, args.replay)
    except subprocess.TimeoutExpired as e:
        print(f"HARNESS TIMEOUT: {e}")
        return 2
    except Exception:
        traceback.print_exc()
        print("HARNESS ERROR")
        return 2
