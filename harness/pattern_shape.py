"""The front end's demand on inferred patterns (``_verify_patterns_anchored_at_start_and_end``) and the pattern
facet of C14 (what the XSD pattern accepts, the meta-model pattern accepts).

* ``gen_PatternShape``: translator — the counting / non-greedy checks of the function in source order
  -> ``Gen/PatternShape.lean`` (interpreted by ``Model/PatternShape.lean``; ``Props/C14.lean`` proves that
  they imply the hypothesis of the converse pattern theorem).
* ``shape_stage``: correspondence — the REAL function (called on a stand-in symbol table holding one pattern
  verification) against the driver (``shape <pattern>``).
* ``anchor_oracle``: direct oracle (from the statement of C14, independent of the Lean model): for a pattern the
  real front end accepts, a text which Python's ``re`` rejects must be rejected by the XSD pattern facet that the real
  ``_translate_pattern`` writes, under xmlschema (1.0 and 1.1).
"""
from __future__ import annotations

import ast
import pathlib
import types
from typing import Any, Dict, List, Optional, Tuple

from harness.core import Ctx, enc_text, dec_text, crash_name
from harness.extract import ExtractError, _parse, _func, _class

SRC = "aas_core_codegen/intermediate/_translate.py"
FN = "_verify_patterns_anchored_at_start_and_end"

_KIND = {"START": ".start", "END": ".stop"}

_SHAPE_DISJUNCTS = {
    "len(regex.union.uniates) != 1",
    "not isinstance(first_term.value, parse_retree.Symbol)",
    "not first_term.value.kind is parse_retree.SymbolKind.START",
    "not isinstance(last_term.value, parse_retree.Symbol)",
    "not last_term.value.kind is parse_retree.SymbolKind.END",
}
_EMPTY_DISJUNCTS = {"len(regex.union.uniates) == 0", "len(regex.union.uniates[0].concatenants) == 0"}


def _counted_kind(mod: ast.Module, cls_name: str) -> str:
    """The symbol kind which the visitor class counts: ``visit_symbol`` = ``if node.kind is …SymbolKind.X: self.count += 1``."""
    cls = _class(mod, cls_name)
    if [ast.unparse(b) for b in cls.bases] != ["parse_retree.PassThroughVisitor"]:
        raise ExtractError(f"{cls_name} is not a PassThroughVisitor")
    fns = {n.name: n for n in cls.body if isinstance(n, ast.FunctionDef)}
    if sorted(fns) != ["__init__", "visit_symbol"]:
        raise ExtractError(f"{cls_name} defines {sorted(fns)}, expected __init__ and visit_symbol")
    init = [ast.unparse(s) for s in fns["__init__"].body if not (isinstance(s, ast.Expr) and isinstance(s.value, ast.Constant))]
    if init != ["self.count = 0"]:
        raise ExtractError(f"{cls_name}.__init__ is {init}")
    body = [s for s in fns["visit_symbol"].body if not (isinstance(s, ast.Expr) and isinstance(s.value, ast.Constant))]
    if len(body) != 1 or not isinstance(body[0], ast.If) or body[0].orelse:
        raise ExtractError(f"{cls_name}.visit_symbol has an unknown shape")
    test = ast.unparse(body[0].test)
    inc = [ast.unparse(s) for s in body[0].body]
    prefix = "node.kind is parse_retree.SymbolKind."
    if not test.startswith(prefix) or test[len(prefix):] not in _KIND or inc != ["self.count += 1"]:
        raise ExtractError(f"{cls_name}.visit_symbol: {test} / {inc}")
    return _KIND[test[len(prefix):]]


def _appends_error(stmts: List[ast.stmt]) -> bool:
    return any(
        isinstance(s, ast.Expr) and isinstance(s.value, ast.Call) and ast.unparse(s.value.func) == "errors.append"
        for s in stmts
    )


def gen_PatternShape(repo: pathlib.Path) -> str:
    mod = _parse(repo, SRC)
    fn = _func(mod, FN)
    # it must be part of the verification of the symbol table
    called = any(
        isinstance(n, ast.Call) and ast.unparse(n.func) == "errors.extend" and n.args and isinstance(n.args[0], ast.Call)
        and ast.unparse(n.args[0].func) == FN
        for n in ast.walk(mod)
    )
    if not called:
        raise ExtractError(f"{FN} is not called through errors.extend(...) any more")
    loops = [s for s in fn.body if isinstance(s, ast.For)]
    if len(loops) != 1 or ast.unparse(loops[0].iter) != "symbol_table.verification_functions":
        raise ExtractError("the loop over symbol_table.verification_functions was not found")
    inner = loops[0].body
    if len(inner) != 1 or not isinstance(inner[0], ast.If) or ast.unparse(inner[0].test) != "isinstance(verification, PatternVerification)" or inner[0].orelse:
        raise ExtractError("the loop body is not `if isinstance(verification, PatternVerification):`")
    stmts = inner[0].body
    var_cls: Dict[str, str] = {}
    checks: List[str] = []
    seen_parse = seen_empty = seen_shape = False
    first_last: Dict[str, str] = {}
    for s in stmts:
        if isinstance(s, ast.Assign) and len(s.targets) == 1 and isinstance(s.targets[0], ast.Name):
            name = s.targets[0].id
            src = ast.unparse(s.value)
            if name in ("first_term", "last_term"):
                first_last[name] = src
            elif isinstance(s.value, ast.Call) and isinstance(s.value.func, ast.Name) and not s.value.args and not s.value.keywords:
                var_cls[name] = s.value.func.id
            elif isinstance(s.value, ast.Tuple) or name == "regex":
                pass
            continue
        if isinstance(s, ast.Assign) and isinstance(s.targets[0], ast.Tuple):
            if ast.unparse(s.value) != "parse_retree.parse([verification.pattern])" or ast.unparse(s.targets[0]) not in ("(regex, error)", "regex, error"):
                raise ExtractError(f"unknown assignment: {ast.unparse(s)[:80]}")
            continue
        if isinstance(s, (ast.Assert, ast.Expr)):
            if isinstance(s, ast.Expr) and isinstance(s.value, ast.Call):
                src = ast.unparse(s.value)
                ok = any(src == f"{v}.visit(regex)" for v in var_cls)
                if not ok:
                    raise ExtractError(f"unknown call: {src[:80]}")
            continue
        if not isinstance(s, ast.If) or s.orelse:
            raise ExtractError(f"unknown statement: {ast.unparse(s)[:80]}")
        test = s.test
        src = ast.unparse(test)
        ends_with_continue = isinstance(s.body[-1], ast.Continue)
        if src == "error is not None":
            if not (_appends_error(s.body) and ends_with_continue) or seen_empty or seen_shape or checks:
                raise ExtractError("the parse-error branch changed")
            seen_parse = True
        elif isinstance(test, ast.BoolOp) and isinstance(test.op, ast.Or) and {ast.unparse(v) for v in test.values} == _EMPTY_DISJUNCTS:
            if not (_appends_error(s.body) and ends_with_continue) or seen_shape or checks:
                raise ExtractError("the empty-pattern branch changed")
            seen_empty = True
        elif isinstance(test, ast.BoolOp) and isinstance(test.op, ast.Or) and {ast.unparse(v) for v in test.values} == _SHAPE_DISJUNCTS:
            if not (_appends_error(s.body) and ends_with_continue) or checks:
                raise ExtractError("the not-anchored branch changed")
            seen_shape = True
        elif (
            isinstance(test, ast.Compare) and len(test.ops) == 1 and isinstance(test.ops[0], ast.Gt)
            and isinstance(test.left, ast.Attribute) and test.left.attr == "count" and isinstance(test.left.value, ast.Name)
            and isinstance(test.comparators[0], ast.Constant) and isinstance(test.comparators[0].value, int)
        ):
            var = test.left.value.id
            if var not in var_cls or not _appends_error(s.body) or ends_with_continue:
                raise ExtractError(f"the counting check on {var} changed")
            checks.append(f".count {_counted_kind(mod, var_cls[var])} {test.comparators[0].value}")
        elif isinstance(test, ast.Attribute) and test.attr == "has_non_greedy_quantifiers":
            if not _appends_error(s.body) or ends_with_continue:
                raise ExtractError("the non-greedy check changed")
            checks.append(".nonGreedy")
        else:
            raise ExtractError(f"unknown condition: {src[:100]}")
    if not (seen_parse and seen_empty and seen_shape):
        raise ExtractError("one of the parse / empty / not-anchored branches is missing")
    if first_last != {"first_term": "regex.union.uniates[0].concatenants[0]", "last_term": "regex.union.uniates[0].concatenants[-1]"}:
        raise ExtractError(f"first_term / last_term are {first_last}")
    return (
        "import AasVerif.Model.PatternShape\n"
        f"/-! GENERATED by harness/pattern_shape.py from {SRC} ({FN}) — do not edit. -/\n"
        "namespace AasVerif.Gen.PatternShape\nopen AasVerif.PatternShape AasVerif.Retree\n"
        "/-- the checks after the parse / empty / `^ … $` checks, in source order -/\n"
        f"def checks : List Check := [{', '.join(checks)}]\n"
        "end AasVerif.Gen.PatternShape\n"
    )


# --------------------------------------------------------------------------- the real function


_MESSAGES = [
    ("Failed to parse the pattern", "parse"),
    ("The pattern is empty", "empty"),
    ("We expect all the patterns to be anchored", "not-anchored"),
    ("We expect the start anchor", "too-many-start"),
    ("We expect the end anchor", "too-many-stop"),
    ("We do not support non-greedy quantifiers", "non-greedy"),
]


def impl_shape(p: str) -> str:
    """Canonical outcome of the real check for one pattern: ``ok`` | ``err <kind>,<kind>…`` | ``crash:<Type>``."""
    from aas_core_codegen.intermediate import _translate, _types

    pv = object.__new__(_types.PatternVerification)
    pv.pattern = p
    pv.name = "matches_something"
    pv.parsed = types.SimpleNamespace(node=None)
    st = types.SimpleNamespace(verification_functions=[pv])
    try:
        errors = getattr(_translate, FN)(symbol_table=st)
    except BaseException as e:  # noqa
        return crash_name(e)
    kinds = []
    for e in errors:
        msg = e.message
        for needle, kind in _MESSAGES:
            if needle in msg:
                kinds.append(kind)
                break
        else:
            kinds.append("other:" + msg[:40])
    return "ok" if not kinds else "err " + ",".join(kinds)


#: anchors in every unusual position (seed independent)
ANCHOR_PATTERNS = [
    "^a$b$", "^a$$", "^$a$", "^a($|b)$", "^(a$)?b$", "^(a$|b)c$", "^a(b$)$", "^(a|b$)$", "^a($)b$", "^($)$", "^$$",
    "^a^b$", "^^a$", "^(^a)$", "^a(^|b)$", "^(^a|b)$", "^a$^b$", "^($^)*$",
    "^a\\$b$", "^a[$]b$", "^a\\^b$", "^a[\\^]b$", "^[^$]$", "^a|b$", "^a$|^b$", "(^a$)", "^(a|b)$", "^a*$", "^a*?$", "^(a+?)b$", "^a{1,2}?$",
    "^$", "^", "$", "", "a", "^a", "a$", "$a^", "^a$\n", "^\\$$", "^\\^$", "^.$", "^a.*$b$", "^a(b|$)c$",
]


def _patterns(ctx: Ctx) -> List[Tuple[str, str]]:
    from harness.props import c13

    pats = [(p, "anchors") for p in ANCHOR_PATTERNS]
    general = c13._patterns(ctx)
    fixed = [(p, s) for p, s in general if s != "random"]
    rnd = [(p, s) for p, s in general if s == "random"]
    pats += fixed[: ctx.n(400, 4000)] + rnd[: ctx.n(150, 3000)]
    # anchors planted into ordinary patterns
    extra = []
    for p, _ in (fixed + rnd)[: ctx.n(120, 1500)]:
        if len(p) >= 3 and p.startswith("^") and p.endswith("$"):
            k = 1 + ctx.rng.randrange(len(p) - 2)
            extra.append((p[:k] + ctx.rng.choice(["$", "^", "($)", "(^)"]) + p[k:], "planted"))
    pats += extra
    seen = set()
    out = []
    for p, s in pats:
        if p not in seen:
            seen.add(p)
            out.append((p, s))
    return out


def shape_stage(ctx: Ctx) -> None:
    """Real ``_verify_patterns_anchored_at_start_and_end`` == Model/PatternShape.lean on Gen/PatternShape.lean."""
    pats = _patterns(ctx)
    got = [impl_shape(p) for p, _ in pats]
    want = ctx.model(["shape " + enc_text(p) for p, _ in pats])
    for (p, stream), g, w in zip(pats, got, want):
        ctx.count("shape" + p, nontrivial=len(p) > 2, stream="shape/" + stream)
        ctx.traces_validated += 1
        ctx.hit("front-end-shape=" + g.split(",")[0])
        if g != w:
            ctx.disagree("shape/" + stream, {"pattern": p}, g, w)


def anchor_oracle(ctx: Ctx) -> None:
    """For patterns the real front end accepts: Python rejects a text => the written XSD pattern rejects it."""
    from aas_core_codegen.parse import retree
    from harness.props import c13

    pats = [(p, s) for p, s in _patterns(ctx) if impl_shape(p) == "ok"]
    outs = [c13.impl_translate(p) for p, _ in pats]
    translated = [(i, dec_text(o[3:])) for i, o in enumerate(outs) if o.startswith("ok ")]
    texts = [t for _, t in translated]
    ty10 = c13.load_facets(texts, "1.0")
    ty11 = c13.load_facets(texts, "1.1")
    for k, t in enumerate(texts):
        if c13.xmlschema_blind(t) and c13.spec_validate(t) is None:
            ty10[k] = ty11[k] = c13.PyFacet(t)
    for k, (i, t) in enumerate(translated):
        p, stream = pats[i]
        try:
            tree, _ = retree.parse([p])
        except BaseException:  # noqa
            tree = None
        ctx.count("enforce" + p, nontrivial=len(p) > 2, stream="pattern-enforced/" + stream)
        cands = c13.candidate_strings(ctx, p, tree)
        # neighbours of the language: samples with one character dropped / doubled / replaced
        more = []
        for s in cands[:6]:
            if s:
                j = ctx.rng.randrange(len(s))
                more += [s[:j] + s[j + 1:], s[:j] + s[j] + s[j:], s[:j] + "~" + s[j + 1:], s + s[-1], s[1:]]
        stripped = p[1:-1] if p.startswith("^") and p.endswith("$") else p
        more += [stripped, stripped.replace("$", "").replace("^", ""), p]
        for s in cands + [m for m in more if c13.is_xml_string(m) and len(m) <= 60]:
            py = c13._py_fullmatch(p, s)
            if py is None:
                ctx.hit("python-match=gave-up")
                continue
            if py:
                ctx.hit("text=matches")
                continue
            ctx.hit("text=breaks-pattern")
            for ver, tys in (("1.0", ty10), ("1.1", ty11)):
                if isinstance(tys[k], str):
                    continue
                v = c13.facet_valid(tys[k], s)
                if v is True:
                    ctx.fail(
                        {"pattern": p, "text": s},
                        f"the front end accepts the pattern {p!r}; Python rejects {s!r} for it, the XSD {ver} pattern {t!r} written for it accepts it",
                        "C14:pattern-accepts-invalid:" + c13._shape_of(tree),
                    )
                    break
            else:
                ctx.hit("breaking-text=rejected-by-xsd")
                continue
            break
