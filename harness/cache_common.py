"""Scenarios, correspondence and the schedule-level oracle shared by C23 and C24."""
from __future__ import annotations

import hashlib
import itertools
import pathlib
from typing import Any, Dict, Iterator, List, Optional, Sequence, Tuple

from harness import cache_rig as rig
from harness.core import REPO, Ctx

Event = Tuple[Any, ...]
INVALID = (7, 8, 9)
BASES = ["enum", "constrained_primitives", "deep_class_hierarchy"]


def texts_for(base: str = "enum") -> Dict[int, str]:
    src = (REPO / "dev" / "test_data" / "common_meta_models" / f"{base}.py").read_text(encoding="utf-8")
    texts = {0: src}
    for k in range(1, 6):
        texts[k] = src + f"\n# edit {k}\n"
    texts[7] = src + "\n\nclass Something:\n    pass\n"  # duplicate symbol: symbol-table error
    texts[8] = "import os\n" + src  # unexpected import
    texts[9] = "class (\n"  # syntax error
    return texts


# program lengths (only used to build schedules that run to completion; over-long is harmless)
FULL = 18


def sp(t: int, f: int = 1) -> Event:
    return ("sp", t, f)


def st(i: int, n: int = 1) -> List[Event]:
    return [("st", i)] * n


def sequential_scenarios() -> Iterator[Tuple[str, List[Event], bool]]:
    yield "cold", [sp(0)] + st(0, FULL), False
    yield "cold-warm", [sp(0)] + st(0, FULL) + [sp(0)] + st(1, FULL), False
    yield "uncached", [sp(0, 0)] + st(0, FULL), False
    yield "uncached-after-cold", [sp(0)] + st(0, FULL) + [sp(0, 0)] + st(1, FULL) + [sp(0)] + st(2, FULL), False
    yield "uncached-then-cached", [sp(0, 0)] + st(0, FULL) + [sp(0)] + st(1, FULL) + [sp(0, 0)] + st(2, FULL), False
    yield "edited", (
        [sp(0)] + st(0, FULL) + [sp(1)] + st(1, FULL) + [sp(0)] + st(2, FULL) + [sp(1)] + st(3, FULL) + [sp(2, 0)] + st(4, FULL)
    ), False
    for bad in INVALID:
        yield f"invalid-{bad}", [sp(bad)] + st(0, FULL) + [sp(bad)] + st(1, FULL) + [sp(bad, 0)] + st(2, FULL), False
    yield "edit-to-invalid-and-back", (
        [sp(0)] + st(0, FULL) + [sp(9)] + st(1, FULL) + [sp(0)] + st(2, FULL) + [sp(7)] + st(3, FULL) + [sp(3)] + st(4, FULL)
    ), False
    # partial progress of one run only
    for k in range(0, FULL):
        yield f"prefix-{k}", [sp(0)] + st(0, k), False


def crash_scenarios() -> Iterator[Tuple[str, List[Event], bool]]:
    follow = lambda i: [sp(0)] + st(i, FULL) + [sp(0, 0)] + st(i + 1, FULL) + [sp(0)] + st(i + 2, FULL)  # noqa: E731
    for kind in ("ex", "ki"):
        for k in range(0, 14):
            # cold run crashing at op index k
            yield f"cold-{kind}@{k}", [sp(0)] + st(0, k) + [(kind, 0)] + st(0, 4) + follow(1), False
            if k in (8, 9):
                yield f"cold-{kind}@{k}-mid", [sp(0)] + st(0, k) + [(kind, 0)] + st(0, 4) + follow(1), True
        for k in range(0, 8):
            # warm run crashing at op index k
            yield f"warm-{kind}@{k}", [sp(0)] + st(0, FULL) + [sp(0)] + st(1, k) + [(kind, 1)] + st(1, 4) + follow(2), False
    # exception inside the finally part, and two crashes in a row
    yield "exc-then-exc-in-finally", [sp(0)] + st(0, 9) + [("ex", 0), ("ex", 0)] + follow(1), False
    yield "exc-then-kill-in-finally", [sp(0)] + st(0, 9) + [("ex", 0), ("ki", 0)] + follow(1), False
    yield "two-crashed-writers", [sp(0), sp(0)] + st(0, 9) + st(1, 10) + [("ki", 0), ("ki", 1)] + follow(2), True


# the write section of a cold cached run, cut into blocks (ops after `compute`)
WRITE_BLOCKS = [3, 1, 1, 1, 2]  # mkdir+freshUid+openW | dump | closeW | rename | unlink+return
PREFIX = 5  # readText hashText tempDir exists compute


def interleavings(n_a: int, n_b: int) -> Iterator[Tuple[int, ...]]:
    for pos in itertools.combinations(range(n_a + n_b), n_a):
        s = set(pos)
        yield tuple(0 if k in s else 1 for k in range(n_a + n_b))


def two_writer_scenarios(t_a: int, t_b: int) -> Iterator[Tuple[str, List[Event], bool]]:
    nb = len(WRITE_BLOCKS)
    for order in interleavings(nb, nb):
        ev: List[Event] = [sp(t_a), sp(t_b)] + st(0, PREFIX) + st(1, PREFIX)
        cnt = [0, 0]
        for who in order:
            ev += st(who, WRITE_BLOCKS[cnt[who]])
            cnt[who] += 1
        ev += [sp(t_a)] + st(2, FULL) + [sp(t_b, 0)] + st(3, FULL)
        yield f"2w-{t_a}{t_b}-" + "".join(map(str, order)), ev, False


def reader_scenarios() -> Iterator[Tuple[str, List[Event], bool]]:
    for t_b in (0, 1):
        for k in range(0, 14):
            for j in (4, 5, 7):
                # writer A does k ops, reader B does j ops (up to exists / open / load), A goes on, B finishes
                yield f"reader-{t_b}-{k}-{j}", [sp(0), sp(t_b)] + st(0, k) + st(1, j) + st(0, FULL) + st(1, FULL), False


def random_schedule(rng: Any, nproc: int, length: int) -> List[Event]:
    ev: List[Event] = []
    spawned = 0
    for _ in range(length):
        r = rng.random()
        if spawned == 0 or (spawned < nproc and r < 0.12):
            ev.append(sp(rng.choice([0, 0, 0, 1, 1, 2, 9, 7]), 1 if rng.random() < 0.85 else 0))
            spawned += 1
        elif r < 0.17:
            ev.append(("ex", rng.randrange(spawned)))
        elif r < 0.20:
            ev.append(("ki", rng.randrange(spawned)))
        else:
            i = rng.randrange(spawned)
            ev += st(i, rng.choice([1, 1, 1, 2, 3, 5]))
    # let everything finish, then a fresh cached and an uncached run
    for i in range(spawned):
        ev += st(i, FULL)
    ev += [sp(0)] + st(spawned, FULL) + [sp(0, 0)] + st(spawned + 1, FULL)
    return ev


# --------------------------------------------------------------------------- oracle on the real world


class Judge:
    """The statements of C23/C24 at schedule level, decided on the real file system and real results."""

    def __init__(self, ctx: Ctx, name: str, sched: Sequence[Event], mid: bool, base: str) -> None:
        self.ctx = ctx
        self.name = name
        self.sched = list(sched)
        self.mid = mid
        self.base = base
        self.memo: Dict[str, Tuple[bool, str]] = {}
        self.faulted = {e[1] for e in sched if e[0] in ("ex", "ki")}
        self.reported: set = set()

    def fail(self, k: int, sig: str, what: str) -> None:
        if sig in self.reported:
            return
        self.reported.add(sig)
        self.ctx.fail(
            {"kind": "schedule", "name": self.name, "base": self.base, "sched": [list(e) for e in self.sched[: k + 1]], "mid_dump": self.mid},
            what,
            f"{self.ctx.prop}:{sig}",
        )

    def observe(self, world: rig.World, k: int) -> None:
        d = world.cache_dir()
        if d is not None:
            for p in d.iterdir():
                kind = world.kind(p)
                if kind == "final":
                    data = p.read_bytes()
                    dg = hashlib.blake2b(data, digest_size=12).hexdigest()
                    if dg not in self.memo:
                        self.memo[dg] = world.load_file(p)
                    ok, src = self.memo[dg]
                    name_id = world.canon(p)[1:]
                    if not ok:
                        self.fail(k, "partial-final-entry", f"after event {k} the cache entry {p.name} cannot be unpickled (partially written), a run would read it")
                    elif src != name_id:
                        self.fail(k, "foreign-final-entry", f"after event {k} the cache entry for text {name_id} holds the symbol table of text {src}")
                elif kind != "tmp":
                    self.fail(k, "stray-not-tmp", f"after event {k} the cache directory holds {p.name}, neither an entry nor a *.tmp file")
        extra = [p for p in world.tmpdir.iterdir() if p != d]
        if extra:
            self.fail(k, "write-outside-cache-dir", f"after event {k} the temp directory holds {[p.name for p in extra][:3]}")
        for pr in world.procs:
            if not pr.finished:
                continue
            valid = pr.text_id not in INVALID
            want = f"ok:{pr.text_id}" if valid else f"err:{pr.text_id}"
            if pr.outcome in ("killed",):
                continue
            if pr.outcome == "crashed":
                if pr.idx not in self.faulted:
                    self.fail(k, f"spurious-crash:{pr.exc_type}", f"run {pr.idx} (text {pr.text_id}, flag {pr.flag}) raised {pr.exc_type} although no fault was injected into it")
                continue
            if pr.outcome != want:
                self.fail(k, "result-differs-from-uncached", f"run {pr.idx} (text {pr.text_id}, flag {pr.flag}) returned {pr.outcome}, an uncached run returns {want}")
            elif pr.result is not None and pr.outcome.startswith("ok"):
                ref = reference(world.texts[pr.text_id])
                got = fingerprint(pr.result)
                if got != ref:
                    self.fail(k, "symbol-table-differs-from-uncached", f"run {pr.idx}: symbol table differs from the one of an uncached run")
            elif pr.result is not None and pr.outcome.startswith("err"):
                if pr.result[1] != reference(world.texts[pr.text_id]):
                    self.fail(k, "error-differs-from-uncached", f"run {pr.idx}: error message differs from the one of an uncached run")
        # runs without the flag never touch the cache
        for entry in world.log:
            i = int(entry.split(":")[0])
            if not world.procs[i].flag:
                self.fail(k, "uncached-run-touches-cache", f"run {i} without cache_model did {entry}")
        for entry in world.trace:
            i, _, op = entry.partition(":")
            if not world.procs[int(i)].flag and op.rstrip("!") not in ("readText", "compute", "return"):
                self.fail(k, "uncached-run-touches-cache", f"run {i} without cache_model executed {op}")
            if op.rstrip("!") in ("exists.tmp", "openR.tmp"):
                self.fail(k, "tmp-not-ignored", f"run {i} looked at a temporary file ({op})")


_REF: Dict[str, Any] = {}


def fingerprint(res: Any) -> Any:
    if res[1] is not None:
        return res[1]
    stbl, atok = res[0]
    out = [atok.text]
    for t in stbl.our_types:
        out.append((type(t).__name__, str(t.name), [str(p.name) for p in getattr(t, "properties", [])], [str(x.name) for x in getattr(t, "literals", [])]))
    return out


def reference(text: str) -> Any:
    """Result of an uncached load of ``text`` (computed once, outside any run thread)."""
    if text not in _REF:
        import tempfile

        from aas_core_codegen import run

        with tempfile.TemporaryDirectory() as d:
            p = pathlib.Path(d) / "m.py"
            p.write_text(text, encoding="utf-8")
            _REF[text] = fingerprint(run.load_model(p, cache_model=False))
    return _REF[text]


# --------------------------------------------------------------------------- driver of a batch


def run_batch(ctx: Ctx, scenarios: Sequence[Tuple[str, List[Event], bool]], stream: str, base: str = "enum", with_model: bool = True) -> None:
    texts = texts_for(base)
    for t in texts.values():
        reference(t)
    reqs = [rig.model_request(INVALID, ev) for _, ev, _ in scenarios]
    mouts: List[Optional[str]] = [None] * len(scenarios)
    if with_model and ctx.driver_ok:
        mouts = list(ctx.model_as("C23", reqs))
    root = ctx.scratch()
    with rig.Patched():
        for k, (name, ev, mid) in enumerate(scenarios):
            wroot = root / f"w{ctx.evaluations}"
            judge = Judge(ctx, name, ev, mid, base)
            real, world = rig.run_real(wroot, texts, ev, mid_dump=mid, observer=judge.observe)
            nontrivial = sum(1 for e in ev if e[0] == "sp" and e[2]) >= 1
            ctx.count((base, tuple(ev), mid), nontrivial=nontrivial, stream=stream)
            for o in real["procs"]:
                ctx.hit("outcome=" + o.split(":")[0].split("@")[0])
            for f in real["files"]:
                ctx.hit("file=" + f[0] + ("-complete" if f.endswith(":1") else "-incomplete"))
            for t in real["trace"]:
                if t.endswith("!"):
                    ctx.hit("raised@" + t.split(":")[1])
            if any(e[0] == "ki" for e in ev):
                ctx.hit("event=kill")
            if any(e[0] == "ex" for e in ev):
                ctx.hit("event=exc")
            if k % 97 == 0:
                ctx.sample({"scenario": name, "events": len(ev), "procs": real["procs"], "files": real["files"]})
            if mouts[k] is not None:
                ctx.traces_validated += 1
                if mouts[k] == "bad-op":
                    ctx.disagree(stream, {"kind": "schedule", "name": name, "base": base, "sched": [list(e) for e in ev], "mid_dump": mid}, real, "bad-op")
                else:
                    model = rig.parse_model_state(mouts[k])  # type: ignore
                    if model != real:
                        diff = {key: {"impl": real[key], "model": model[key]} for key in real if real[key] != model.get(key)}
                        ctx.disagree(stream, {"kind": "schedule", "name": name, "base": base, "sched": [list(e) for e in ev], "mid_dump": mid}, diff, "see impl")
            import shutil

            shutil.rmtree(wroot, ignore_errors=True)


def replay_schedule(ctx: Ctx, inp: Dict[str, Any]) -> Dict[str, Any]:
    ev = [tuple(e) for e in inp["sched"]]
    base = inp.get("base", "enum")
    mid = bool(inp.get("mid_dump", False))
    texts = texts_for(base)
    before = len(ctx.failures)
    judge = Judge(ctx, inp.get("name", "replay"), ev, mid, base)
    with rig.Patched():
        real, _ = rig.run_real(ctx.scratch() / "replay", texts, ev, mid_dump=mid, observer=judge.observe)
    res: Dict[str, Any] = {"impl": real, "oracle": [(f["sig"], f["what"]) for f in ctx.failures[before:]]}
    if ctx.driver_ok:
        res["model"] = rig.parse_model_state(ctx.model_as("C23", [rig.model_request(INVALID, ev)])[0])
        res["agree"] = res["model"] == real
    return res
