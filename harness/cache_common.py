"""Scenarios, correspondence and the schedule-level oracle shared by C23 and C24."""
from __future__ import annotations

import hashlib
import itertools
import pathlib
from typing import Any, Dict, Iterator, List, Optional, Sequence, Tuple

from harness import cache_rig as rig
from harness.core import REPO, Ctx

Event = Tuple[Any, ...]
INVALID = (7, 8, 9)
BASES = ["enum", "constrained_primitives", "deep_class_hierarchy"]


def texts_for(base: str = "enum") -> Dict[int, str]:
    src = (REPO / "dev" / "test_data" / "common_meta_models" / f"{base}.py").read_text(encoding="utf-8")
    texts = {0: src}
    for k in range(1, 6):
        texts[k] = src + f"\n# edit {k}\n"
    texts[7] = src + "\n\nclass Something:\n    pass\n"  # duplicate symbol: symbol-table error
    texts[8] = "import os\n" + src  # unexpected import
    texts[9] = "class (\n"  # syntax error
    return texts


# program lengths (only used to build schedules that run to completion; over-long is harmless)
FULL = 18


def sp(t: int, f: int = 1) -> Event:
    return ("sp", t, f)


def st(i: int, n: int = 1) -> List[Event]:
    return [("st", i)] * n


def sequential_scenarios() -> Iterator[Tuple[str, List[Event], bool]]:
    yield "cold", [sp(0)] + st(0, FULL), False
    yield "cold-warm", [sp(0)] + st(0, FULL) + [sp(0)] + st(1, FULL), False
    yield "uncached", [sp(0, 0)] + st(0, FULL), False
    yield "uncached-after-cold", [sp(0)] + st(0, FULL) + [sp(0, 0)] + st(1, FULL) + [sp(0)] + st(2, FULL), False
    yield "uncached-then-cached", [sp(0, 0)] + st(0, FULL) + [sp(0)] + st(1, FULL) + [sp(0, 0)] + st(2, FULL), False
    yield "edited", (
        [sp(0)] + st(0, FULL) + [sp(1)] + st(1, FULL) + [sp(0)] + st(2, FULL) + [sp(1)] + st(3, FULL) + [sp(2, 0)] + st(4, FULL)
    ), False
    for bad in INVALID:
        yield f"invalid-{bad}", [sp(bad)] + st(0, FULL) + [sp(bad)] + st(1, FULL) + [sp(bad, 0)] + st(2, FULL), False
    yield "edit-to-invalid-and-back", (
        [sp(0)] + st(0, FULL) + [sp(9)] + st(1, FULL) + [sp(0)] + st(2, FULL) + [sp(7)] + st(3, FULL) + [sp(3)] + st(4, FULL)
    ), False
    # partial progress of one run only
    for k in range(0, FULL):
        yield f"prefix-{k}", [sp(0)] + st(0, k), False


def crash_scenarios() -> Iterator[Tuple[str, List[Event], bool]]:
    follow = lambda i: [sp(0)] + st(i, FULL) + [sp(0, 0)] + st(i + 1, FULL) + [sp(0)] + st(i + 2, FULL)  # noqa: E731
    for kind in ("ex", "ki"):
        for k in range(0, 14):
            # cold run crashing at op index k
            yield f"cold-{kind}@{k}", [sp(0)] + st(0, k) + [(kind, 0)] + st(0, 4) + follow(1), False
            if k in (8, 9):
                yield f"cold-{kind}@{k}-mid", [sp(0)] + st(0, k) + [(kind, 0)] + st(0, 4) + follow(1), True
        for k in range(0, 8):
            # warm run crashing at op index k
            yield f"warm-{kind}@{k}", [sp(0)] + st(0, FULL) + [sp(0)] + st(1, k) + [(kind, 1)] + st(1, 4) + follow(2), False
    # exception inside the finally part, and two crashes in a row
    yield "exc-then-exc-in-finally", [sp(0)] + st(0, 9) + [("ex", 0), ("ex", 0)] + follow(1), False
    yield "exc-then-kill-in-finally", [sp(0)] + st(0, 9) + [("ex", 0), ("ki", 0)] + follow(1), False
    yield "two-crashed-writers", [sp(0), sp(0)] + st(0, 9) + st(1, 10) + [("ki", 0), ("ki", 1)] + follow(2), True


# the write section of a cold cached run, cut into blocks (ops after `compute`)
WRITE_BLOCKS = [3, 1, 1, 1, 2]  # mkdir+freshUid+openW | dump | closeW | rename | unlink+return
PREFIX = 5  # readText hashText tempDir exists compute


def interleavings(n_a: int, n_b: int) -> Iterator[Tuple[int, ...]]:
    for pos in itertools.combinations(range(n_a + n_b), n_a):
        s = set(pos)
        yield tuple(0 if k in s else 1 for k in range(n_a + n_b))


def two_writer_scenarios(t_a: int, t_b: int) -> Iterator[Tuple[str, List[Event], bool]]:
    nb = len(WRITE_BLOCKS)
    for order in interleavings(nb, nb):
        ev: List[Event] = [sp(t_a), sp(t_b)] + st(0, PREFIX) + st(1, PREFIX)
        cnt = [0, 0]
        for who in order:
            ev += st(who, WRITE_BLOCKS[cnt[who]])
            cnt[who] += 1
        ev += [sp(t_a)] + st(2, FULL) + [sp(t_b, 0)] + st(3, FULL)
        if t_b != t_a:
            # every later cached load of either model must return that model's table (foreign-entry detection)
            ev += [sp(t_b)] + st(4, FULL) + [sp(t_a, 0)] + st(5, FULL)
        yield f"2w-{t_a}{t_b}-" + "".join(map(str, order)), ev, False


COLD_OPS = 13  # readText hashText tempDir exists compute | mkdir freshUid openW dump closeW rename unlink return
WARM_OPS = 7  # readText hashText tempDir exists openR load return
MISS = 4  # ops up to and including the `exists` test


def three_run_scenarios(t_b: int = 0, t_w: int = 0, ks: Optional[Sequence[int]] = None) -> Iterator[Tuple[str, List[Event], bool]]:
    """>= 3 runs, B and W missing the cache (B on text t_b, W on t_w), C hitting W's entry:
    B pauses at every op boundary p of its write section, W commits, C does k ops of its hit path, B resumes and finishes,
    C finishes; then a cached and an uncached load of every text involved.  Orders of the three runs: B pauses before W
    starts (`BpW`), both do their miss prefix first (`BW`, `WB`)."""
    ks = list(range(0, WARM_OPS + 1)) if ks is None else list(ks)
    for order in ("BpW", "BW", "WB"):
        for p in range(MISS + 1, COLD_OPS):
            for k in ks:
                ev: List[Event] = [sp(t_b), sp(t_w)]  # run 0 = B, run 1 = W
                if order == "BpW":
                    ev += st(0, p) + st(1, FULL)
                elif order == "BW":
                    ev += st(0, MISS) + st(1, MISS) + st(0, p - MISS) + st(1, FULL)
                else:
                    ev += st(1, MISS) + st(0, MISS) + st(0, p - MISS) + st(1, FULL)
                ev += [sp(t_w)] + st(2, k) + st(0, FULL) + st(2, FULL)  # run 2 = C
                ev += [sp(t_w)] + st(3, FULL) + [sp(t_w, 0)] + st(4, FULL)
                if t_b != t_w:
                    ev += [sp(t_b)] + st(5, FULL) + [sp(t_b, 0)] + st(6, FULL)
                yield f"3r-{t_b}{t_w}-{order}-p{p}-k{k}", ev, False


def random_same_model_schedule(rng: Any, nproc: int) -> List[Event]:
    """nproc runs with the flag on ONE text started at random moments, stepped at random, no faults: paused cache-miss
    writers, committing writers and later cache-hit runs in a random order; then a cached and an uncached load."""
    t = rng.choice([0, 0, 1])
    ev: List[Event] = [sp(t)]
    spawned = 1
    left = {0: COLD_OPS + 1}
    while left:
        if spawned < nproc and rng.random() < 0.15:
            ev.append(sp(t))
            left[spawned] = COLD_OPS + 1
            spawned += 1
            continue
        i = rng.choice(sorted(left))
        n = min(rng.choice([1, 1, 2, 3, 5, 9, 13]), left[i])
        ev += st(i, n)
        left[i] -= n
        if left[i] <= 0:
            del left[i]
        if not left and spawned < nproc:
            ev.append(sp(t))
            left[spawned] = COLD_OPS + 1
            spawned += 1
    ev += [sp(t)] + st(spawned, FULL) + [sp(t, 0)] + st(spawned + 1, FULL)
    return ev


def reader_scenarios() -> Iterator[Tuple[str, List[Event], bool]]:
    for t_b in (0, 1):
        for k in range(0, 14):
            for j in (4, 5, 7):
                # writer A does k ops, reader B does j ops (up to exists / open / load), A goes on, B finishes
                yield f"reader-{t_b}-{k}-{j}", [sp(0), sp(t_b)] + st(0, k) + st(1, j) + st(0, FULL) + st(1, FULL), False


def two_reader_scenarios() -> Iterator[Tuple[str, List[Event], bool]]:
    """A committed entry and two cache-HIT runs on it: R1 does j ops, R2 does k ops, R1 finishes, R2 finishes
    (a hit path that modifies the directory — tidying, touching, deleting — is only seen by a second reader)."""
    for j in range(0, WARM_OPS + 1):
        for k in range(0, WARM_OPS + 1):
            ev: List[Event] = [sp(0)] + st(0, FULL) + [sp(0), sp(0)] + st(1, j) + st(2, k) + st(1, FULL) + st(2, FULL)
            ev += [sp(0)] + st(3, FULL) + [sp(0, 0)] + st(4, FULL)
            yield f"2r-{j}-{k}", ev, False


def ed(i: int, t: int) -> Event:
    return ("ed", i, t)


def edit_scenarios() -> Iterator[Tuple[str, List[Event], bool]]:
    """The model file is SAVED with another text while a cached run on it is under way (after p ops of the run), then
    cached and uncached runs on the new and on the old text: every run answers for the text it read, every entry holds
    the table of the text it is named after."""
    after = lambda i, new, old: (  # noqa: E731
        [sp(new)] + st(i, FULL) + [sp(new, 0)] + st(i + 1, FULL) + [sp(new)] + st(i + 2, FULL) + [sp(old)] + st(i + 3, FULL) + [sp(old, 0)] + st(i + 4, FULL)
    )
    for p in range(0, FULL + 1):
        # cold run on text 0, file saved with text 1 after p ops
        yield f"edit-cold@{p}", [sp(0)] + st(0, p) + [ed(0, 1)] + st(0, FULL) + after(1, 1, 0), False
    for p in range(0, WARM_OPS + 4):
        # warm run
        yield f"edit-warm@{p}", [sp(0)] + st(0, FULL) + [sp(0)] + st(1, p) + [ed(1, 1)] + st(1, FULL) + after(2, 1, 0), False
    for p in (0, 1, 3, 5, 6, 9, 12):
        # both entries warm already / saved with an invalid text / an invalid text repaired / saved twice (A B A)
        yield f"edit-both-warm@{p}", [sp(1)] + st(0, FULL) + [sp(0)] + st(1, p) + [ed(1, 1)] + st(1, FULL) + after(2, 1, 0), False
        yield f"edit-to-invalid@{p}", [sp(0)] + st(0, p) + [ed(0, 9)] + st(0, FULL) + after(1, 9, 0), False
        yield f"edit-to-duplicate-symbol@{p}", [sp(0)] + st(0, p) + [ed(0, 7)] + st(0, FULL) + after(1, 7, 0), False
        yield f"edit-invalid-repaired@{p}", [sp(9)] + st(0, p) + [ed(0, 0)] + st(0, FULL) + after(1, 0, 9), False
        yield f"edit-there-and-back@{p}", [sp(0)] + st(0, p) + [ed(0, 1)] + st(0, 2) + [ed(0, 0)] + st(0, FULL) + after(1, 1, 0), False
        # uncached run: nothing to confuse, and nothing may appear in the cache
        yield f"edit-uncached@{p}", [sp(0, 0)] + st(0, p) + [ed(0, 1)] + st(0, FULL) + after(1, 1, 0), False


def overlap_scenarios() -> Iterator[Tuple[str, List[Event], bool]]:
    """Two (three) COLD cached runs on the same model text overlapping in time — a build that generates several targets
    from one meta-model in parallel: each must return what an uncached run returns.  Representatives of the 252
    interleavings of the write sections (C24 runs them all): one run paused at every op boundary of its write section
    while the other runs through, both orders of the renames, lock step."""
    n = COLD_OPS - PREFIX
    for p in range(0, n + 1):
        # run 0 pauses after p ops of its write section, run 1 goes through, run 0 finishes
        ev = [sp(0), sp(0)] + st(0, PREFIX) + st(1, PREFIX) + st(0, p) + st(1, FULL) + st(0, FULL)
        yield f"overlap-pause@{p}", ev + [sp(0)] + st(2, FULL) + [sp(0, 0)] + st(3, FULL), False
    for p in range(1, n):
        for q in (p - 1, p, p + 1):
            # run 0 does p ops, run 1 does q ops, then run 0 finishes, then run 1
            if 0 <= q <= n:
                ev = [sp(0), sp(0)] + st(0, PREFIX) + st(1, PREFIX) + st(0, p) + st(1, q) + st(0, FULL) + st(1, FULL)
                yield f"overlap-{p}-{q}", ev + [sp(0)] + st(2, FULL), False
    lock = [sp(0), sp(0)]
    for _ in range(FULL):
        lock += st(0, 1) + st(1, 1)
    yield "overlap-lock-step", lock + [sp(0)] + st(2, FULL), False
    three = [sp(0), sp(0), sp(0)]
    for _ in range(FULL):
        three += st(0, 1) + st(1, 1) + st(2, 1)
    yield "overlap-lock-step-3", three + [sp(0)] + st(3, FULL), False
    # overlapping runs on different texts, and a cached run overlapping an uncached one
    yield "overlap-other-text", [sp(0), sp(1)] + st(0, 8) + st(1, 8) + st(0, FULL) + st(1, FULL) + [sp(0)] + st(2, FULL) + [sp(1)] + st(3, FULL), False
    yield "overlap-uncached", [sp(0), sp(0, 0)] + st(0, 8) + st(1, 2) + st(0, FULL) + st(1, FULL), False


def random_schedule(rng: Any, nproc: int, length: int) -> List[Event]:
    ev: List[Event] = []
    spawned = 0
    for _ in range(length):
        r = rng.random()
        if spawned == 0 or (spawned < nproc and r < 0.12):
            ev.append(sp(rng.choice([0, 0, 0, 1, 1, 2, 9, 7]), 1 if rng.random() < 0.85 else 0))
            spawned += 1
        elif r < 0.17:
            ev.append(("ex", rng.randrange(spawned)))
        elif r < 0.20:
            ev.append(("ki", rng.randrange(spawned)))
        else:
            i = rng.randrange(spawned)
            ev += st(i, rng.choice([1, 1, 1, 2, 3, 5]))
    # let everything finish, then a fresh cached and an uncached run
    for i in range(spawned):
        ev += st(i, FULL)
    ev += [sp(0)] + st(spawned, FULL) + [sp(0, 0)] + st(spawned + 1, FULL)
    return ev


# --------------------------------------------------------------------------- oracle on the real world


class Judge:
    """The statements of C23/C24 at schedule level, decided on the real file system and real results."""

    def __init__(self, ctx: Ctx, name: str, sched: Sequence[Event], mid: bool, base: str) -> None:
        self.ctx = ctx
        self.name = name
        self.sched = list(sched)
        self.mid = mid
        self.base = base
        self.memo: Dict[str, Tuple[bool, str]] = {}
        self.faulted = {e[1] for e in sched if e[0] in ("ex", "ki")}
        self.reported: set = set()
        self.judged: set = set()
        self.seen_log = 0
        self.seen_trace = 0
        self.seen_dels = 0

    def fail(self, k: int, sig: str, what: str) -> None:
        if sig in self.reported:
            return
        self.reported.add(sig)
        # the runner keeps at most 200 failures: a few (and the shortest) schedules per root cause, so that a second root
        # cause met in a later stream is still recorded
        n, shortest = _PER_SIG.get(sig, (0, 1 << 30))
        if n >= 6 and k + 1 >= shortest:
            return
        _PER_SIG[sig] = (n + 1, min(shortest, k + 1))
        self.ctx.fail(
            {"kind": "schedule", "name": self.name, "base": self.base, "sched": [list(e) for e in self.sched[: k + 1]], "mid_dump": self.mid},
            what,
            f"{self.ctx.prop}:{sig}",
        )

    def observe(self, world: rig.World, k: int) -> None:
        """Called after every event.  Files are re-read every time (what unpickling says is memoised by content);
        runs, log and trace are judged incrementally."""
        import os

        d = world.cache_dir()
        if d is not None:
            try:
                names = sorted(os.listdir(d))
            except OSError:
                names = []
            for name in names:
                kind = rig.kind_of_name(name)
                if kind == "final":
                    p = d / name
                    status, src, fp = world.probe_file(p)  # really unpickled (memoised by content, in the probe child)
                    sha = name[len("model-") : -len(".pickle")]
                    name_id = str(world.sha_to_id.get(sha, "?" + sha[:6]))
                    if status == "hang":
                        self.fail(k, "entry-unpickle-hangs", f"after event {k} pickle.load does not terminate on the cache entry {name} (a run reading it hangs)")
                    elif status != "ok":
                        self.fail(k, "partial-final-entry", f"after event {k} the cache entry {name} cannot be unpickled ({status[4:]}: partially written or damaged), a run would read it")
                    elif src != name_id:
                        self.fail(k, "foreign-final-entry", f"after event {k} the cache entry for text {name_id} holds the symbol table of text {src}")
                    elif name_id.isdigit() and int(name_id) in INVALID:
                        self.fail(k, "entry-of-invalid-model", f"after event {k} there is a cache entry for the invalid model text {name_id}")
                    elif name_id.isdigit() and int(name_id) in world.texts and fp != reference_digest(world.texts[int(name_id)]):
                        self.fail(k, "foreign-final-entry", f"after event {k} the cache entry for text {name_id} does not unpickle to the symbol table of an uncached load of that text")
                elif kind != "tmp":
                    self.fail(k, "stray-not-tmp", f"after event {k} the cache directory holds {name}, neither an entry nor a *.tmp file")
        try:
            top = os.listdir(world.tmpdir)
        except OSError:
            top = []
        extra = [n for n in top if d is None or n != d.name]
        if extra:
            self.fail(k, "write-outside-cache-dir", f"after event {k} the temp directory holds {sorted(extra)[:3]}")
        for pr in world.procs:
            if not pr.finished or pr.idx in self.judged:
                continue
            self.judged.add(pr.idx)
            # the text the run has to answer for is the one it READ: its model file may have been saved with another text
            # before (then that one) or after its read (then still the old one).  A tree that reads the file more than once
            # may answer for any of the texts it read; on the pinned tree there is exactly one read.
            read = [r for r in pr.read_ids if r != "?"] or [pr.text_id]
            wants = [(f"ok:{t}" if t not in INVALID else f"err:{t}") for t in read]
            want = wants[0]
            edited = any(e[0] == "ed" and e[1] == pr.idx for e in self.sched[: k + 1])
            whose = f"text {pr.text_id}" + (f", file edited during the run, read {read}" if edited else "")
            tid = read[0]
            if pr.outcome in wants:
                tid = read[wants.index(pr.outcome)]
                want = pr.outcome
            if pr.outcome in ("killed",):
                continue
            if pr.hung or pr.outcome == "hang":
                self.fail(k, f"run-hangs:{pr.hang_at}", f"run {pr.idx} ({whose}, flag {pr.flag}) did not come back from op {pr.hang_at} (blocked or spinning on what another run left behind)")
                continue
            if pr.outcome == "crashed":
                ref = reference(world.texts[tid])
                if pr.idx not in self.faulted and ref != ("crash", pr.exc_type):
                    self.fail(k, f"spurious-crash:{pr.exc_type}", f"run {pr.idx} ({whose}, flag {pr.flag}) raised {pr.exc_type} ({pr.exc_msg}) although no fault was injected into it")
                continue
            if pr.outcome != want:
                self.fail(k, "result-differs-from-uncached", f"run {pr.idx} ({whose}, flag {pr.flag}) returned {pr.outcome}, an uncached run returns {want}")
            elif pr.result is not None and pr.outcome.startswith("ok"):
                ref = reference(world.texts[tid])
                try:
                    got = fingerprint(pr.result)
                except BaseException as e:  # noqa  (a damaged table that cannot even be walked)
                    got = ("crash", type(e).__name__)
                if got != ref:
                    self.fail(k, "symbol-table-differs-from-uncached", f"run {pr.idx}: symbol table differs from the one of an uncached run")
            elif pr.result is not None and pr.outcome.startswith("err"):
                if pr.result[1] != reference(world.texts[tid]):
                    self.fail(k, "error-differs-from-uncached", f"run {pr.idx}: error message differs from the one of an uncached run")
        # runs without the flag never touch the cache
        log = world.log
        while self.seen_log < len(log):
            entry = log[self.seen_log]
            self.seen_log += 1
            i = int(entry.split(":")[0])
            if not world.procs[i].flag:
                self.fail(k, "uncached-run-touches-cache", f"run {i} without cache_model did {entry}")
        trace = world.trace
        self.seen_trace = max(0, self.seen_trace - (world.trace_dels - self.seen_dels))
        self.seen_dels = world.trace_dels
        while self.seen_trace < len(trace):
            entry = trace[self.seen_trace]
            self.seen_trace += 1
            i, _, op = entry.partition(":")
            if not world.procs[int(i)].flag and op.rstrip("!") not in ("readText", "compute", "return"):
                self.fail(k, "uncached-run-touches-cache", f"run {i} without cache_model executed {op}")
            if op.rstrip("!") in ("exists.tmp", "openR.tmp"):
                self.fail(k, "tmp-not-ignored", f"run {i} looked at a temporary file ({op})")


_REF: Dict[str, Any] = {}
_PER_SIG: Dict[str, Tuple[int, int]] = {}
MAX_HANGS = 6


fingerprint = rig.fingerprint


def reference(text: str) -> Any:
    """Result of an uncached load of ``text`` (computed once, outside any run thread); ("crash", <Type>) if the uncached
    load itself raises on the tree under test (then a cached run raising the same is not the cache's doing)."""
    if text not in _REF:
        import tempfile

        with tempfile.TemporaryDirectory() as d:
            p = pathlib.Path(d) / "m.py"
            p.write_text(text, encoding="utf-8")
            try:
                from aas_core_codegen import run

                _REF[text] = fingerprint(run.load_model(p, cache_model=False))
            except BaseException as e:  # noqa
                _REF[text] = ("crash", type(e).__name__)
    return _REF[text]


_REFD: Dict[str, str] = {}


def reference_digest(text: str) -> str:
    if text not in _REFD:
        _REFD[text] = rig.fp_digest(reference(text))
    return _REFD[text]


# --------------------------------------------------------------------------- driver of a batch


def run_batch(ctx: Ctx, scenarios: Sequence[Tuple[str, List[Event], bool]], stream: str, base: str = "enum", with_model: bool = True) -> None:
    texts = texts_for(base)
    for t in texts.values():
        reference(t)
    reqs = [rig.model_request(INVALID, ev) for _, ev, _ in scenarios]
    mouts: List[Optional[str]] = [None] * len(scenarios)
    if with_model and ctx.driver_ok:
        mouts = list(ctx.model_as("C23", reqs))
    root = ctx.scratch()
    with rig.Patched():
        for k, (name, ev, mid) in enumerate(scenarios):
            if rig.HANGS["n"] >= MAX_HANGS:
                # every hang costs a step time-out; the violation and its replay are recorded, the rest adds nothing
                ctx.note(f"stream {stream}: stopped after {rig.HANGS['n']} hang observations ({len(scenarios) - k} schedules not run)")
                break
            wroot = root / f"w{ctx.evaluations}"
            judge = Judge(ctx, name, ev, mid, base)
            inp = {"kind": "schedule", "name": name, "base": base, "sched": [list(e) for e in ev], "mid_dump": mid}
            try:
                real, world = rig.run_real(wroot, texts, ev, mid_dump=mid, observer=judge.observe)
            except Exception as e:  # noqa
                # Nothing the code under test does may end the check with a harness error: behaviour the rig has no
                # category for is reported on the schedule that provoked it (on the pinned tree this never happens).
                ctx.count((base, tuple(ev), mid), stream=stream)
                ctx.hit("outcome=unclassified")
                ctx.fail(inp, f"schedule {name}: the run of the real load_model under the rig ended in {type(e).__name__}: {str(e)[:200]}", f"{ctx.prop}:unclassified-behaviour:{type(e).__name__}")
                import shutil as _sh

                _sh.rmtree(wroot, ignore_errors=True)
                continue
            nontrivial = sum(1 for e in ev if e[0] == "sp" and e[2]) >= 1
            ctx.count((base, tuple(ev), mid), nontrivial=nontrivial, stream=stream)
            for o in real["procs"]:
                ctx.hit("outcome=" + o.split(":")[0].split("@")[0])
            for f in real["files"]:
                ctx.hit("file=" + f[0] + ("-complete" if f.endswith(":1") else "-incomplete"))
            for t in real["trace"]:
                if t.endswith("!"):
                    ctx.hit("raised@" + t.split(":")[1])
            if any(e[0] == "ki" for e in ev):
                ctx.hit("event=kill")
            if any(e[0] == "ex" for e in ev):
                ctx.hit("event=exc")
            if k % 97 == 0:
                ctx.sample({"scenario": name, "events": len(ev), "procs": real["procs"], "files": real["files"]})
            if mouts[k] is not None:
                ctx.traces_validated += 1
                if mouts[k] == "bad-op":
                    ctx.disagree(stream, {"kind": "schedule", "name": name, "base": base, "sched": [list(e) for e in ev], "mid_dump": mid}, real, "bad-op")
                else:
                    model = rig.parse_model_state(mouts[k])  # type: ignore
                    if model != real:
                        diff = {key: {"impl": real[key], "model": model[key]} for key in real if real[key] != model.get(key)}
                        ctx.disagree(stream, {"kind": "schedule", "name": name, "base": base, "sched": [list(e) for e in ev], "mid_dump": mid}, diff, "see impl")
            import shutil

            shutil.rmtree(wroot, ignore_errors=True)


def replay_schedule(ctx: Ctx, inp: Dict[str, Any]) -> Dict[str, Any]:
    ev = [tuple(e) for e in inp["sched"]]
    base = inp.get("base", "enum")
    mid = bool(inp.get("mid_dump", False))
    texts = texts_for(base)
    before = len(ctx.failures)
    judge = Judge(ctx, inp.get("name", "replay"), ev, mid, base)
    with rig.Patched():
        real, _ = rig.run_real(ctx.scratch() / "replay", texts, ev, mid_dump=mid, observer=judge.observe)
    res: Dict[str, Any] = {"impl": real, "oracle": [(f["sig"], f["what"]) for f in ctx.failures[before:]]}
    if ctx.driver_ok:
        res["model"] = rig.parse_model_state(ctx.model_as("C23", [rig.model_request(INVALID, ev)])[0])
        res["agree"] = res["model"] == real
    return res
