"""
Targeted type-conforming instances for the direct oracle of C07 (`harness/props/c07.py`).

The oracle evaluates every ACCEPTED invariant with CPython.  A wrongly accepted guard only fails on the
instance where the guarded access path is `None` while the path the (wrong) guard talks about is not — or
where a sibling condition has the value that lets the evaluation reach the use.  Random instances meet such
a combination only now and then, so for every invariant we read off the access paths it mentions
(`self.a.b`, `self.items[0].m`, `self.items[i].m`, `x.m` for a loop variable `x`, `self.a.method()`), keep
those whose DECLARED type is Optional, and build — from one "full" instance without any `None` — the
instances with every subset of these paths set to `None` (x which list elements a variable index / loop
variable stands for x all booleans True / False).

Also here: `Method`, the stub of an implementation-specific method inside an instance mapping (returns a fixed
value of the declared return type), so that invariants with method calls can be evaluated at all.  The stub
behaves like a method that USES its arguments as declared: a wrong number of arguments, a `None` for a
parameter that is not Optional or a primitive of the wrong kind is a `TypeError` (the inferrer has to refuse
such calls: former finding C07-F3).
"""
from __future__ import annotations

import dataclasses
import itertools
from typing import Any, Dict, Iterator, List, Optional, Sequence, Set, Tuple

from harness import mm
from harness import mm_model as M
from harness.mm_inst import _View

Step = Tuple[str, Any]  # ("p", property or method name) | ("i", constant index or "*")
Path = Tuple[Step, ...]


class Method(_View):
    """Stub of a method in an instance mapping; `_View` subclass so that `Env.convert` hands it out unchanged."""

    __slots__ = ("_ret", "_params")

    def __init__(self, ret: Any, env: Any, params: Optional[Sequence[Any]] = None) -> None:
        _View.__init__(self, None, env)
        object.__setattr__(self, "_ret", ret)
        #: declared types of the arguments (`M.Arg.type`), None = unknown (replayed witnesses): nothing is checked
        object.__setattr__(self, "_params", None if params is None else list(params))

    def __call__(self, *args: Any) -> Any:
        if self._params is not None:
            if len(args) != len(self._params):
                raise TypeError(f"method() takes {len(self._params)} positional arguments but {len(args)} were given")
            for k, (a, t) in enumerate(zip(args, self._params)):
                if not _usable_as(a, t):
                    raise TypeError(f"argument of method: argument {k} is {type(a).__name__}, declared {M.render_type(t)}")
        return self._env.convert(self._ret)

    def __getattr__(self, name: str) -> Any:
        raise AttributeError(f"'method' object has no attribute '{name}'")

    def __eq__(self, other: Any) -> bool:
        return other is self

    def __hash__(self) -> int:
        return id(self)

    def __repr__(self) -> str:
        return f"Method(-> {self._ret!r})"


_PY_KINDS = {"int": (int,), "float": (float, int), "str": (str,), "bool": (bool,), "bytes": (bytes, bytearray)}


def _usable_as(value: Any, t: Any) -> bool:
    """Would a method that uses `value` as a `t` get along?  (None-ness and the kind of a primitive; the rest passes.)"""
    if isinstance(t, M.OptionalOf):
        return value is None or _usable_as(value, t.item)
    if value is None:
        return False
    if isinstance(t, M.Prim):
        if t.name == "int" and isinstance(value, bool):
            return False
        return isinstance(value, _PY_KINDS.get(t.name, (object,)))
    if isinstance(t, M.ListOf):
        return isinstance(value, (list, tuple)) or type(value).__name__ == "_ListView" or hasattr(value, "__iter__") and not isinstance(value, (str, bytes))
    return True


def all_methods(model: M.MM, cls: str) -> List[M.Method]:
    out: Dict[str, M.Method] = {}
    for name in list(M.ancestors(model, cls)) + [cls]:
        c = model.find(name)
        if isinstance(c, M.Class):
            for m_ in c.methods:
                out[m_.name] = m_
    return list(out.values())


# =========================================================================== paths of an invariant

def _path_of(e: Any, loops: Dict[str, Optional[Path]]) -> Optional[Path]:
    if isinstance(e, M.Name):
        if e.identifier == "self" and "self" not in loops:
            return ()
        return loops.get(e.identifier)
    if isinstance(e, M.Member):
        p = _path_of(e.instance, loops)
        return None if p is None else p + (("p", e.name),)
    if isinstance(e, M.Index):
        p = _path_of(e.collection, loops)
        if p is None:
            return None
        k = e.index.value if isinstance(e.index, M.Constant) and isinstance(e.index.value, int) and not isinstance(e.index.value, bool) else "*"
        return p + (("i", k),)
    if isinstance(e, M.MethodCall):
        p = _path_of(e.member.instance, loops)
        return None if p is None else p + (("p", e.member.name),)
    return None


def collect_paths(e: Any, loops: Optional[Dict[str, Optional[Path]]] = None, out: Optional[Set[Path]] = None) -> Set[Path]:
    """Every access path (rooted at `self`, loop variables resolved to `<iterable>[*]`) mentioned in `e`."""
    loops = {} if loops is None else loops
    out = set() if out is None else out
    if isinstance(e, (M.Any_, M.All)):
        g = e.generator
        inner = dict(loops)
        if isinstance(g, M.ForEach):
            collect_paths(g.iteration, loops, out)
            p = _path_of(g.iteration, loops)
            inner[g.variable] = None if p is None else p + (("i", "*"),)
        else:
            collect_paths(g.start, loops, out)
            collect_paths(g.end, loops, out)
            inner[g.variable] = None
        collect_paths(e.condition, inner, out)
        return out
    p = _path_of(e, loops)
    if p:
        out.add(p)
    if dataclasses.is_dataclass(e) and not isinstance(e, type):
        for fld in dataclasses.fields(e):
            v = getattr(e, fld.name)
            if isinstance(v, tuple):
                for x in v:
                    if dataclasses.is_dataclass(x):
                        collect_paths(x, loops, out)
            elif dataclasses.is_dataclass(v):
                collect_paths(v, loops, out)
    return out


def type_at(model: M.MM, cls: str, path: Path) -> Optional[Any]:
    """The DECLARED type at `path` below an instance of `cls` (None: no such path)."""
    t: Any = M.Ref(cls)
    for kind, arg in path:
        t = M.beneath_optional(t)
        if kind == "p":
            if not isinstance(t, M.Ref) or not isinstance(model.find(t.name), M.Class):
                return None
            props = {p.name: p.type for p, _ in M.all_props(model, t.name)}
            if arg in props:
                t = props[arg]
                continue
            meths = {m_.name: m_.returns for m_ in all_methods(model, t.name)}
            # a property of a descendant (`self` is typed by the owner, instances may be of a subclass): not reachable statically
            if arg in meths and meths[arg] is not None:
                t = meths[arg]
                continue
            return None
        if not isinstance(t, M.ListOf):
            return None
        t = t.item
    return t


def optional_paths(model: M.MM, owner: str, expr: Any) -> List[Path]:
    return sorted((p for p in collect_paths(expr) if M.is_optional(type_at(model, owner, p) or M.Prim("int"))), key=repr)


# =========================================================================== the full instance

class Full:
    """A deterministic instance without any `None` down to `depth` (below: `None` / `[]`), lists of `width` elements."""

    def __init__(self, model: M.MM, bools: bool, width: int = 3) -> None:
        self.m, self.bools, self.width = model, bools, width
        self.env = mm.invariant_env(model)

    def value(self, t: Any, depth: int) -> Any:
        if isinstance(t, M.OptionalOf):
            inner = t.item
            heavy = isinstance(inner, M.ListOf) or (isinstance(inner, M.Ref) and isinstance(self.m.find(inner.name), M.Class))
            if heavy and depth <= 0:
                return None
            return self.value(inner, depth)
        if isinstance(t, M.Prim):
            return {"int": 1, "float": 1.5, "str": "a", "bool": self.bools, "bytes": b"a"}[t.name]
        if isinstance(t, M.ListOf):
            if depth <= 0:
                return []
            return [self.value(t.item, depth - 1) for _ in range(self.width)]
        target = self.m.find(t.name)
        if isinstance(target, M.Enum):
            members = list(self.env.enums[t.name])
            if not members:
                raise mm.Impossible(f"enumeration {t.name} has no literals")
            return members[0]
        if isinstance(target, M.ConstrainedPrimitive):
            return self.value(M.Prim(target.base), depth)
        if isinstance(target, M.Class):
            return self.instance(t.name, depth - 1)
        raise mm.Impossible(f"unknown type {t!r}")

    def instance(self, cls: str, depth: int) -> Dict[str, Any]:
        c = self.m.cls(cls)
        names = ([] if c.abstract else [cls]) + M.concrete_descendants(self.m, cls)
        if not names or depth < -4:
            raise mm.Impossible(f"no (finite) instance of {cls}")
        name = names[0]
        out: Dict[str, Any] = {"__class__": name}
        for p, _ in M.all_props(self.m, name):
            out[p.name] = self.value(p.type, depth)
        for m_ in all_methods(self.m, name):
            if m_.name not in out:
                out[m_.name] = Method(None if m_.returns is None else self.value(m_.returns, depth), self.env, [a.type for a in m_.args])
        return out


def set_none(obj: Any, path: Path, choice: Any, env: Any) -> Any:
    """A copy of `obj` (only the spine is copied) with `None` at `path`; `choice`: the elements `[*]` stands for ("all" or an index)."""
    if not path:
        return None
    (kind, arg), rest = path[0], path[1:]
    if kind == "p":
        if not isinstance(obj, dict) or arg not in obj:
            return obj
        cur = obj[arg]
        if isinstance(cur, Method):
            new: Any = Method(set_none(cur._ret, rest, choice, env) if cur._ret is not None else None, env, cur._params)
        elif cur is None:
            return obj
        else:
            new = set_none(cur, rest, choice, env)
        out = dict(obj)
        out[arg] = new
        return out
    if not isinstance(obj, list) or not rest:
        return obj  # list elements are never Optional
    idxs = [arg] if isinstance(arg, int) else (list(range(len(obj))) if choice == "all" else [choice])
    out_l = list(obj)
    for k in idxs:
        if 0 <= k < len(out_l) and out_l[k] is not None:
            out_l[k] = set_none(out_l[k], rest, choice, env)
    return out_l


def subsets_of(paths: Sequence[Path], limit: int = 4) -> List[Tuple[Path, ...]]:
    if len(paths) <= limit:
        return [s for k in range(len(paths) + 1) for s in itertools.combinations(paths, k)]
    # too many: none, each alone, each pair, everything but one, all
    out: List[Tuple[Path, ...]] = [()]
    out += [(p,) for p in paths]
    out += list(itertools.combinations(paths, 2))[:40]
    out += [tuple(q for q in paths if q != p) for p in paths]
    out.append(tuple(paths))
    return out


class Targets:
    """Targeted subjects of the invariants of one model (full instances are cached per owner)."""

    def __init__(self, model: M.MM, depth: int = 3) -> None:
        self.m = model
        self.depth = depth
        self.env = mm.invariant_env(model)
        self._full: Dict[Tuple[str, bool], Any] = {}

    def full(self, owner: str, bools: bool) -> Any:
        key = (owner, bools)
        if key not in self._full:
            try:
                self._full[key] = Full(self.m, bools).instance(owner, self.depth)
            except (mm.Impossible, RecursionError):
                self._full[key] = None
        return self._full[key]

    def subjects(self, owner: str, expr: Any) -> Iterator[Tuple[str, Any]]:
        """(label, instance mapping) — deterministic."""
        if not isinstance(self.m.find(owner), M.Class):
            return
        paths = optional_paths(self.m, owner, expr)
        wild = any(k == "*" for p in paths for _, k in p)
        for bools in (True, False):
            full = self.full(owner, bools)
            if full is None:
                return
            for s in subsets_of(paths):
                s_wild = any(k == "*" for p in s for _, k in p)
                for choice in (["all", 0, 1, 2] if (wild and s_wild) else ["all"]):
                    obj = full
                    for p in sorted(s, key=len, reverse=True):
                        obj = set_none(obj, p, choice, self.env)
                    yield f"bools={bools};none={len(s)}/{len(paths)};elements={choice}", obj
