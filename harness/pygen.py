"""
Seeded generator of small *valid* Python modules with awkward layout (used by C04):
non-ASCII identifiers/strings/comments before other constructs on the same line, tabs,
CR LF line ends, form feeds, multi-line strings, parenthesised multi-line expressions,
backslash continuations, decorators, nested blocks.

``gen_module(rng)`` returns source text; the caller validates it with ``ast.parse`` and skips
the (few) invalid ones.
"""
from __future__ import annotations

import random
from typing import List

NAMES = ["x", "y", "self", "some_prop", "é", "变量", "ß1", "_a", "Something", "ü_b"]
STRS = ['"a"', "'ü'", '"😀"', '"äö\\n"', "'''m\nl'''", '"""é\n  ü\n"""', 'r"\\d+"', 'b"by"', '"a" "b"', "'x' \\\n 'ü'", '"\\f"']
NUMS = ["0", "1", "10", "3.5", "0x1f", "1_000", "2j"]
COMMENTS = ["# c", "# é ü 😀", "#\t tab", "#"]


class G:
    def __init__(self, rng: random.Random) -> None:
        self.rng = rng
        self.in_paren = 0

    # ---- expressions
    def ws(self) -> str:
        r = self.rng.random()
        if r < 0.7:
            return " "
        if r < 0.8:
            return ""
        if r < 0.88:
            return "  "
        if r < 0.94:
            return "\t"
        if self.in_paren:
            return self.rng.choice(["\n ", "\n", " " + self.rng.choice(COMMENTS) + "\n  ", "\n\t", "\n\f"])
        return " "

    def name(self) -> str:
        return self.rng.choice(NAMES)

    def atom(self) -> str:
        r = self.rng.random()
        if r < 0.4:
            return self.name()
        if r < 0.6:
            return self.rng.choice(NUMS)
        if r < 0.85:
            return self.rng.choice(STRS)
        return self.rng.choice(["None", "True", "False", "..."])

    def expr(self, d: int = 0) -> str:
        rng = self.rng
        if d > 3 or rng.random() < 0.3:
            return self.atom()
        k = rng.randint(0, 17)
        e = lambda: self.expr(d + 1)  # noqa: E731
        w = self.ws
        if k == 0:
            return f"{e()}{w()}{rng.choice(['+', '-', '*', '/', '//', '%', '**', '@', '|', '&', '<<'])}{w()}{e()}"
        if k == 1:
            return f"{e()} {rng.choice(['and', 'or'])} {e()} {rng.choice(['and', 'or'])} {e()}"
        if k == 2:
            return f"{e()}{w()}{rng.choice(['<', '<=', '==', '!=', '>=', '>', ' in ', ' not in ', ' is ', ' is not '])}{w()}{e()}"
        if k == 3:
            return f"{rng.choice(['not ', '-', '~', '+'])}{e()}"
        if k == 4:
            self.in_paren += 1
            try:
                return f"({w()}{e()}{w()})"
            finally:
                self.in_paren -= 1
        if k == 5:
            self.in_paren += 1
            try:
                args = [e() for _ in range(rng.randint(0, 3))]
                if rng.random() < 0.3:
                    args.append(f"{self.name()}={e()}")
                if rng.random() < 0.15:
                    args.append(f"*{self.name()}")
                if rng.random() < 0.15:
                    args.append(f"**{self.name()}")
                sep = "," + w()
                return f"{self.callee(d)}({w()}{sep.join(args)}{w()})"
            finally:
                self.in_paren -= 1
        if k == 6:
            return f"{self.callee(d)}.{self.name()}"
        if k == 7:
            self.in_paren += 1
            try:
                return f"{self.callee(d)}[{w()}{rng.choice([e(), e() + ':' + e(), ':', '::2', e() + ', ' + e(), '1:2, ::3'])}{w()}]"
            finally:
                self.in_paren -= 1
        if k == 8:
            return f"lambda {rng.choice(['', 'self', 'a, b', 'a, *b, c=1, **k'])}: {e()}"
        if k == 9:
            self.in_paren += 1
            try:
                return f"({e()} if {e()} else {e()})"
            finally:
                self.in_paren -= 1
        if k == 10:
            self.in_paren += 1
            try:
                o, c = rng.choice(["[]", "()", "{}"])
                return f"{o}{w()}{e()} for {self.name()} in {e()}{rng.choice(['', ' if ' + self.atom()])}{w()}{c}"
            finally:
                self.in_paren -= 1
        if k == 11:
            self.in_paren += 1
            try:
                o, c = rng.choice(["[]", "()", "{}"])
                items = [e() for _ in range(rng.randint(1, 3))]
                sep = "," + w()
                return f"{o}{w()}{sep.join(items)}{',' if o == '(' else ''}{w()}{c}"
            finally:
                self.in_paren -= 1
        if k == 12:
            self.in_paren += 1
            try:
                return "{" + w() + e() + ":" + w() + e() + "," + w() + e() + ": " + e() + w() + "}"
            finally:
                self.in_paren -= 1
        if k == 13:
            return f"all({e()} for {self.name()} in {e()})"
        if k == 14:
            return rng.choice(
                ['f"{' + self.name() + '} ü {' + self.name() + '!r}"', "f'é{" + self.name() + ":>4}'", 'f"x"', 'f"{{}}"']
            )
        if k == 15:
            return f"len({self.callee(d)}.{self.name()}){w()}=={w()}{rng.choice(NUMS)}"
        if k == 16:
            return f"{self.name()}.{self.name()}.{self.name()}"
        return f"({self.name()} := {e()})"

    def callee(self, d: int) -> str:
        r = self.rng.random()
        if r < 0.6:
            return self.name()
        if r < 0.8:
            return f"{self.name()}.{self.name()}"
        if r < 0.9:
            return self.rng.choice(STRS[:4])
        self.in_paren += 1
        try:
            return f"({self.expr(d + 1)})"
        finally:
            self.in_paren -= 1

    # ---- statements
    def simple(self) -> str:
        rng = self.rng
        k = rng.randint(0, 11)
        e = self.expr
        if k == 0:
            return f"{self.name()}{self.ws_flat()}={self.ws_flat()}{e()}"
        if k == 1:
            return f"{self.name()}: {rng.choice(['int', 'str', 'Optional[List[str]]', '\"Something\"'])}{rng.choice(['', ' = ' + e()])}"
        if k == 2:
            return e()
        if k == 3:
            return rng.choice(STRS)
        if k == 4:
            return f"assert {e()}{rng.choice(['', ', ' + self.rng.choice(STRS[:4])])}"
        if k == 5:
            return "pass"
        if k == 6:
            return f"{self.name()}.{self.name()} {rng.choice(['+=', '=', '-=', '|='])} {e()}"
        if k == 7:
            return rng.choice(["import re", "from typing import List, Optional", "from icontract import (\n  invariant,\n  DBC)", "import a.b as c, d"])
        if k == 8:
            return f"{self.name()}, {self.name()} = {e()}, {e()}"
        if k == 9:
            return f"{self.name()} = {self.name()} = {e()}"
        if k == 10:
            return f"{self.name()} = {e()} \\\n   {rng.choice(['+', 'and', '-'])} {e()}"
        return f"del {self.name()}"

    def ws_flat(self) -> str:
        return self.rng.choice([" ", " ", "", "  ", "\t"])

    def block(self, ind: str, d: int, in_func: bool, in_loop: bool) -> List[str]:
        rng = self.rng
        unit = rng.choice(["    ", "  ", "\t", " "])
        ind2 = ind + unit
        out: List[str] = []
        for _ in range(rng.randint(1, 3)):
            out += self.stmt(ind2, d + 1, in_func, in_loop)
        return out

    def line(self, ind: str, body: str) -> List[str]:
        rng = self.rng
        if rng.random() < 0.15:
            body += rng.choice(["  ", " ", "\t"]) + rng.choice(COMMENTS)
        if rng.random() < 0.08:
            body += rng.choice([" ", ";", " ; "])
        out = [ind + body]
        if rng.random() < 0.08:
            out.insert(0, rng.choice(["", ind + rng.choice(COMMENTS), "\f", "   ", "\t"]))
        return out

    def stmt(self, ind: str, d: int, in_func: bool, in_loop: bool) -> List[str]:
        rng = self.rng
        if d >= 3 or rng.random() < 0.55:
            n = 1 if rng.random() < 0.85 else rng.randint(2, 3)
            body = rng.choice(["; ", ";", " ;  "]).join(self.simple() for _ in range(n))
            if in_func and rng.random() < 0.2:
                body = f"return {self.expr()}" if rng.random() < 0.8 else "return"
            if rng.random() < 0.1:
                body = f"raise {self.name()}({self.expr()})"
            return self.line(ind, body)
        k = rng.randint(0, 8)
        out: List[str] = []
        if k in (0, 1):
            for _ in range(rng.randint(0, 2)):
                self.in_paren += 1
                try:
                    dec = rng.choice([self.name(), f"{self.name()}({self.expr()})", f"invariant(lambda self: {self.expr()}, {rng.choice(STRS[:3])})", f"{self.name()}.{self.name()}"])
                finally:
                    self.in_paren -= 1
                out += [ind + rng.choice(["@", "@", "@ "]) + dec]
                if rng.random() < 0.1:
                    out += [rng.choice(["", ind + "# c é"])]
            if k == 0:
                bases = rng.choice(["", "()", "(DBC)", "(A, é)", "(Enum)", "(A, metaclass=M)"])
                out += self.line(ind, f"class {rng.choice(['A', 'Something', 'Ä'])}{bases}:")
                body = self.block(ind, d, False, False)
                if rng.random() < 0.4:
                    i2 = body[0][: len(body[0]) - len(body[0].lstrip(" \t"))]
                    body.insert(0, i2 + rng.choice(['"""Doc é."""', '"""Doc\n' + i2 + 'ü\n' + i2 + '"""']))
                out += body
            else:
                args = rng.choice(["", "self", "self, a: int, b: 'É' = 1", "a, /, b, *, c", "*args, **kw", "self,\n" + ind + "      x: str = 'ü',\n" + ind + "   y=2"])
                ret = rng.choice(["", " -> None", " -> Optional[str]"])
                out += self.line(ind, f"{rng.choice(['def', 'def', 'async def'])} {rng.choice(['f', '__init__', 'é'])}({args}){ret}:")
                out += self.block(ind, d, True, False)
            return out
        if k == 2:
            out += self.line(ind, f"if {self.expr()}:")
            out += self.block(ind, d, in_func, in_loop)
            for _ in range(rng.randint(0, 2)):
                out += self.line(ind, f"elif {self.expr()}:")
                out += self.block(ind, d, in_func, in_loop)
            if rng.random() < 0.5:
                out += self.line(ind, "else:")
                out += self.block(ind, d, in_func, in_loop)
            return out
        if k == 3:
            out += self.line(ind, f"for {rng.choice([self.name(), 'a, b', '(a, b)'])} in {self.expr()}:")
            out += self.block(ind, d, in_func, True)
            if rng.random() < 0.2:
                out += self.line(ind, "else:")
                out += self.block(ind, d, in_func, in_loop)
            return out
        if k == 4:
            out += self.line(ind, f"while {self.expr()}:")
            out += self.block(ind, d, in_func, True)
            return out
        if k == 5:
            out += self.line(ind, f"with {self.expr()} as {self.name()}{rng.choice(['', ', ' + self.name() + '() as ü'])}:")
            out += self.block(ind, d, in_func, in_loop)
            return out
        if k == 6:
            out += self.line(ind, "try:")
            out += self.block(ind, d, in_func, in_loop)
            if rng.random() < 0.8:
                out += self.line(ind, f"except {rng.choice(['', 'E', 'E as e', '(A, B) as é'])}:".replace("except :", "except:"))
                out += self.block(ind, d, in_func, in_loop)
                if rng.random() < 0.3:
                    out += self.line(ind, "else:")
                    out += self.block(ind, d, in_func, in_loop)
                if rng.random() < 0.3:
                    out += self.line(ind, "finally:")
                    out += self.block(ind, d, in_func, in_loop)
            else:
                out += self.line(ind, "finally:")
                out += self.block(ind, d, in_func, in_loop)
            return out
        if k == 7:
            # a one-line compound statement
            return self.line(ind, f"if {self.expr()}: {self.simple()}")
        # multi-line call statement
        self.in_paren += 1
        try:
            body = f"{self.name()}(\n{ind}    {self.expr()},\n{ind}  {self.name()}={self.expr()}\n{ind})"
        finally:
            self.in_paren -= 1
        return self.line(ind, body)


def gen_module(rng: random.Random) -> str:
    g = G(rng)
    lines: List[str] = []
    r = rng.random()
    if r < 0.15:
        lines.append(rng.choice(['"""Doc é ü."""', '"""\nMulti 😀\nline\n"""', "# -*- coding: utf-8 -*-", "#!/usr/bin/env python", ""]))
    elif r < 0.2:
        lines.append(rng.choice([" # indented comment", "\f", "\t# tab comment", "  ", "\f# ff comment"]))
    for _ in range(rng.randint(1, 5)):
        lines += g.stmt("", 0, False, False)
        if rng.random() < 0.2:
            lines.append(rng.choice(["", "", "# é", "\f", "  "]))
    nl = rng.choice(["\n", "\n", "\n", "\r\n"])
    src = "\n".join(lines)
    if nl != "\n":
        src = src.replace("\n", nl)
    r = rng.random()
    if r < 0.6:
        src += nl
    elif r < 0.7:
        src += nl + nl
    elif r < 0.75:
        src += nl + "# trailing é"
    return src
