"""
C18 helper: run the *generated C++* regex virtual machine on many (pattern, text) pairs.

``CppBatch`` writes ONE meta-model with one pattern verification function per pattern
(``matches_p<i>``), runs the project's C++ generator in-process (``main.execute``,
target ``cpp``, the only snippet needed is ``namespace.txt``), compiles the generated
``common.cpp`` + ``revm.cpp`` + ``pattern.cpp`` stand-alone together with a generated
``main.cpp`` and then feeds ``<index> <text>`` lines to the binary, which calls the
generated ``revm::Match(program, text)``.  A watchdog detects non-termination.

``front_end_accepts`` / ``front_end_accepts_many`` run only the front end
(parse -> intermediate.translate, the same steps as ``run.load_model``) in-process.

Nothing is written outside the given ``workdir`` (``tempfile.tempdir`` is redirected into
it while ``main.execute`` runs, because ``main.Parameters`` always switches the model
cache on, and TMPDIR is redirected for g++).
"""
from __future__ import annotations

import io
import os
import pathlib
import re
import select
import shutil
import signal
import subprocess
import sys
import tempfile
import threading
import time
from typing import Any, Dict, List, Optional, Sequence, Tuple

NAMESPACE = "aas_core::dummy"
INCLUDE_PREFIX = "aas_core/dummy"
STUB_DIR = pathlib.Path(__file__).resolve().parent / "c18_data" / "stub"
FUNCTION_PREFIX = "matches_p"

_TAIL = 4000


# --------------------------------------------------------------------------- small helpers


def enc_text(s: str) -> str:
    """Same wire format as ``harness.core.enc_text``: dot-separated lower-case hex code points."""
    if s == "":
        return "-"
    return ".".join(format(ord(c), "x") for c in s)


def py_literal(s: str) -> str:
    """ASCII-only, double-quoted, plain (non-f, non-raw) Python string literal denoting exactly ``s``."""
    parts = ['"']
    for ch in s:
        cp = ord(ch)
        if ch == "\\":
            parts.append("\\\\")
        elif ch == '"':
            parts.append('\\"')
        elif 0x20 <= cp <= 0x7E:
            parts.append(ch)
        elif cp <= 0xFF:
            parts.append(f"\\x{cp:02x}")
        elif cp <= 0xFFFF:
            parts.append(f"\\u{cp:04x}")  # includes lone surrogates
        else:
            parts.append(f"\\U{cp:08x}")
    parts.append('"')
    return "".join(parts)


_MODEL_TAIL = '''\
class Something(DBC):
    s: str

    def __init__(self, s: str) -> None:
        self.s = s


__version__ = "dummy"
__xml_namespace__ = "https://dummy.com"
'''

_LINES_PER_FUNCTION = 6  # decorator, def, pattern, return, 2 blank lines


def function_name(i: int) -> str:
    return f"{FUNCTION_PREFIX}{i}"


def model_source(patterns: Sequence[str], indices: Optional[Sequence[int]] = None) -> str:
    """
    Meta-model text with one pattern verification function per pattern.

    Function ``k`` (0-based position in ``patterns``) is named ``matches_p<indices[k]>`` and occupies
    the lines ``k*6+1 .. k*6+4`` (1-based).
    """
    if indices is None:
        indices = list(range(len(patterns)))
    assert len(indices) == len(patterns)
    out: List[str] = []
    for i, pattern in zip(indices, patterns):
        out.append(
            "@verification\n"
            f"def {function_name(i)}(text: str) -> bool:\n"
            f"    pattern = {py_literal(pattern)}\n"
            "    return match(pattern, text) is not None\n"
            "\n"
            "\n"
        )
    out.append(_MODEL_TAIL)
    text = "".join(out)
    assert text.isascii()
    return text


def _ensure_repo(repo: Any) -> None:
    """Make ``import aas_core_codegen`` resolve to ``repo`` (must happen before the first import)."""
    repo_path = pathlib.Path(repo).resolve()
    if str(repo_path) not in sys.path:
        sys.path.insert(0, str(repo_path))
    import aas_core_codegen  # noqa: E402

    got = pathlib.Path(aas_core_codegen.__file__).resolve()
    if repo_path not in got.parents:
        raise RuntimeError(f"aas_core_codegen already imported from {got}, expected it under {repo_path}")


def default_repo() -> pathlib.Path:
    return pathlib.Path(os.environ.get("VERIF_REPO", "/repo"))


class _RedirectedTempdir:
    """Let ``tempfile.gettempdir()`` (used by the project's model cache) point into ``directory``."""

    def __init__(self, directory: pathlib.Path) -> None:
        self.directory = directory
        self.saved: Optional[str] = None

    def __enter__(self) -> "_RedirectedTempdir":
        self.directory.mkdir(parents=True, exist_ok=True)
        self.saved = tempfile.tempdir
        tempfile.tempdir = str(self.directory)
        return self

    def __exit__(self, *exc: Any) -> None:
        tempfile.tempdir = self.saved


# --------------------------------------------------------------------------- front end only


def _render_error(error: Any) -> str:
    """Like ``LinenoColumner.error_message`` but without the need for the columner (line numbers only)."""
    prefix = ""
    lineno = getattr(error.node, "lineno", None) if error.node is not None else None
    if lineno is not None:
        prefix = f"At line {lineno}: "
    text = f"{prefix}{error.message}"
    if error.underlying:
        for underlying in error.underlying:
            sub = _render_error(underlying)
            text += "\n" + "\n".join("  " + line for line in sub.splitlines())
    return text


_NAME_RE = re.compile(re.escape(FUNCTION_PREFIX) + r"(\d+)(?!\d)")


def _attribute(error: Any, n_functions: int, indices: Sequence[int], out: Dict[int, str]) -> bool:
    """
    Map ``error`` (tree of ``common.Error``) back to the generated functions.

    First by the line of the AST node the error points to, then by the function name in the message,
    then by recursing into the underlying errors. Returns False if some part can not be attributed.
    """
    lineno = getattr(error.node, "lineno", None) if error.node is not None else None
    # ``ast.Module`` has no ``lineno``, so errors anchored at the whole model fall through.
    if lineno is not None:
        k, offset = divmod(lineno - 1, _LINES_PER_FUNCTION)
        if k < n_functions and offset < 4:
            out.setdefault(indices[k], _render_error(error))
            return True
    names = {int(m.group(1)) for m in _NAME_RE.finditer(error.message)}
    if len(names) == 1:
        (i,) = names
        if i in set(indices):
            out.setdefault(i, _render_error(error))
            return True
    if error.underlying:
        ok = True
        for underlying in error.underlying:
            ok = _attribute(underlying, n_functions, indices, out) and ok
        return ok
    return False


def _front_end_once(source: str) -> Tuple[Optional[Any], Optional[str]]:
    """
    Run parse -> intermediate.translate on ``source`` (same steps as ``run.load_model``).

    Returns (None, None) if accepted, (Error, None) if rejected with a ``common.Error`` tree,
    (None, text) if rejected without one / if the front end raised.
    """
    from aas_core_codegen import intermediate, parse

    try:
        atok, parse_exception = parse.source_to_atok(source=source)
        if parse_exception is not None:
            return None, f"source_to_atok: {type(parse_exception).__name__}: {parse_exception}"
        assert atok is not None
        import_errors = parse.check_expected_imports(atok=atok)
        if import_errors:
            return None, "unexpected imports: " + "; ".join(import_errors)
        parsed_symbol_table, error = parse.atok_to_symbol_table(atok=atok)
        if error is not None:
            return error, None
        assert parsed_symbol_table is not None
        _, error = intermediate.translate(parsed_symbol_table=parsed_symbol_table, atok=atok)
        if error is not None:
            return error, None
        return None, None
    except RecursionError as exc:
        return None, f"exception: {type(exc).__name__}: {exc}"
    except Exception as exc:  # the front end crashed (e.g. retree.parse on some inputs)
        return None, f"exception: {type(exc).__name__}: {exc}"


def _accepts_group(patterns: Sequence[str], indices: List[int], results: Dict[int, Tuple[bool, str]]) -> None:
    while indices:
        source = model_source([patterns[i] for i in indices], indices)
        error, text = _front_end_once(source)
        if error is None and text is None:
            for i in indices:
                results[i] = (True, "")
            return
        blamed: Dict[int, str] = {}
        if error is not None:
            # Even an incomplete attribution makes progress; the rest is re-checked without the blamed ones.
            _attribute(error, len(indices), indices, blamed)
            if not blamed:
                text = _render_error(error)
        if blamed:
            for i, message in blamed.items():
                results[i] = (False, message)
            indices = [i for i in indices if i not in blamed]
            continue
        # Nothing attributable (exception, or an error anchored at the whole model).
        assert text is not None
        if len(indices) > 1 and text.startswith("exception:"):
            # Shortcut: the front end calls ``retree.parse([pattern])`` on every pattern; find the patterns on
            # which that call itself raises, instead of bisecting with whole models.
            from aas_core_codegen.parse import retree as parse_retree

            for i in indices:
                try:
                    parse_retree.parse([patterns[i]])
                except Exception as exc:
                    blamed[i] = f"exception: {type(exc).__name__}: {exc}"
            if blamed:
                for i, message in blamed.items():
                    results[i] = (False, message)
                indices = [i for i in indices if i not in blamed]
                continue
        # Bisect.
        if len(indices) == 1:
            results[indices[0]] = (False, text)
            return
        half = len(indices) // 2
        _accepts_group(patterns, indices[:half], results)
        _accepts_group(patterns, indices[half:], results)
        return


def front_end_accepts_many(patterns: Sequence[str], repo: Any = None) -> List[Tuple[bool, str]]:
    """
    For every pattern: does the project's front end (parse + intermediate.translate) accept a model
    whose only verification function matches against that pattern? (accepted, first error message).

    All patterns are tried in one model first; reported errors are mapped back to the functions by the
    line the error points to (or the function name in the message); the accepted rest is re-checked
    together (later verification passes only run when the earlier ones are clean). If the front end
    raises or reports something that can not be attributed, the group is bisected.
    """
    _ensure_repo(default_repo() if repo is None else repo)
    results: Dict[int, Tuple[bool, str]] = {}
    limit = sys.getrecursionlimit()
    try:
        sys.setrecursionlimit(max(limit, 10000))
        _accepts_group(list(patterns), list(range(len(patterns))), results)
    finally:
        sys.setrecursionlimit(limit)
    return [results[i] for i in range(len(patterns))]


def front_end_accepts(pattern: str, repo: Any = None) -> Tuple[bool, str]:
    return front_end_accepts_many([pattern], repo)[0]


def generator_accepts_many(patterns: Sequence[str], repo: Any = None) -> List[Tuple[bool, str]]:
    """
    Cheap pre-filter for ``CppBatch``: would the C++ pattern generator produce the program for the pattern?

    One pattern the generator chokes on (reported error or a crash such as an icontract violation) makes
    ``main.execute`` fail for the whole batch without naming the function. This calls the same (private)
    routine the generator uses for one pattern: ``retree.parse`` + ``_generate_program_definition_for_regex``
    of ``aas_core_codegen/cpp/lib/_generate_pattern.py`` and checks that the text is UTF-8 encodable
    (the generator writes ``pattern.cpp`` as UTF-8).
    """
    _ensure_repo(default_repo() if repo is None else repo)
    from aas_core_codegen.cpp.lib import _generate_pattern
    from aas_core_codegen.parse import retree as parse_retree

    results: List[Tuple[bool, str]] = []
    limit = sys.getrecursionlimit()
    try:
        sys.setrecursionlimit(max(limit, 10000))
        for pattern in patterns:
            try:
                regex, error = parse_retree.parse([pattern])
                if error is not None:
                    results.append((False, f"retree.parse: {error.message}"))
                    continue
                assert regex is not None
                text = _generate_pattern._generate_program_definition_for_regex(regex=regex)
                text.encode("utf-8")
                results.append((True, ""))
            except Exception as exc:
                message = str(exc).strip().splitlines()
                results.append((False, f"exception: {type(exc).__name__}: {' | '.join(message)[-300:]}"))
    finally:
        sys.setrecursionlimit(limit)
    return results


# --------------------------------------------------------------------------- generated main.cpp

_MAIN_CPP = r"""// Generated by harness/c18_cpp.py -- protocol: "<index> <hex.code.points|->" per line -> "1" | "0" | "E <what>"
#include "@PREFIX@/pattern.hpp"
#include "@PREFIX@/revm.hpp"

#include <cstdio>
#include <cstdlib>
#include <exception>
#include <iostream>
#include <memory>
#include <string>
#include <vector>

namespace lib = @NAMESPACE@;

typedef std::vector<std::unique_ptr<lib::revm::Instruction> > Program;

static const Program* const kPrograms[] = {
@TABLE@
};
static const std::size_t kProgramCount = @COUNT@;

static void Answer(const std::string& s) {
  std::fputs(s.c_str(), stdout);
  std::fputc('\n', stdout);
  std::fflush(stdout);
}

static std::string Sanitized(const char* what) {
  std::string r(what == nullptr ? "" : what);
  for (char& c : r) {
    if (c == '\n' || c == '\r') c = ' ';
  }
  return r;
}

int main() {
  static_assert(sizeof(wchar_t) >= 4, "wchar_t is expected to hold one code point");
  Answer("R");  // ready: all static initialisers (the programs) have run
  std::string line;
  while (std::getline(std::cin, line)) {
    if (line.empty()) continue;
    const std::size_t space = line.find(' ');
    if (space == std::string::npos) {
      Answer("E bad-line");
      continue;
    }
    char* end = nullptr;
    const unsigned long index = std::strtoul(line.c_str(), &end, 10);
    if (end != line.c_str() + space || index >= kProgramCount) {
      Answer("E bad-index");
      continue;
    }
    std::wstring text;
    bool bad = false;
    const std::string encoded = line.substr(space + 1);
    if (encoded != "-") {
      std::size_t at = 0;
      while (at <= encoded.size()) {
        std::size_t dot = encoded.find('.', at);
        if (dot == std::string::npos) dot = encoded.size();
        if (dot == at) {
          bad = true;
          break;
        }
        const std::string piece = encoded.substr(at, dot - at);
        char* piece_end = nullptr;
        const unsigned long cp = std::strtoul(piece.c_str(), &piece_end, 16);
        if (*piece_end != '\0' || cp > 0x10FFFFul) {
          bad = true;
          break;
        }
        text.push_back(static_cast<wchar_t>(cp));
        at = dot + 1;
      }
    }
    if (bad) {
      Answer("E bad-text");
      continue;
    }
    try {
      const bool result = lib::revm::Match(*kPrograms[index], text);
      Answer(result ? "1" : "0");
    } catch (const std::exception& exception) {
      Answer(std::string("E ") + Sanitized(exception.what()));
    } catch (...) {
      Answer("E unknown-exception");
    }
  }
  return 0;
}
"""

_EXTERN_RE = re.compile(r"extern\s+const\s+std::vector<\s*std::unique_ptr<revm::Instruction>\s*>\s*(\w+)\s*;")


def _tail(text: str, n: int = _TAIL) -> str:
    return text if len(text) <= n else "..." + text[-n:]


# --------------------------------------------------------------------------- the batch


class CppBatch:
    def __init__(
        self,
        patterns: List[str],
        workdir: pathlib.Path,
        repo: pathlib.Path,
        opt: str = "-O1",
        compile_timeout_s: float = 900.0,
        jobs: int = 4,
        obj_cache: Optional[pathlib.Path] = None,
        pattern_opt: Optional[str] = None,
    ) -> None:
        self.patterns = list(patterns)
        self.workdir = pathlib.Path(workdir)
        self.repo = pathlib.Path(repo)
        self.opt = opt
        self.compile_timeout_s = compile_timeout_s
        # jobs <= 1 and no obj_cache: the single g++ command; otherwise same flags, one g++ -c per unit in parallel
        self.jobs = jobs
        # directory where common.o / revm.o (independent of the patterns) are kept between batches
        self.obj_cache = None if obj_cache is None else pathlib.Path(obj_cache)
        # optimisation level for pattern.cpp + main.cpp only (they merely construct the programs / parse lines;
        # Match lives in revm.cpp); None = same as ``opt``. Implies the per-unit mode.
        self.pattern_opt = pattern_opt
        self.compile_info: Dict[str, Any] = {}
        self.model_path = self.workdir / "model.py"
        self.snippets_dir = self.workdir / "snippets"
        self.out_dir = self.workdir / "out"
        self.main_cpp = self.workdir / "main.cpp"
        self.binary = self.workdir / "matcher"
        self.tmp_dir = self.workdir / "tmp"
        self.program_names: List[str] = []
        self.built = False
        self.last_run_info: Dict[str, Any] = {}

    # ---- build

    def expected_program_name(self, i: int) -> str:
        # cpp_naming.constant_name(Identifier("matches_p<i>_program")) == "kMatchesP<i>Program"
        return f"kMatchesP{i}Program"

    def _generate(self) -> Dict[str, Any]:
        _ensure_repo(self.repo)
        import aas_core_codegen.main as codegen_main

        self.workdir.mkdir(parents=True, exist_ok=True)
        if self.out_dir.exists():
            shutil.rmtree(self.out_dir)
        self.snippets_dir.mkdir(parents=True, exist_ok=True)
        (self.snippets_dir / "namespace.txt").write_text(NAMESPACE, encoding="utf-8")
        self.model_path.write_text(model_source(self.patterns), encoding="ascii")

        params = codegen_main.Parameters(
            model_path=self.model_path,
            target=codegen_main.Target.CPP,
            snippets_dir=self.snippets_dir,
            output_dir=self.out_dir,
        )
        stdout, stderr = io.StringIO(), io.StringIO()
        limit = sys.getrecursionlimit()
        try:
            sys.setrecursionlimit(max(limit, 10000))
            with _RedirectedTempdir(self.tmp_dir):
                try:
                    rc = codegen_main.execute(params=params, stdout=stdout, stderr=stderr)
                finally:
                    # the model cache the project always writes (now inside the workdir)
                    for cached in self.tmp_dir.glob("aas-core-codegen-*"):
                        shutil.rmtree(cached, ignore_errors=True)
        except Exception as exc:
            return {
                "ok": False,
                "stage": "generate",
                "returncode": -1,
                "stderr": _tail(stderr.getvalue()),
                "exception": f"{type(exc).__name__}: {exc}",
            }
        finally:
            sys.setrecursionlimit(limit)
        if rc != 0:
            return {"ok": False, "stage": "generate", "returncode": rc, "stderr": _tail(stderr.getvalue())}

        header = self.out_dir / "include" / INCLUDE_PREFIX / "pattern.hpp"
        sources = [self.out_dir / "src" / f"{n}.cpp" for n in ("common", "revm", "pattern")]
        missing = [str(p) for p in [header] + sources if not p.exists()]
        if missing:
            return {
                "ok": False,
                "stage": "generate",
                "returncode": rc,
                "stderr": "generator reported success but files are missing: " + ", ".join(missing),
            }
        names = _EXTERN_RE.findall(header.read_text(encoding="utf-8"))
        expected = [self.expected_program_name(i) for i in range(len(self.patterns))]
        if names != expected:
            return {
                "ok": False,
                "stage": "generate",
                "returncode": rc,
                "stderr": f"program constants in pattern.hpp {names[:5]}...({len(names)}) "
                f"differ from the expected {expected[:5]}...({len(expected)})",
            }
        self.program_names = names
        return {"ok": True, "stage": "generate", "returncode": 0, "stderr": _tail(stderr.getvalue())}

    def _write_main(self) -> None:
        table = ",\n".join(f"  &lib::pattern::{name}" for name in self.program_names)
        if not self.program_names:
            table = "  nullptr"
        text = (
            _MAIN_CPP.replace("@PREFIX@", INCLUDE_PREFIX)
            .replace("@NAMESPACE@", NAMESPACE)
            .replace("@TABLE@", table)
            .replace("@COUNT@", str(len(self.program_names)))
        )
        self.main_cpp.write_text(text, encoding="ascii")

    def compile_command(self) -> List[str]:
        src = self.out_dir / "src"
        return [
            "g++",
            "-std=c++17",
            self.opt,
            f"-I{STUB_DIR}",
            f"-I{self.out_dir / 'include'}",
            str(src / "common.cpp"),
            str(src / "revm.cpp"),
            str(src / "pattern.cpp"),
            str(self.main_cpp),
            "-o",
            str(self.binary),
        ]

    def _compile(self) -> Tuple[int, str]:
        env = dict(os.environ)
        self.tmp_dir.mkdir(parents=True, exist_ok=True)
        env["TMPDIR"] = str(self.tmp_dir)
        if self.binary.exists():
            self.binary.unlink()
        command = self.compile_command()
        self.compile_info = {"mode": "single-command", "units": {}}
        if self.jobs <= 1 and self.obj_cache is None and self.pattern_opt is None:
            try:
                proc = subprocess.run(
                    command, capture_output=True, text=True, errors="replace", env=env, timeout=self.compile_timeout_s
                )
            except subprocess.TimeoutExpired:
                return -9, f"g++ did not finish within {self.compile_timeout_s} s"
            return proc.returncode, proc.stderr

        # Same compiler and flags as the single command (g++ compiles the four translation units
        # independently there as well), but one ``g++ -c`` per unit, in parallel, then a link step.
        # ``common.cpp`` and ``revm.cpp`` do not depend on the patterns: with ``obj_cache`` their objects
        # are reused between batches, keyed on compiler version, flags and the content of every file the
        # unit includes (``g++ -MM``).
        self.compile_info["mode"] = (
            f"per-unit jobs={self.jobs} cache={'on' if self.obj_cache else 'off'} "
            f"opt={self.opt} pattern_opt={self.pattern_opt or self.opt}"
        )
        flags = command[1:5]
        units = command[5:9]
        obj_dir = self.workdir / "obj"
        if obj_dir.exists():
            shutil.rmtree(obj_dir)
        obj_dir.mkdir(parents=True)
        lock = threading.Lock()

        def compile_unit(unit: str) -> Tuple[int, str, str]:
            t0 = time.monotonic()
            stem = pathlib.Path(unit).stem
            obj = obj_dir / (stem + ".o")
            cached: Optional[pathlib.Path] = None
            if self.obj_cache is not None and stem in ("common", "revm"):
                key = self._unit_key(flags, unit, env)
                if key is not None:
                    cached = self.obj_cache / f"{stem}-{key}.o"
                    if cached.exists():
                        shutil.copyfile(cached, obj)
                        with lock:
                            self.compile_info["units"][stem] = {"seconds": time.monotonic() - t0, "cache": "hit"}
                        return 0, "", str(obj)
            unit_flags = list(flags)
            if self.pattern_opt is not None and stem in ("pattern", "main"):
                unit_flags[1] = self.pattern_opt
            try:
                proc = subprocess.run(
                    ["g++"] + unit_flags + ["-c", unit, "-o", str(obj)],
                    capture_output=True,
                    text=True,
                    errors="replace",
                    env=env,
                    timeout=self.compile_timeout_s,
                )
                rc, err = proc.returncode, proc.stderr
            except subprocess.TimeoutExpired:
                rc, err = -9, f"g++ -c {unit} did not finish within {self.compile_timeout_s} s"
            if rc == 0 and cached is not None:
                self.obj_cache.mkdir(parents=True, exist_ok=True)
                partial = cached.with_suffix(f".{os.getpid()}.{threading.get_ident()}.tmp")
                shutil.copyfile(obj, partial)
                os.replace(partial, cached)
            with lock:
                self.compile_info["units"][stem] = {
                    "seconds": time.monotonic() - t0,
                    "cache": "miss" if cached is not None else "off",
                }
            return rc, err, str(obj)

        from concurrent.futures import ThreadPoolExecutor

        with ThreadPoolExecutor(max_workers=max(1, self.jobs)) as pool:
            outcomes = list(pool.map(compile_unit, units))
        err = "".join(o[1] for o in outcomes)
        for rc, _, _ in outcomes:
            if rc != 0:
                return rc, err
        t0 = time.monotonic()
        link = subprocess.run(
            ["g++"] + [o[2] for o in outcomes] + ["-o", str(self.binary)],
            capture_output=True,
            text=True,
            errors="replace",
            env=env,
        )
        self.compile_info["units"]["link"] = {"seconds": time.monotonic() - t0}
        return link.returncode, err + link.stderr

    _gxx_version: Optional[str] = None

    def _unit_key(self, flags: List[str], unit: str, env: Dict[str, str]) -> Optional[str]:
        import hashlib

        if CppBatch._gxx_version is None:
            CppBatch._gxx_version = subprocess.run(
                ["g++", "--version"], capture_output=True, text=True, env=env
            ).stdout
        deps = subprocess.run(["g++"] + flags + ["-MM", unit], capture_output=True, text=True, env=env)
        if deps.returncode != 0:
            return None
        files = [t for t in deps.stdout.replace("\\\n", " ").split()[1:] if t != "\\"]
        h = hashlib.sha256()
        h.update(CppBatch._gxx_version.encode())
        h.update(repr([f for f in flags if not f.startswith("-I")]).encode())
        for f in files:
            try:
                data = pathlib.Path(f).read_bytes()
            except OSError:
                return None
            h.update(pathlib.Path(f).name.encode() + b"\0" + str(len(data)).encode() + b"\0" + data)
        return h.hexdigest()[:32]

    def build(self) -> Dict[str, Any]:
        self.built = False
        t0 = time.monotonic()
        result = self._generate()
        result["gen_seconds"] = time.monotonic() - t0
        result["compile_seconds"] = 0.0
        if not result["ok"]:
            return result
        self._write_main()
        t1 = time.monotonic()
        rc, err = self._compile()
        result["compile_seconds"] = time.monotonic() - t1
        result["returncode"] = rc
        result["stderr"] = _tail(err)
        result["compile_info"] = self.compile_info
        if rc != 0 or not self.binary.exists():
            result["ok"] = False
            result["stage"] = "compile"
            return result
        result["stage"] = "done"
        self.built = True
        return result

    # ---- run

    def run(
        self,
        queries: List[Tuple[int, str]],
        timeout_s: float = 2.0,
        skip_after_timeout: bool = True,
        startup_timeout_s: float = 20.0,
    ) -> List[str]:
        if not self.built:
            raise RuntimeError("CppBatch.run before a successful build()")
        t0 = time.monotonic()
        answers: List[Optional[str]] = [None] * len(queries)
        diverged: set = set()
        skipped: List[int] = []
        restarts = 0
        position = 0
        for k, (index, _) in enumerate(queries):
            if not (0 <= index < len(self.patterns)):
                answers[k] = "error:bad-index"
        while True:
            # the queries still to be run, in order
            pending: List[int] = []
            for k in range(position, len(queries)):
                if answers[k] is not None:
                    continue
                if skip_after_timeout and queries[k][0] in diverged:
                    answers[k] = "timeout"
                    skipped.append(k)
                    continue
                pending.append(k)
            if not pending:
                break
            done, failure = self._run_process(queries, pending, answers, timeout_s, startup_timeout_s)
            if failure is None or done >= len(pending):
                break  # everything answered (a failure after the last answer, e.g. extra output, is irrelevant)
            restarts += 1
            culprit = pending[done]
            if failure == "timeout":
                answers[culprit] = "timeout"
                diverged.add(queries[culprit][0])
            elif failure.startswith("startup"):
                # the binary does not even start: nothing will ever be answered
                for k in pending[done:]:
                    answers[k] = "error:" + failure
                break
            else:
                answers[culprit] = "error:" + failure
            position = culprit + 1
        self.last_run_info = {
            "seconds": time.monotonic() - t0,
            "restarts": restarts,
            "diverged_patterns": sorted(diverged),
            "skipped_queries": skipped,
        }
        assert all(a is not None for a in answers)
        return [a for a in answers if a is not None]

    def _run_process(
        self,
        queries: List[Tuple[int, str]],
        pending: List[int],
        answers: List[Optional[str]],
        timeout_s: float,
        startup_timeout_s: float,
    ) -> Tuple[int, Optional[str]]:
        """
        Run one process over ``pending``. Returns (number of answered queries, failure) where failure is
        None (all answered), "timeout", "startup...", or a description of how the process died.
        """
        proc = subprocess.Popen(
            [str(self.binary)],
            stdin=subprocess.PIPE,
            stdout=subprocess.PIPE,
            stderr=subprocess.PIPE,
            bufsize=0,
            start_new_session=True,  # own process group, so that the kill below leaves nothing behind
        )
        assert proc.stdin is not None and proc.stdout is not None and proc.stderr is not None
        payload = "".join(f"{queries[k][0]} {enc_text(queries[k][1])}\n" for k in pending).encode("ascii")

        def feed() -> None:
            try:
                view = memoryview(payload)
                for at in range(0, len(view), 1 << 16):
                    proc.stdin.write(view[at : at + (1 << 16)])
                proc.stdin.close()
            except (BrokenPipeError, OSError, ValueError):
                pass

        stderr_chunks: List[bytes] = []

        def drain_stderr() -> None:
            try:
                while True:
                    chunk = proc.stderr.read(65536)
                    if not chunk:
                        break
                    if sum(len(c) for c in stderr_chunks) < 65536:
                        stderr_chunks.append(chunk)
            except (OSError, ValueError):
                pass

        feeder = threading.Thread(target=feed, daemon=True)
        drainer = threading.Thread(target=drain_stderr, daemon=True)
        feeder.start()
        drainer.start()

        fd = proc.stdout.fileno()
        buffer = b""
        done = 0
        ready = False
        failure: Optional[str] = None
        deadline = time.monotonic() + startup_timeout_s
        try:
            while done < len(pending):
                remaining = deadline - time.monotonic()
                if remaining <= 0:
                    failure = "timeout" if ready else "startup-timeout"
                    break
                readable, _, _ = select.select([fd], [], [], remaining)
                if not readable:
                    continue
                chunk = os.read(fd, 1 << 16)
                if not chunk:
                    proc.wait()
                    what = "startup-died" if not ready else "process-died"
                    err = b"".join(stderr_chunks).decode("utf-8", "replace").strip().splitlines()
                    failure = f"{what} rc={proc.returncode}" + (f" {err[-1][:200]}" if err else "")
                    break
                buffer += chunk
                *lines, buffer = buffer.split(b"\n")
                for raw in lines:
                    line = raw.decode("utf-8", "replace")
                    if not ready:
                        if line != "R":
                            failure = f"startup-protocol {line[:80]!r}"
                            break
                        ready = True
                        continue
                    if done >= len(pending):
                        failure = "process-protocol extra output"
                        break
                    k = pending[done]
                    if line == "1" or line == "0":
                        answers[k] = line
                    elif line.startswith("E"):
                        answers[k] = "error:" + line[1:].strip()
                    else:
                        answers[k] = "error:protocol " + line[:80]
                    done += 1
                if failure is not None:
                    break
                if lines:
                    deadline = time.monotonic() + timeout_s
        finally:
            try:
                os.killpg(proc.pid, signal.SIGKILL)
            except (ProcessLookupError, PermissionError):
                pass
            if proc.poll() is None:
                proc.kill()
            try:
                proc.wait(timeout=10)
            except subprocess.TimeoutExpired:
                pass
            feeder.join(timeout=10)
            drainer.join(timeout=10)
            for stream in (proc.stdin, proc.stdout, proc.stderr):
                try:
                    stream.close()
                except (OSError, ValueError):
                    pass
        return done, failure
