"""C25 — snippet directory is loaded exactly (and the `readDir_perm_invariant` part of C22).

Correspondence of `specific_implementations.read_from_directory` with `Model.Snippets` on real
directory trees built in a scratch directory, plus the direct oracle (an `os.walk`
re-implementation of the statement) and `main.execute` on the same trees.
"""
from __future__ import annotations

import ast
import contextlib
import io
import json
import os
import pathlib
import re
import shutil
import signal
import socket
import stat
import tempfile
from typing import Any, Dict, Iterator, List, Optional, Sequence, Tuple

from harness.core import Ctx, corpus, crash_name, enc_text
from harness.extract import HEADER, ExtractError, _func, _parse, lean_text

ID = "C25"
GEN = ["Snippets"]

# --------------------------------------------------------------------------- Gen


def gen_Snippets(repo: pathlib.Path) -> str:
    rel = "aas_core_codegen/specific_implementations.py"
    mod = _parse(repo, rel)
    # IMPLEMENTATION_KEY_RE = re.compile("<pattern>")
    pattern: Optional[str] = None
    extra = 0
    for node in mod.body:
        if isinstance(node, ast.Assign) and any(isinstance(t, ast.Name) and t.id == "IMPLEMENTATION_KEY_RE" for t in node.targets):
            v = node.value
            if not (isinstance(v, ast.Call) and isinstance(v.func, ast.Attribute) and v.func.attr == "compile" and v.args):
                raise ExtractError("IMPLEMENTATION_KEY_RE is not a re.compile(...) call")
            if not (isinstance(v.args[0], ast.Constant) and isinstance(v.args[0].value, str)):
                raise ExtractError("IMPLEMENTATION_KEY_RE pattern is not a string literal")
            pattern = v.args[0].value
            extra = len(v.args) - 1 + len(v.keywords)
    if pattern is None:
        raise ExtractError("IMPLEMENTATION_KEY_RE not found")
    # read_from_directory together with the module-level helpers it calls, local one-time names expanded: the same
    # reading whether a step is written inline, through a local variable, or as a private helper function
    from harness.extract import _reachable_functions, expand_locals

    fn = ast.Module(body=[expand_locals(f) for f in _reachable_functions(mod, _func(mod, "read_from_directory"))], type_ignores=[])
    # the loop over the glob
    loops = []
    for node in ast.walk(fn):
        if isinstance(node, ast.For):
            globs = [
                c
                for c in ast.walk(node.iter)
                if isinstance(c, ast.Call) and isinstance(c.func, ast.Attribute) and c.func.attr in ("glob", "rglob")
            ]
            if globs:
                loops.append((node, globs[0]))
    if len(loops) != 1:
        raise ExtractError(f"expected exactly one loop over a glob in read_from_directory, found {len(loops)}")
    loop, glob = loops[0]
    if not (len(glob.args) == 1 and isinstance(glob.args[0], ast.Constant) and isinstance(glob.args[0].value, str)) or glob.keywords:
        raise ExtractError("glob pattern is not a single string literal")
    glob_pattern = ("rglob:" if glob.func.attr == "rglob" else "") + glob.args[0].value
    it = loop.iter
    sorted_glob = (
        isinstance(it, ast.Call)
        and isinstance(it.func, ast.Name)
        and it.func.id == "sorted"
        and len(it.args) == 1
        and it.args[0] is glob
        and not it.keywords
    )
    if not sorted_glob and it is not glob:
        raise ExtractError("the loop iterates over something else than the glob or sorted(glob)")
    # startswith tests
    prefixes = []
    over_parts = []
    for node in ast.walk(fn):
        if isinstance(node, ast.Call) and isinstance(node.func, ast.Name) and node.func.id == "any" and len(node.args) == 1:
            g = node.args[0]
            if isinstance(g, (ast.GeneratorExp, ast.ListComp)) and len(g.generators) == 1:
                src = g.generators[0].iter
                inner = [c for c in ast.walk(g.elt) if isinstance(c, ast.Call) and isinstance(c.func, ast.Attribute) and c.func.attr == "startswith"]
                if inner and isinstance(src, ast.Attribute) and src.attr == "parts" and not g.generators[0].ifs:
                    over_parts += inner
    for node in ast.walk(fn):
        if isinstance(node, ast.Call) and isinstance(node.func, ast.Attribute) and node.func.attr == "startswith":
            if not (len(node.args) == 1 and isinstance(node.args[0], ast.Constant) and isinstance(node.args[0].value, str)):
                raise ExtractError("startswith argument is not a single string literal")
            prefixes.append((node.args[0].value, any(node is c for c in over_parts)))
    if len(prefixes) != 1:
        raise ExtractError(f"expected exactly one startswith test in read_from_directory, found {len(prefixes)}")
    # read_text(encoding=...).strip()
    reads = [c for c in ast.walk(fn) if isinstance(c, ast.Call) and isinstance(c.func, ast.Attribute) and c.func.attr == "read_text"]
    if len(reads) != 1:
        raise ExtractError(f"expected exactly one read_text call, found {len(reads)}")
    enc = [k.value for k in reads[0].keywords if k.arg == "encoding"]
    if reads[0].args or len(reads[0].keywords) != 1 or len(enc) != 1 or not (isinstance(enc[0], ast.Constant) and isinstance(enc[0].value, str)):
        raise ExtractError("read_text is not called with exactly encoding=<literal>")
    strips = [
        c
        for c in ast.walk(fn)
        if isinstance(c, ast.Call) and isinstance(c.func, ast.Attribute) and c.func.attr in ("strip", "lstrip", "rstrip") and c.func.value is reads[0]
    ]
    if len(strips) != 1:
        raise ExtractError("the read text is not stripped by exactly one call")
    return (
        "import AasVerif.Model.Text\n"
        + HEADER.format(src=rel)
        + "namespace AasVerif.Gen.Snippets\n"
        + f"/-- {pattern!r} -/\n"
        + f"def keyPattern : Text := {lean_text(pattern)}\n"
        + f"def keyCompileExtraArgs : Nat := {extra}\n"
        + f"def globPattern : Text := {lean_text(glob_pattern)}\n"
        + f"def sortedGlob : Bool := {'true' if sorted_glob else 'false'}\n"
        + f"def hiddenPrefix : Text := {lean_text(prefixes[0][0])}\n"
        + f"def hiddenOverAllParts : Bool := {'true' if prefixes[0][1] else 'false'}\n"
        + f"def encoding : Text := {lean_text(enc[0].value)}\n"
        + f"def stripMethod : Text := {lean_text(strips[0].func.attr)}\n"
        + f"def stripArgs : Nat := {len(strips[0].args) + len(strips[0].keywords)}\n"
        + "end AasVerif.Gen.Snippets\n"
    )


# --------------------------------------------------------------------------- tree specs on disk
#
# A tree spec is a list of nodes {"nx": hex of the name bytes, "t": type, "bx": hex content, "c": children}
# types: file, dir, filelink (symlink to a regular file outside), dirlink (symlink to a directory
# outside), dangling, loop (symlink to itself), fifo, sock, procmem (symlink to /proc/self/mem:
# a regular file whose read() raises OSError(EIO) — stands in for "unreadable", we run as root).

LEAF_TYPES = ("file", "filelink", "dirlink", "dangling", "loop", "fifo", "sock", "procmem")


def N(name: Any, t: str = "file", content: bytes = b"x", children: Optional[List[Dict[str, Any]]] = None) -> Dict[str, Any]:
    nb = name if isinstance(name, bytes) else name.encode("utf-8", "surrogateescape")
    d: Dict[str, Any] = {"name": nb.decode("utf-8", "backslashreplace"), "nx": nb.hex(), "t": t}
    if t in ("file", "filelink"):
        d["bx"] = content.hex()
    if t == "dir":
        d["c"] = children or []
    return d


class Built:
    def __init__(self, base: pathlib.Path, variant: int = 0) -> None:
        self.base = base
        # The location of the snippets root must not matter: every fourth tree lives below a dotted (hidden-looking)
        # directory, every fourth is addressed through a non-normalised path with a '..' component.
        if variant % 4 == 2:
            self.root = base / ".dotted.d" / "snippets"
        elif variant % 4 == 3:
            (base / "sub").mkdir(parents=True, exist_ok=True)
            self.root = base / "sub" / ".." / "snippets"
        else:
            self.root = base / "snippets"
        self.targets = base / "targets"
        self.socks: List[socket.socket] = []
        self.k = 0

    def close(self) -> None:
        for s in self.socks:
            s.close()
        shutil.rmtree(self.base, ignore_errors=True)


def _build_into(b: Built, d: bytes, nodes: Sequence[Dict[str, Any]]) -> None:
    for nd in nodes:
        p = os.path.join(d, bytes.fromhex(nd["nx"]))
        t = nd["t"]
        if t == "file":
            with open(p, "wb") as f:
                f.write(bytes.fromhex(nd.get("bx", "")))
        elif t == "dir":
            os.mkdir(p)
            _build_into(b, p, nd.get("c", []))
        elif t == "filelink":
            b.k += 1
            tgt = os.path.join(os.fsencode(b.targets), b"f%d" % b.k)
            with open(tgt, "wb") as f:
                f.write(bytes.fromhex(nd.get("bx", "")))
            os.symlink(tgt, p)
        elif t == "dirlink":
            b.k += 1
            tgt = os.path.join(os.fsencode(b.targets), b"d%d" % b.k)
            os.mkdir(tgt)
            with open(os.path.join(tgt, b"9 inside a linked directory"), "wb") as f:
                f.write(b"\xff")
            os.symlink(tgt, p)
        elif t == "dangling":
            os.symlink(b"/nonexistent/aasverif-c25", p)
        elif t == "loop":
            os.symlink(os.path.basename(p), p)
        elif t == "fifo":
            os.mkfifo(p)
        elif t == "sock":
            s = socket.socket(socket.AF_UNIX)
            cwd = os.getcwd()
            try:  # AF_UNIX paths are limited to ~108 bytes: bind relative to the directory
                os.chdir(d)
                s.bind(os.path.basename(p))
            finally:
                os.chdir(cwd)
            b.socks.append(s)
        elif t == "procmem":
            os.symlink(b"/proc/self/mem", p)
        else:
            raise ValueError(t)


_counter = [0]


def build(ctx: Ctx, spec: Sequence[Dict[str, Any]]) -> Built:
    _counter[0] += 1
    base = ctx.scratch() / f"t{_counter[0]}"
    b = Built(base, _counter[0])
    b.root.mkdir(parents=True)
    b.targets.mkdir()
    _build_into(b, os.fsencode(b.root), spec)
    return b


# --------------------------------------------------------------------------- ground truth of the file system


def _kind(p: bytes) -> Tuple[str, bytes]:
    """(file|dir|other|unreadable, content) with symbolic links followed — from stat, not from pathlib."""
    try:
        st = os.stat(p)
    except OSError:
        return "other", b""
    if stat.S_ISDIR(st.st_mode):
        return "dir", b""
    if not stat.S_ISREG(st.st_mode):
        return "other", b""
    try:
        fd = os.open(p, os.O_RDONLY | os.O_NONBLOCK)
        try:
            chunks = []
            while True:
                c = os.read(fd, 1 << 16)
                if not c:
                    break
                chunks.append(c)
        finally:
            os.close(fd)
        return "file", b"".join(chunks)
    except OSError:
        return "unreadable", b""


def disk_tokens(d: bytes, listing: Any = os.scandir) -> List[str]:
    """The tree below ``d`` as wire tokens, children in the order ``os.scandir`` lists them."""
    toks: List[str] = []
    with listing(d) as it:
        entries = list(it)
    for e in entries:
        name = e.name if isinstance(e.name, bytes) else os.fsencode(e.name)
        p = os.path.join(d, name)
        nm = enc_text(os.fsdecode(name))
        if stat.S_ISDIR(os.lstat(p).st_mode):
            toks.append(f"d:{nm}")
            toks += disk_tokens(p, listing)
            toks.append(")")
            continue
        k, content = _kind(p)
        if k == "dir":
            toks.append(f"l:{nm}")
        elif k == "file":
            toks.append(f"f:{nm}:" + (".".join(format(x, "x") for x in content) if content else "-"))
        elif k == "other":
            toks.append(f"o:{nm}")
        else:
            toks.append(f"u:{nm}")
    return toks


# --------------------------------------------------------------------------- the implementation


class Hang(BaseException):
    pass


@contextlib.contextmanager
def time_limit(seconds: float) -> Iterator[None]:
    def on_alarm(signum: int, frame: Any) -> None:
        raise Hang()

    old = signal.signal(signal.SIGALRM, on_alarm)
    signal.setitimer(signal.ITIMER_REAL, seconds)
    try:
        yield
    finally:
        signal.setitimer(signal.ITIMER_REAL, 0)
        signal.signal(signal.SIGALRM, old)


class _Shuffled:
    def __init__(self, entries: List[Any]) -> None:
        self.entries = entries

    def __enter__(self) -> "_Shuffled":
        return self

    def __exit__(self, *a: Any) -> None:
        pass

    def __iter__(self) -> Iterator[Any]:
        return iter(self.entries)

    def close(self) -> None:
        pass


@contextlib.contextmanager
def listing_order(perm: Optional[Any]) -> Iterator[None]:
    """Make ``os.scandir`` list every directory in another order (``perm`` maps a list to a list)."""
    if perm is None:
        yield
        return
    real = os.scandir

    def scandir(path: Any = ".") -> Any:
        with real(path) as it:
            entries = list(it)
        return _Shuffled(perm(entries))

    os.scandir = scandir  # type: ignore
    try:
        yield
    finally:
        os.scandir = real  # type: ignore


def all_rels(spec: Sequence[Dict[str, Any]], prefix: str = "") -> List[str]:
    out = []
    for nd in spec:
        r = prefix + os.fsdecode(bytes.fromhex(nd["nx"]))
        out.append(r)
        if nd["t"] == "dir":
            out += all_rels(nd.get("c", []), r + "/")
    return out


def name_in_message(msg: str, root: str, rels: Sequence[str]) -> Optional[str]:
    """Which file of the tree an error message names (relative POSIX path), longest candidate first."""
    best: Optional[str] = None
    full = root + "/"
    i = msg.find(full)
    loose: Optional[str] = None
    for r in rels:
        rest = msg[i + len(full) :] if i >= 0 else None
        exact = msg.endswith(": " + r) or (rest is not None and rest.startswith(r) and (rest == r or rest[len(r) :].startswith(". ")))
        if exact and (best is None or len(r) > len(best)):
            best = r
        if (msg.endswith(" " + r) or (rest is not None and rest.startswith(r))) and (loose is None or len(r) > len(loose)):
            loose = r
    return best if best is not None else loose


def err_kind(msg: str) -> str:
    low = msg.lower()
    if "regular file" in low:
        return "notfile"
    if "key" in low:
        return "key"
    if "utf-8" in low or "utf8" in low:
        return "utf8"
    if "read" in low:
        return "io"
    return "?"


def impl(b: Built, rels: Sequence[str], perm: Optional[Any] = None) -> Any:
    """('ok', [(key, value)…] in dict order) | ('err', [(kind, rel)…] in list order, messages) | 'crash:T'."""
    from aas_core_codegen import specific_implementations

    try:
        with time_limit(2.0), listing_order(perm):
            mapping, errors = specific_implementations.read_from_directory(pathlib.Path(os.fsdecode(os.fsencode(b.root))))
    except Hang:
        return "crash:Hang"
    except BaseException as e:  # noqa
        return crash_name(e)
    if errors is not None:
        out = []
        for m in errors:
            n = name_in_message(m, str(b.root), rels)
            bare = m
            if n is not None:  # classify the message without the path (a name may contain 'key', 'read', …)
                bare = bare.replace(str(b.root) + "/" + n, "")
                if bare.endswith(n):
                    bare = bare[: -len(n)]
            out.append((err_kind(bare), n))
        return ("err", out, list(errors))
    return ("ok", [(str(k), str(v)) for k, v in mapping.items()])


def impl_wire(r: Any) -> str:
    if isinstance(r, str):
        return r
    if r[0] == "ok":
        return "ok " + (",".join(enc_text(k) + "=" + enc_text(v) for k, v in r[1]) if r[1] else "[]")
    return "err " + ",".join(f"{k}:{'?' if n is None else enc_text(n)}" for k, n in r[1])


def same_wire(impl_w: str, model_w: str) -> bool:
    if impl_w == model_w:
        return True
    # an error kind the harness could not classify ('?') compares equal to any kind
    if impl_w.startswith("err ") and model_w.startswith("err "):
        a, m = impl_w[4:].split(","), model_w[4:].split(",")
        return len(a) == len(m) and all(x == y or (x.startswith("?:") and x[2:] == y.split(":", 1)[1]) for x, y in zip(a, m))
    return False


# --------------------------------------------------------------------------- the direct oracle (os.walk)

KEY_OK = re.compile(r"[A-Za-z_][A-Za-z_0-9.]*(?:/[A-Za-z_][A-Za-z_0-9.]*)*\Z")


def expected(b: Built) -> Tuple[Dict[str, str], Dict[str, str], Dict[str, str]]:
    """The statement read off the file system with ``os.walk``.

    Returns (mapping, offending, lenient): key -> stripped content for the well-formed non-hidden
    regular files; rel -> reason for the files that must make the run fail; ``lenient`` is the
    mapping under universal-newline translation (only used to classify a mismatch).
    """
    mapping: Dict[str, str] = {}
    lenient: Dict[str, str] = {}
    offending: Dict[str, str] = {}
    root = os.fsencode(b.root)
    for dirpath, dirnames, filenames in os.walk(root):
        dirnames[:] = [d for d in dirnames if not d.startswith(b".")]
        for fn in filenames:
            if fn.startswith(b"."):
                continue
            p = os.path.join(dirpath, fn)
            rel = os.fsdecode(os.path.relpath(p, root)).replace(os.sep, "/")
            try:
                st = os.stat(p)
            except OSError:
                offending[rel] = "not a regular file (dangling or looping link)"
                continue
            if stat.S_ISDIR(st.st_mode):  # os.walk lists unreadable directories and such here
                continue
            if not stat.S_ISREG(st.st_mode):
                offending[rel] = "not a regular file"
                continue
            if KEY_OK.match(rel) is None:
                offending[rel] = "invalid key"
                continue
            try:
                with open(p, "rb") as f:
                    raw = f.read()
            except OSError:
                offending[rel] = "unreadable"
                continue
            try:
                text = raw.decode("utf-8", "strict")
            except UnicodeDecodeError:
                offending[rel] = "not UTF-8"
                continue
            i, j = 0, len(text)
            while i < j and text[i].isspace():
                i += 1
            while j > i and text[j - 1].isspace():
                j -= 1
            mapping[rel] = text[i:j]
            lenient[rel] = text.replace("\r\n", "\n").replace("\r", "\n").strip()
    return mapping, offending, lenient


def is_hidden_rel(rel: str) -> bool:
    return any(part.startswith(".") for part in rel.split("/"))


def judge(b: Built, got: Any) -> List[Tuple[str, str]]:
    """C25 decided on one real result. Returns [(sig, what)]."""
    mapping, offending, lenient = expected(b)
    if isinstance(got, str):
        return [("C25:exception:" + got[6:], f"read_from_directory raised {got[6:]} instead of returning errors")]
    bad: List[Tuple[str, str]] = []
    if got[0] == "err":
        named = [n for _, n in got[1]]
        for (k, n), msg in zip(got[1], got[2]):
            if n is None:
                bad.append(("C25:error-names-no-file", f"the error {msg!r} names no file of the tree"))
            elif n not in offending:
                if is_hidden_rel(n):
                    bad.append(("C25:hidden-not-ignored", f"hidden entry {n!r} is reported as an error: {msg!r}"))
                else:
                    bad.append(("C25:spurious-error", f"{n!r} is reported as an error but is well-formed: {msg!r}"))
        for r, why in offending.items():
            if r not in named:
                bad.append(("C25:offender-not-named", f"{r!r} ({why}) is not named by any error"))
        if not offending and not bad:
            bad.append(("C25:spurious-error", "errors although no file is offending"))
        return bad
    if offending:
        r = sorted(offending)[0]
        return [("C25:offender-accepted", f"{r!r} ({offending[r]}) did not make the loading fail")]
    gotmap = dict(got[1])
    if len(gotmap) != len(got[1]):
        bad.append(("C25:duplicate-key", "a key is listed twice"))
    for k in gotmap:
        if k not in mapping:
            if is_hidden_rel(k):
                bad.append(("C25:hidden-not-ignored", f"hidden entry {k!r} is loaded as a snippet"))
            else:
                bad.append(("C25:extra-key", f"key {k!r} does not correspond to a non-hidden regular file"))
    for k, v in mapping.items():
        if k not in gotmap:
            bad.append(("C25:missing-key", f"file {k!r} is not loaded"))
        elif gotmap[k] != v:
            if gotmap[k] == lenient[k]:
                bad.append(("C25:universal-newlines", f"content of {k!r} differs from the stripped file content by newline translation only"))
            else:
                bad.append(("C25:value", f"content of {k!r} is {gotmap[k]!r}, expected {v!r}"))
    return bad


# --------------------------------------------------------------------------- main.execute on the same trees


def run_main(ctx: Ctx, b: Built) -> Any:
    """(rc, stderr) or 'crash:T' of main.execute with the tree as --snippets_dir (target jsonschema)."""
    import aas_core_codegen.main as m
    from harness.core import REPO

    out = b.base / "out"
    params = m.Parameters(
        model_path=REPO / "dev/test_data/common_meta_models/enum.py",
        target=m.Target.JSONSCHEMA,
        snippets_dir=pathlib.Path(os.fsdecode(os.fsencode(b.root))),
        output_dir=out,
    )
    so, se = io.StringIO(), io.StringIO()
    saved = tempfile.tempdir
    tempfile.tempdir = str(b.base)  # the model cache (C23) must not litter the real temp dir
    try:
        with time_limit(8.0):
            rc = m.execute(params, so, se)
    except Hang:
        return "crash:Hang"
    except BaseException as e:  # noqa
        return crash_name(e)
    finally:
        tempfile.tempdir = saved
    return (rc, se.getvalue())


def judge_main(b: Built, got: Any) -> List[Tuple[str, str]]:
    _, offending, _ = expected(b)
    if isinstance(got, str):
        return [("C25:main:exception:" + got[6:], f"main.execute raised {got[6:]}")]
    rc, err = got
    # write_error_report indents the continuation lines (textwrap.indent splits like str.splitlines)
    unindent = lambda x: re.sub("([\n\r\x0b\x0c\x1c\x1d\x1e\x85\u2028\u2029])  ", "\\1", x)  # noqa
    flat = unindent(err)
    bad = []
    if offending:
        if rc != 1:
            bad.append(("C25:main:rc", f"main.execute returned {rc} although {sorted(offending)[0]!r} is offending"))
        for r, why in offending.items():
            if unindent(r) not in flat:
                bad.append(("C25:main:offender-not-named", f"stderr of main.execute does not name {r!r} ({why})"))
    elif "snippets" in err and "Failed to resolve the implementation-specific snippets" in err:
        bad.append(("C25:main:spurious-error", "main.execute reports snippet errors although no file is offending"))
    return bad


# --------------------------------------------------------------------------- generators

GOOD_NAMES = ["a", "b", "Verification", "_x", "a.b", "x9", "schema_base.json", "A", "a..", "Z_.9", "a.", "zz"]
HIDDEN_NAMES = [".git", ".gitignore", ".a", "..a", "...", ".9", ". "]
BAD_NAMES = ["9a", "a-b", "a b", "\u00e4", "-", "a:b", "\U0001f600", " a", "a ", "a\\b", b"\xff", b"a\xc0", "a\nb", "\u0430", "a\u00a0", "~", "9", "a+", "a\u2028b"]
GOOD_CONTENT = [
    b"", b"x", b" x \n", b"\n\n", b"\t \r\n", b"a\nb", b"a\r\nb", b"a\rb", b"\r\nx\r\n", b"x\r", b"\r\r\n\rx",
    "\u00a0x\u00a0".encode(), "\u2003\u3000x\u0085\u1680".encode(), b"\x1c\x1d\x1e\x1fx\x1c", b"\x0b\x0cx\x0c\x0b",
    "\u200bx\u200b".encode(), "\ufeffx".encode(), " \u180ex\u180e ".encode(), "\u2000\u200a\u2028\u2029\u202f\u205fx".encode(),
    b"\xed\x9f\xbf", b"\xee\x80\x80", b"\xf4\x8f\xbf\xbf", b"\xf0\x90\x80\x80", b"\xc2\x80", b"\xdf\xbf", b"\xe0\xa0\x80", b"\xef\xbf\xbf",
    b"\x00", b" \x00 ", "def f():\n    return '\u00e4\U0001f600'\n".encode(), b"\x7f", b" \x1b ",
    b"a" * 8191 + b"\r\n" + b"b", b"a" * 8190 + "\u20ac".encode() + b"z", b" " * 9000 + b"x" + b"\n" * 9000,
]
BAD_CONTENT = [
    b"\xff", b"\xc0\x80", b"\xc1\xbf", b"\xe0\x80\x80", b"\xe0\x9f\xbf", b"\xed\xa0\x80", b"\xed\xbf\xbf", b"\xf4\x90\x80\x80",
    b"\xf0\x8f\xbf\xbf", b"\xf5\x80\x80\x80", b"\xe2\x82", b"\x80", b"a\xe2\x82", b"\xf0\x90\x80", b"\xc2", b"\xc2\x41", b"x\xbfy",
    b"\xf8\x88\x80\x80\x80", b"a" * 8191 + b"\xe2\x28\xa1", b"\xe2\x82\x41", b"\xf0\x90\x41\x80", b"\xf0\x90\x80\x41",
]
OTHER_TYPES = ["dangling", "loop", "fifo", "sock"]


def enumerated() -> Iterator[Tuple[List[Dict[str, Any]], str]]:
    yield [], "enumerated"
    # every name class at top level, in a plain directory, in a hidden directory, below a bad directory
    for nm in GOOD_NAMES + HIDDEN_NAMES + BAD_NAMES:
        yield [N(nm)], "enumerated"
        yield [N("d", "dir", children=[N(nm)])], "enumerated"
        yield [N(".h", "dir", children=[N(nm)])], "enumerated"
        yield [N(nm, "dir", children=[N("a")])], "enumerated"
        yield [N(nm, "dir", children=[])], "enumerated"
    yield [N(".git", "dir", children=[N("config"), N("objects", "dir", children=[N("9f", content=b"\xff")])]), N("a")], "enumerated"
    yield [N("d", "dir", children=[N(".h", "dir", children=[N("e", "dir", children=[N("bad name", content=b"\xff")])])])], "enumerated"
    for c in GOOD_CONTENT + BAD_CONTENT:
        yield [N("a", content=c)], "enumerated"
        yield [N("d", "dir", children=[N("e", "dir", children=[N("k.py", content=c)])]), N(".x", content=c)], "enumerated"
    # several errors at once: the order of the report
    yield [N("9", content=b"x"), N("b", content=b"\xff"), N("0 0"), N("a", "dir", children=[N("-"), N("ok"), N("z", content=b"\x80")])], "enumerated"
    yield [N(n) for n in ["b", "a", "c", "B", "a.b", "a-b", "a0"]] + [N("a_", "dir", children=[N("x")])], "enumerated"
    yield [N("a", "dir", children=[N("b")]), N("a.b"), N("a-b", "dir", children=[N("c")]), N("a b")], "enumerated"


def malformed() -> Iterator[Tuple[List[Dict[str, Any]], str]]:
    for t in OTHER_TYPES + ["procmem", "dirlink", "filelink"]:
        for nm in ["a", ".h", "9 9"]:
            yield [N(nm, t)], "malformed"
            yield [N("d", "dir", children=[N(nm, t)]), N("ok")], "malformed"
            yield [N(".d", "dir", children=[N(nm, t)]), N("ok")], "malformed"
    yield [N("l", "filelink", content=b" \xc3\xa4 \r\n"), N("m", "filelink", content=b"\xff"), N("bad-link", "filelink")], "malformed"
    yield [N("a", "dangling"), N("b", "fifo"), N("c", "sock"), N("d", "procmem"), N("e", "loop"), N("9", "dangling")], "malformed"
    yield [N("a", "dirlink"), N(".b", "dirlink"), N("9-", "dirlink")], "malformed"


def random_tree(ctx: Ctx, depth: int = 0, weird: float = 0.15) -> List[Dict[str, Any]]:
    rng = ctx.rng
    n = rng.choice([0, 1, 1, 2, 2, 3, 4, 6]) if depth else rng.choice([1, 2, 3, 4, 5, 7])
    used = set()
    out = []
    for _ in range(n):
        r = rng.random()
        if r < 0.55:
            nm: Any = rng.choice(GOOD_NAMES)
        elif r < 0.75:
            nm = rng.choice(HIDDEN_NAMES)
        elif r < 0.9:
            nm = rng.choice(BAD_NAMES)
        else:
            alphabet = "abAZ_09.-/ \u00e4"
            nm = "".join(rng.choice(alphabet) for _ in range(rng.randint(1, 4))).replace("/", "")
            if nm in ("", ".", ".."):
                nm = "q"
        key = nm if isinstance(nm, bytes) else nm.encode("utf-8")
        if key in used:
            continue
        used.add(key)
        r = rng.random()
        if r < 0.3 and depth < 3:
            out.append(N(nm, "dir", children=random_tree(ctx, depth + 1, weird)))
        elif r < 0.3 + weird:
            out.append(N(nm, rng.choice(OTHER_TYPES + ["procmem", "dirlink", "filelink", "filelink"]), content=rng.choice(GOOD_CONTENT)))
        else:
            pool = GOOD_CONTENT if rng.random() < 0.85 else BAD_CONTENT
            c = rng.choice(pool)
            if rng.random() < 0.3:
                ws = " \t\n\r\x0b\x0c\x1c\u0085\u00a0\u2003\u3000\u200b"
                c = "".join(rng.choice(ws) for _ in range(rng.randint(0, 3))).encode() + c + "".join(rng.choice(ws) for _ in range(rng.randint(0, 3))).encode()
            out.append(N(nm, content=c))
    return out


def trees(ctx: Ctx) -> Iterator[Tuple[List[Dict[str, Any]], str]]:
    for c in corpus(ID):
        if "tree" in c:
            yield c["tree"], "corpus"
    yield from enumerated()
    yield from malformed()
    for _ in range(ctx.n(250, 6000)):
        yield random_tree(ctx, weird=0.0 if ctx.rng.random() < 0.6 else 0.2), "random"


# --------------------------------------------------------------------------- one tree through everything


def check_tree(ctx: Ctx, spec: List[Dict[str, Any]], stream: str, with_model: bool, with_main: bool, index: int = 0) -> Dict[str, Any]:
    b = build(ctx, spec)
    res: Dict[str, Any] = {}
    try:
        rels = all_rels(spec)
        got = impl(b, rels)
        res["impl"] = got if isinstance(got, str) else list(got[:2])
        ctx.count(json.dumps(spec, sort_keys=True), nontrivial=len(spec) > 0, stream=stream)
        if isinstance(got, str):
            ctx.hit("outcome=crash")
        else:
            ctx.hit("outcome=" + got[0])
            if got[0] == "err":
                for k, _ in got[1]:
                    ctx.hit("error=" + k)
                if len(got[1]) > 1:
                    ctx.hit("errors>1")
            elif len(got[1]) > 1:
                ctx.hit("mapping>1")
        verdict = judge(b, got)
        res["oracle"] = verdict
        for sig, what in verdict:
            ctx.fail({"tree": spec}, what, sig)
        # listing-order independence (C22): reversed and shuffled os.scandir
        perms = [lambda es: list(reversed(es))]
        if index % 3 == 0:
            seed = ctx.rng.random()

            def shuffled(es: List[Any], seed: float = seed) -> List[Any]:
                import random as _r

                es = sorted(es, key=lambda e: os.fsencode(e.name))
                _r.Random(seed).shuffle(es)
                return es

            perms.append(shuffled)
        others = [impl(b, rels, p) for p in perms]
        res["impl_other_listing_orders"] = [o if isinstance(o, str) else list(o[:2]) for o in others]
        for o in others:
            for sig, what in judge(b, o):
                ctx.fail({"tree": spec, "listing": "permuted"}, what, sig)
        if with_model:
            toks = disk_tokens(os.fsencode(b.root))
            root = pathlib.Path(os.fsdecode(os.fsencode(b.root)))
            real = list(root.glob("**/*"))
            enc = lambda ps: ",".join(enc_text(p.relative_to(root).as_posix()) for p in ps) if ps else "[]"  # noqa
            res["pending"] = {
                "toks": " ".join(toks),
                "impl": [impl_wire(got)] + [impl_wire(o) for o in others],
                "glob": enc(real),
                "sorted": enc(sorted(real)),
            }
        if with_main:
            gm = run_main(ctx, b)
            res["main"] = gm if isinstance(gm, str) else [gm[0], gm[1][:400]]
            ctx.hit("main=" + (gm if isinstance(gm, str) else f"rc{gm[0]}"))
            for sig, what in judge_main(b, gm):
                ctx.fail({"tree": spec, "via": "main.execute"}, what, sig)
    finally:
        b.close()
    return res


# --------------------------------------------------------------------------- pure-function streams


def _utf8_inputs(ctx: Ctx) -> Iterator[bytes]:
    yield from GOOD_CONTENT[:-3]
    yield from BAD_CONTENT
    # all 1- and 2-byte strings over boundary bytes; all lead/continuation boundary combinations
    edge = [0x00, 0x41, 0x7F, 0x80, 0x8F, 0x90, 0x9F, 0xA0, 0xBF, 0xC0, 0xC1, 0xC2, 0xDF, 0xE0, 0xE1, 0xEC, 0xED, 0xEE, 0xEF, 0xF0, 0xF1, 0xF3, 0xF4, 0xF5, 0xFF]
    for a in range(256):
        yield bytes([a])
    for a in edge:
        for b_ in edge:
            yield bytes([a, b_])
            for c in (0x7F, 0x80, 0xBF, 0xC0):
                yield bytes([a, b_, c])
                for d in (0x80, 0xBF, 0x41):
                    yield bytes([a, b_, c, d])
    for cp in [0, 0x7F, 0x80, 0x7FF, 0x800, 0xFFF, 0x1000, 0xD7FF, 0xE000, 0xFFFD, 0xFFFF, 0x10000, 0x3FFFF, 0x40000, 0xFFFFF, 0x100000, 0x10FFFF]:
        yield chr(cp).encode("utf-8")
        yield b"a" + chr(cp).encode("utf-8") + b"b"
    for _ in range(ctx.n(3000, 200000)):
        k = ctx.rng.randint(0, 6)
        parts = []
        for _ in range(k):
            r = ctx.rng.random()
            if r < 0.5:
                parts.append(chr(ctx.rng.choice([ctx.rng.randrange(0x80), ctx.rng.randrange(0x80, 0x800), ctx.rng.randrange(0x800, 0xD800), ctx.rng.randrange(0xE000, 0x10000), ctx.rng.randrange(0x10000, 0x110000)])).encode("utf-8"))
            elif r < 0.8:
                parts.append(bytes(ctx.rng.choice(edge) for _ in range(ctx.rng.randint(1, 4))))
            else:
                good = chr(ctx.rng.randrange(0x80, 0x110000) if ctx.rng.random() < 0.9 else 0x20AC)
                try:
                    e = bytearray(good.encode("utf-8"))
                except UnicodeEncodeError:
                    e = bytearray(b"\xed\xa0\x80")
                i = ctx.rng.randrange(len(e))
                e[i] = (e[i] + ctx.rng.choice([1, 0x40, 0x80, 0xFF])) % 256
                parts.append(bytes(e))
        yield b"".join(parts)


def _text(ctx: Ctx) -> str:
    cls = [" ", "\t", "\n", "\r", "\x0b", "\x0c", "\x1c", "\x1f", "\x85", "\xa0", "\u1680", "\u2003", "\u2028", "\u3000", "\u200b", "\ufeff", "\u180e", "x", "\u00e4", "\U0001f600", "\x00", "\x1b"]
    return "".join(ctx.rng.choice(cls) for _ in range(ctx.rng.randint(0, 7)))


def pure_streams(ctx: Ctx) -> None:
    import io as _io

    from aas_core_codegen import specific_implementations as si

    # whitespace table over all code points (one request)
    want = "".join(chr(c) for c in range(0x110000) if chr(c).strip() == "")
    got = ctx.model([f"spaces {0x110000}"])[0]
    ctx.count("spaces", stream="isspace-table")
    ctx.evaluations += 0x110000 - 1
    ctx.traces_validated += 1
    if got != enc_text(want):
        ctx.disagree("isspace-table", "all code points", [hex(ord(c)) for c in want], got)
    # pattern text
    if ctx.model(["pattern"])[0] != enc_text(si.IMPLEMENTATION_KEY_RE.pattern):
        ctx.disagree("pattern", "IMPLEMENTATION_KEY_RE.pattern", si.IMPLEMENTATION_KEY_RE.pattern, ctx.model(["pattern"])[0])
    # utf-8
    bs = list(_utf8_inputs(ctx))
    outs = ctx.model(["utf8 " + (".".join(format(x, "x") for x in b_) if b_ else "-") for b_ in bs])
    for b_, o in zip(bs, outs):
        try:
            w = "some " + enc_text(b_.decode("utf-8", "strict"))
            ctx.hit("utf8=valid")
        except UnicodeDecodeError:
            w = "none"
            ctx.hit("utf8=invalid")
        ctx.count(b_, stream="utf8")
        ctx.traces_validated += 1
        if o != w:
            ctx.disagree("utf8", b_, w, o)
    # encoder
    ts = [chr(c) for c in [0, 0x7F, 0x80, 0x7FF, 0x800, 0xD7FF, 0xE000, 0xFFFF, 0x10000, 0x10FFFF]] + [
        "".join(chr(ctx.rng.choice([ctx.rng.randrange(0xD800), ctx.rng.randrange(0xE000, 0x110000)])) for _ in range(ctx.rng.randint(0, 5))) for _ in range(ctx.n(500, 20000))
    ]
    for t, o in zip(ts, ctx.model(["encode " + enc_text(t) for t in ts])):
        ctx.count(t, stream="utf8-encode")
        w = t.encode("utf-8")
        if o != (".".join(format(x, "x") for x in w) if w else "-"):
            ctx.disagree("utf8-encode", t, w, o)
    # strip and universal newlines
    ts = ["", " ", "x", " x", "x ", " x y ", "\n", "\r\n", "\r", "\r\r\n", "a\r", "\ra", "a\r\nb\rc\nd"] + [_text(ctx) for _ in range(ctx.n(3000, 100000))]
    for t, o1, o2 in zip(ts, ctx.model(["strip " + enc_text(t) for t in ts]), ctx.model(["nl " + enc_text(t) for t in ts])):
        ctx.count(t, stream="strip+nl")
        ctx.traces_validated += 1
        if o1 != enc_text(t.strip()):
            ctx.disagree("strip", t, t.strip(), o1)
        w = _io.IncrementalNewlineDecoder(None, True).decode(t, final=True)
        if o2 != enc_text(w):
            ctx.disagree("universal-newlines", t, w, o2)
    # key matcher against the real compiled regex
    alphabet = "aZ_09./- \u00a0\n\u00e4"
    ks = ["", "a", "/", "a/", "/a", "a//b", "a/b", "a/9", "9", ".", "a.", "_", "a\n", "a/b/c.d/_", "a/.b", "A/B"]
    import itertools

    for n in range(1, 5):
        for tup in itertools.product("a9./_-", repeat=n):
            ks.append("".join(tup))
    ks += ["".join(ctx.rng.choice(alphabet) for _ in range(ctx.rng.randint(0, 8))) for _ in range(ctx.n(3000, 100000))]
    for k, o in zip(ks, ctx.model(["key " + enc_text(k) for k in ks])):
        ctx.count(k, stream="key")
        ctx.traces_validated += 1
        w = "1" if si.IMPLEMENTATION_KEY_RE.fullmatch(k) is not None else "0"
        ctx.hit("key=" + w)
        if o != w:
            ctx.disagree("key", k, w, o)


# --------------------------------------------------------------------------- entry points


def settle(ctx: Ctx, pending: List[Tuple[List[Dict[str, Any]], Dict[str, Any]]]) -> None:
    """One batched driver call for the trees collected so far; compares model and implementation."""
    if not pending:
        return
    lines: List[str] = []
    for _, res in pending:
        t = res["pending"]["toks"]
        lines += ["read " + t, "glob " + t, "sorted " + t]
    outs = ctx.model([ln.rstrip() for ln in lines])
    for k, (spec, res) in enumerate(pending):
        m_read, m_glob, m_sorted = outs[3 * k : 3 * k + 3]
        pd = res.pop("pending")
        res["model"] = m_read
        ctx.traces_validated += 1
        ctx.hit("model=" + m_read.split(" ")[0])
        if not same_wire(pd["impl"][0], m_read):
            ctx.disagree("read", {"tree": spec}, pd["impl"][0], m_read)
        for o in pd["impl"][1:]:
            if not same_wire(o, m_read):
                ctx.disagree("read-permuted-listing", {"tree": spec}, o, m_read)
        if pd["glob"] != m_glob:
            ctx.disagree("glob-order", {"tree": spec}, pd["glob"], m_glob)
        if pd["sorted"] != m_sorted:
            ctx.disagree("sorted-order", {"tree": spec}, pd["sorted"], m_sorted)
    pending.clear()


def _run(ctx: Ctx, with_model: bool) -> None:
    pending: List[Tuple[List[Dict[str, Any]], Dict[str, Any]]] = []
    for i, (spec, stream) in enumerate(trees(ctx)):
        with_main = stream in ("corpus", "malformed") or (stream == "enumerated" and i % 4 == 0) or (stream == "random" and i % 10 == 0)
        res = check_tree(ctx, spec, stream, with_model, with_main, i)
        if with_model:
            pending.append((spec, res))
            if len(pending) >= 400:
                settle(ctx, pending)
        if i % 97 == 0:
            ctx.sample({"tree": [nd["name"] for nd in spec], "impl": res.get("impl")})
    settle(ctx, pending)


def correspond(ctx: Ctx) -> None:
    ctx.extra_cov["rule"] = (
        "directory trees = corpus + enumerated (every name class x position: top level / in a directory / in a hidden "
        "directory / as a directory name; every content class) + malformed (symlinks to files and directories, dangling and "
        "looping links, FIFOs, sockets, a regular file whose read raises OSError) + seeded random trees of depth <= 3; each "
        "tree is read three times (native, reversed and shuffled os.scandir order); distinct by tree spec, the empty tree "
        "is trivial; plus pure-function streams (utf8, strip, universal newlines, key matcher, the whitespace table over "
        "all 1,114,112 code points)"
    )
    ctx.assumptions.append(
        "directories that cannot be listed (pathlib.glob swallows the OSError) are not modelled and cannot be produced when running as root"
    )
    pure_streams(ctx)
    _run(ctx, True)


def oracle(ctx: Ctx) -> None:
    if not ctx.driver_ok or ctx.searching:
        _run(ctx, False)


def replay(ctx: Ctx, data: Dict[str, Any]) -> Any:
    inp = data["failure"]["input"] if "failure" in data else data
    res = check_tree(ctx, inp["tree"], "replay", ctx.driver_ok, True)
    if ctx.driver_ok:
        settle(ctx, [(inp["tree"], res)])
        res["disagreements"] = ctx.disagreements
    return res


# --------------------------------------------------------------------------- for the owner of C22


def c22_listing_order_failures(ctx: Ctx, spec: List[Dict[str, Any]]) -> List[Tuple[str, str]]:
    """C22 on one snippet tree: the result of read_from_directory (mapping order, error list and its
    order) must not depend on the order in which the file system lists the directory."""
    b = build(ctx, spec)
    try:
        rels = all_rels(spec)
        base = impl(b, rels)
        for perm in (lambda es: list(reversed(es)), lambda es: sorted(es, key=lambda e: os.fsencode(e.name))):
            other = impl(b, rels, perm)
            if other != base:
                return [("C22:snippets-listing-order", f"read_from_directory gives {impl_wire(other)[:200]} instead of {impl_wire(base)[:200]} when the directory is listed in another order")]
        return []
    finally:
        b.close()
