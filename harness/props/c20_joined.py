"""C20 (joined-string level) -- the string / template literals that the six SDK targets write for *formatted strings*.

Input class: pattern verification functions whose statements are plain constants and f-strings (joined strings with
formatted values referring to earlier local variables, the style of ``matches_xs_*`` in ``aas_core_meta.v3``), and class
invariants comparing a property with an f-string.  The text parts hold every character (sequence) that is special in the
literal syntax of *some* target -- both kinds of quotes, triple quotes, the backtick, ``${``, ``$``, ``{`` / ``}``, ``%``,
``#{``, backslash sequences, ``\\u`` escapes, line terminators of C# / JavaScript, ``*/`` -- first / last in a part, alone
between two formatted values, with different quote majorities per part.

One model holds many functions and invariants; the six SDK targets are generated in-process and judged:

* whole files: the judges of ``c20_files`` (``ast.parse``, balance lexers, C# doc XML), ``javac`` (parse only), ``g++
  -fsyntax-only`` on ``pattern.cpp`` / ``verification.cpp``, and a token adjacency check for Go (no tool-chain);
* every pattern function, by name: the body is *evaluated* -- CPython ``exec``, ``node`` (``vm.Script``), ``javac`` + ``java``
  (a stand-in ``Pattern`` class), and the literal scanners written here from the language specifications (all five targets with
  literals; they are the only judge for Go and C#) -- and the evaluated pattern must be the pattern of the model (modulo the
  spelling of numeric escapes, which the regex renderers of the targets choose freely);
* every invariant: a literal expression with exactly the text parts of the model must exist in the verification file of each
  target (Python: ``ast``; the others: the scanners), and the plain (not interpolated) literals likewise.

Nothing here is derived from the generators: the expectations come from the model text and the language specifications.

Two input shapes run in models of their own (``hazard_specs``, corpus ``joined-line-boundaries`` / ``joined-edge-blank``), because the
unchanged project fails on them (findings C20-F2..F8, one signature ``C20:joined:<target>:<shape>`` per target): the boundaries of
``str.splitlines`` other than LF / CR inside a literal, and a text part that starts or ends in a blank (python / typescript crash).

``python3 -m harness.props.c20_joined --selftest`` lexes all the recorded outputs of the repository with the scanners (no trouble
allowed); without arguments it runs the enumerated slice and prints timings.
"""
from __future__ import annotations

import ast
import json
import os
import pathlib
import re
import shutil
import subprocess
import sys
import threading
import time
from typing import Any, Dict, Iterable, List, Optional, Sequence, Tuple

from harness.props import c20_files

SDK_TARGETS = ["python", "typescript", "java", "csharp", "golang", "cpp"]

Part = List[str]  # ["t", text] | ["v", variable]

# ---------------------------------------------------------------------------------------
# Specification -> meta-model
# ---------------------------------------------------------------------------------------


def _lit_body(s: str, fstring: bool) -> str:
    """The body of a double-quoted Python literal (an f-string if ``fstring``) denoting ``s``; pure ASCII."""
    out: List[str] = []
    for c in s:
        o = ord(c)
        if c == '"':
            out.append('\\"')
        elif c == "\\":
            out.append("\\\\")
        elif fstring and c in "{}":
            out.append(c * 2)
        elif 0x20 <= o < 0x7F:
            out.append(c)
        elif o <= 0xFF:
            out.append("\\x%02x" % o)
        elif o <= 0xFFFF:
            out.append("\\u%04x" % o)
        else:
            out.append("\\U%08x" % o)
    return "".join(out)


def render_parts(parts: Sequence[Part], prefix: str = "", force_f: bool = False) -> str:
    """A Python expression for the joined string ``parts`` (a plain constant if there is no formatted value)."""
    has_value = any(p[0] == "v" for p in parts)
    if not has_value and not force_f:
        return '"' + "".join(_lit_body(p[1], False) for p in parts) + '"'
    body = "".join(_lit_body(p[1], True) if p[0] == "t" else "{" + prefix + p[1] + "}" for p in parts)
    return 'f"' + body + '"'


def evaluate(stmts: Sequence[Sequence[Any]]) -> str:
    """The pattern of a function: the value of its last statement."""
    env: Dict[str, str] = {}
    value = ""
    for var, parts in stmts:
        value = "".join(p[1] if p[0] == "t" else env[p[1]] for p in parts)
        env[var] = value
    return value


def model_source(spec: Dict[str, Any]) -> str:
    """The meta-model of ``spec`` = ``{"fn": [{"name", "stmts": [[var, parts]...], "inline"?, "f"?}], "inv": [parts...]}``."""
    out = [c20_files._MODEL_HEADER]
    for fn in spec.get("fn", []):
        out.append("@verification\ndef matches_%s(text: str) -> bool:\n" % fn["name"])
        out.append('    """Check that :paramref:`text` matches the pattern of %s."""\n' % fn["name"])
        stmts = fn["stmts"]
        last = len(stmts) - 1
        for k, (var, parts) in enumerate(stmts):
            if k == last and fn.get("inline"):
                out.append("    return match(%s, text) is not None\n" % render_parts(parts, force_f=bool(fn.get("f"))))
            else:
                out.append("    %s = %s\n" % (var, render_parts(parts, force_f=bool(fn.get("f")))))
                if k == last:
                    out.append("    return match(%s, text) is not None\n" % var)
        out.append("\n\n")
    invs = spec.get("inv", [])
    for k in reversed(range(len(invs))):
        out.append("@invariant(\n    lambda self: self.p != %s,\n    \"Property p must differ (%d).\",\n)\n" % (render_parts(invs[k], "self."), k))
    out.append('class Something(DBC):\n    """Represent something."""\n\n')
    props = ["p", "q", "r"]
    for p in props:
        out.append('    %s: str\n    """Hold %s."""\n\n' % (p, p))
    out.append("    def __init__(self, " + ", ".join("%s: str" % p for p in props) + ") -> None:\n")
    for p in props:
        out.append("        self.%s = %s\n" % (p, p))
    return "".join(out)


# ---------------------------------------------------------------------------------------
# The enumerated (seed independent) slice and the seeded random one
# ---------------------------------------------------------------------------------------

W = "[a-z]"  # the value of the variable ``word``: one atom, so that a quantifier may follow the formatted value

#: (class name, text) -- every text is a regular expression fragment closed in itself which the renderers of the
#: project write back unchanged (up to the spelling of numeric escapes), so the pattern of the model is the expectation.
PATTERN_ATOMS: List[Tuple[str, str]] = [
    ("single-quote", "'"), ("double-quote", '"'), ("triple-double-quote", '"""'), ("triple-single-quote", "'''"),
    ("quotes-sd", "'\""), ("quotes-ds", "\"'"), ("quotes-dds", "\"\"'"), ("quotes-ssd", "''\""),
    ("backtick", "`"), ("two-backticks", "``"), ("backtick-then-dollar-brace", "`[${]"),
    ("dollar-brace", "[${]"), ("dollar-brace-closed", "[${]x[}]"), ("dollar-in-class", "[$]"), ("escaped-dollar", "\\$"),
    ("escaped-dollar-brace", "\\$\\{"), ("escaped-braces", "\\{\\}"), ("braces-in-class", "[{}]"),
    ("quantifier", "a{2}"), ("quantifier-range", "a{1,3}"),
    ("slash-star", "/*"), ("star-slash", "a*/"), ("double-slash", "//"),
    ("percent", "%"), ("percent-s", "%s"), ("percent-percent", "%%"), ("percent-brace", "%[{]"), ("percent-v-d", "%v%d"),
    ("hash-brace", "[#{]"), ("hash", "#"),
    ("backslash", "\\\\"), ("backslash-quote", "\\\\\""), ("backslash-single-quote", "\\\\'"), ("backslash-backtick", "\\\\`"),
    ("regex-newline", "\\n"), ("regex-tab", "\\t"), ("escaped-dot", "\\."),
    ("x-escape", "\\x41"), ("u-escape", "\\u00e9"), ("u-escape-2028", "\\u2028"), ("x-escape-double-quote", "\\x22"),
    ("x-escape-backtick", "\\x60"), ("x-escape-single-quote", "\\x27"), ("x-escape-dollar-brace", "[\\x24{]"),
    ("raw-e-acute", "\xe9"), ("raw-tab", "\t"), ("raw-nbsp", "\xa0"),
    ("raw-del", "\x7f"), ("raw-soh", "\x01"), ("xml-specials", "<&>"),
]

#: the boundaries of ``str.splitlines`` which are neither LF nor CR: line terminators of C# / JavaScript, harmless elsewhere -- as long
#: as nobody re-indents the generated code with ``splitlines``
LINE_SEPARATOR_ATOMS: List[Tuple[str, str]] = [
    ("raw-2028", "\u2028"), ("raw-0085", "\x85"), ("raw-2029", "\u2029"), ("raw-fs-gs-rs", "\x1c\x1d\x1e"),
]

#: a text part that starts or ends in a blank: ``string_literal(..., without_enclosing=True)`` of python / typescript wraps the part
#: in ``Stripped`` (finding C20-F3), so these live in a model of their own
EDGE_BLANK_ATOMS: List[Tuple[str, str]] = [("space", " "), ("spaces-around", " a "), ("leading-space", " a"), ("trailing-space", "a ")]

#: atoms that start with a quantifier: only directly after a formatted value
PATTERN_ATOMS_AFTER_VALUE: List[Tuple[str, str]] = [
    ("value-quantifier", "{2}"), ("value-quantifier-range", "{1,3}'"), ("value-star-slash", "*/"), ("value-plus-quote", '+"'),
    ("value-optional-backtick", "?`"),
]

QUOTES = ["'", '"', "''\"", "\"\"'", '"""', "'''"]

#: text parts of the invariants: no regular expressions, so any character goes
INVARIANT_ATOMS: List[Tuple[str, str]] = [(n, t) for n, t in PATTERN_ATOMS if not n.startswith(("x-escape", "u-escape", "regex-"))] + [
    ("lone-open-brace", "{"), ("lone-close-brace", "}"), ("dollar-brace-raw", "${"), ("dollar-brace-x", "${x}"), ("hash-brace-x", "#{x}"),
    ("positional", "{0}"), ("percent-v", "%v"), ("percent-d", "%d"), ("percent-bang", "%!"), ("one-backslash", "\\"),
    ("backslash-then-quote", "\\\""), ("newline", "\n"), ("carriage-return", "\r"), ("crlf-line", "a\r\nb"), ("nul", "\x00"),
    ("astral", "\U0001F600"), ("backslash-u", "\\u0041"), ("backslash-u-alone", "\\u"), ("backslash-x", "\\x41"), ("backslash-n", "\\n"),
    ("trigraph", "??/"), ("dollar", "$"), ("dollars", "$$"), ("dollar-quote", '$"'), ("at-quote", '@"'),
    ("bel-bs", "\x07\x08"), ("esc", "\x1b"), ("bom", "\ufeff"), ("quote-plus", '" + "'), ("comma", '", "'),
    ("star-slash-raw", "*/"), ("paren", ")"), ("semicolon", '";'),
]

#: for the invariants also the vertical tab and the form feed (the regular expressions of the project refuse them)
LINE_SEPARATOR_ATOMS_OF_INVARIANTS: List[Tuple[str, str]] = LINE_SEPARATOR_ATOMS + [("vt-ff", "\x0b\x0c")]


def _fn(name: str, stmts: List[Tuple[str, List[Part]]], **kw: Any) -> Dict[str, Any]:
    return dict({"name": name, "stmts": [[v, [list(p) for p in parts]] for v, parts in stmts]}, **kw)


def _word() -> Tuple[str, List[Part]]:
    return ("word", [["t", W]])


def _t(s: str) -> Part:
    return ["t", s]


_V: Part = ["v", "word"]


def enumerated_spec(level: int = 1) -> Dict[str, Any]:
    """The seed-independent slice (``level`` 0: fewer layouts per class, 1: quick, 2: thorough).

    One function per class of special text: every layout is a statement of its own (the pattern itself has to be anchored,
    so the layouts are the values of variables which the anchored pattern joins).
    """
    fns: List[Dict[str, Any]] = []

    def add(stmts: List[Tuple[str, List[Part]]], **kw: Any) -> None:
        fns.append(_fn("f%d" % len(fns), stmts, **kw))

    def layouts(bodies: List[List[Part]], first: str = "", last: str = "", **kw: Any) -> None:
        stmts: List[Tuple[str, List[Part]]] = [_word()]
        names = ["alpha", "beta", "gamma", "delta", "eta", "theta", "iota", "kappa", "mu", "nu"]
        pattern: List[Part] = [_t("^" + first)]
        for name, parts in zip(names, bodies):
            stmts.append((name, parts))
            pattern.append(["v", name])
        assert len(bodies) <= len(names)
        pattern.append(_t(last + "$"))
        add(stmts + [("pattern", pattern)], **kw)

    # the witnesses of the accepted style
    add([_word(), ("pattern", [_t("^"), _V, _t("(-"), _V, _t(")*$")])])
    add([_word(), ("pattern", [_t("^('"), _V, _t("'|\"\"\""), _V, _t("\"\"\")$")])])
    add([_word(), ("pattern", [_t("^`"), _V, _t("`$")])])
    # every special: first in a literal, last in a literal, alone between two values, between the edges, without values (a constant /
    # an f-string without values), and directly in the anchored pattern
    for k, (_, s) in enumerate(PATTERN_ATOMS):
        bodies = [[_t(s), _V, _t("x")], [_t("x"), _V, _t(s)], [_V, _t(s), _V], [_t(s)]]
        if level >= 2:
            bodies.append([_t("x"), _V, _t(s), _V, _t("y")])
        layouts(bodies, first=s, last=s, f=(k % 2 == 1))
        if level >= 2 or k % 3 == 0:
            add([_word(), ("pattern", [_t("^"), _V, _t(s), _V, _t("$")])], inline=(k % 2 == 0))
    for _, s in PATTERN_ATOMS_AFTER_VALUE:
        layouts([[_t("x"), _V, _t(s)], [_V, _t(s), _V, _t(s)]])
        add([_word(), ("pattern", [_t("^"), _V, _t(s + "$")])])
    # quote majorities: every pair (first part, last part) of a literal, and first / middle / last
    for q0 in QUOTES:
        layouts([[_t(q0), _V, _t(q1)] for q1 in QUOTES], first=q0, last=q0)
        if level >= 2:
            for q1 in QUOTES:
                layouts([[_t(q0), _V, _t(q1), _V, _t(q2)] for q2 in QUOTES], first=q0, last=q1)
    # statements: a variable given by an f-string, a re-assigned variable, the pattern inlined in the call, variables only
    add([_word(), ("quoted", [_t("'"), _V, _t("'")]), ("pattern", [_t('^"'), ["v", "quoted"], _t('"`'), _V, _t("`$")])])
    add([_word(), ("word", [_V, _t("'")]), ("pattern", [_t('^"'), _V, _t('"$')])])
    add([_word(), ("pattern", [_t("^`"), _V, _t("[${]'$")])], inline=True)
    add([("alpha", [_t("`")]), ("beta", [_t('"')]), ("gamma", [_t("'")]),
         ("pattern", [_t("^"), ["v", "alpha"], ["v", "beta"], _t("[${]"), ["v", "gamma"], _t("%s"), ["v", "alpha"], _t("$")])])
    add([("pattern", [_t("^'\"`[${]%s\\\\$")])], inline=True)

    invs: List[List[Part]] = []
    Q: Part = ["v", "q"]
    R: Part = ["v", "r"]
    for k, (_, s) in enumerate(INVARIANT_ATOMS):
        if level >= 2:
            invs.append([_t(s), Q, _t("x")])
            invs.append([_t("x"), Q, _t(s)])
        else:
            invs.append([_t(s), Q, _t(s)])  # first and last in the literal
        invs.append([Q, _t(s), R])
        if level >= 2 or k % 2 == 0:
            invs.append([_t(s)])
    for q0 in QUOTES:
        for q1 in QUOTES[:4] if level < 2 else QUOTES:
            invs.append([_t(q0), Q, _t(q1)])
    invs.append([_t("a`${"), Q, _t("}'\"%s\\")])
    invs.append([Q, R])
    return {"fn": fns, "inv": invs}


def random_spec(rng: Any, n_fn: int, n_inv: int) -> Dict[str, Any]:
    fns: List[Dict[str, Any]] = []
    for i in range(n_fn):
        n_values = rng.randint(0, 3)
        parts: List[Part] = []
        for k in range(n_values + 1):
            text = ""
            if k > 0 and rng.random() < 0.25:
                text += rng.choice(PATTERN_ATOMS_AFTER_VALUE)[1]
            for _ in range(rng.choice([0, 1, 1, 2, 3])):
                atom = rng.choice(PATTERN_ATOMS)[1] if rng.random() < 0.85 else rng.choice(QUOTES)
                text += atom
            if text:
                parts.append(_t(text))
            if k < n_values:
                parts.append(list(_V))
        if not parts:
            parts = [_t("x")]
        stmts = [_word()] if n_values else []
        if rng.random() < 0.5:
            # the layout is the value of a variable, so that the special text may start / end a literal
            stmts += [("body", parts), ("pattern", [_t("^"), ["v", "body"], _t("$")])]
        else:
            parts = [_t("^")] + parts + [_t("$")]
            merged: List[Part] = []
            for p in parts:
                if p[0] == "t" and merged and merged[-1][0] == "t":
                    merged[-1] = _t(merged[-1][1] + p[1])
                else:
                    merged.append(p)
            stmts += [("pattern", merged)]
        fns.append(_fn("g%d" % i, stmts, inline=rng.random() < 0.2, f=rng.random() < 0.5))
    invs: List[List[Part]] = []
    for i in range(n_inv):
        n_values = rng.randint(0, 3)
        parts = []
        for k in range(n_values + 1):
            text = "".join(rng.choice(INVARIANT_ATOMS)[1] if rng.random() < 0.8 else rng.choice(["a", "-", "x y"]) for _ in range(rng.choice([0, 1, 1, 2, 3])))
            if text:
                parts.append(_t(text))
            if k < n_values:
                parts.append(["v", rng.choice(["q", "r"])])
        if not any(p[0] == "t" for p in parts):
            parts.append(_t(rng.choice(INVARIANT_ATOMS)[1]))
        invs.append(parts)
    return {"fn": fns, "inv": invs}


_LINE_BOUNDARIES = "\x0b\x0c\x1c\x1d\x1e\x85\u2028\u2029"


def _texts_of(item: Any) -> List[str]:
    parts_list = [parts for _, parts in item["stmts"]] if isinstance(item, dict) else [item]
    return [p[1] for parts in parts_list for p in parts if p[0] == "t"]


def hazard_of(spec: Dict[str, Any]) -> Optional[str]:
    """The known hazard which *every* item of ``spec`` carries (the findings C20-F2 / C20-F3 are about these input shapes)."""
    items = list(spec.get("fn", [])) + list(spec.get("inv", []))
    if not items:
        return None
    if all(any(c in _LINE_BOUNDARIES for t in _texts_of(it) for c in t) for it in items):
        return "line-boundary"
    if all(any(t[:1] == " " or t[-1:] == " " for t in _texts_of(it)) for it in items):
        return "edge-blank"
    return None


def hazard_specs(level: int = 1) -> List[Tuple[str, Dict[str, Any]]]:
    """Models of their own for the input shapes of the known findings (a crash of a generator would hide the other items)."""
    out: List[Tuple[str, Dict[str, Any]]] = []
    for name, atoms, inv_atoms in (
        ("line-boundary", LINE_SEPARATOR_ATOMS, LINE_SEPARATOR_ATOMS_OF_INVARIANTS),
        ("edge-blank", EDGE_BLANK_ATOMS, EDGE_BLANK_ATOMS),
    ):
        fns: List[Dict[str, Any]] = []
        invs: List[List[Part]] = []
        for k, (_, s) in enumerate(atoms if level >= 1 else atoms[:2]):
            fns.append(_fn("h%d" % k, [_word(), ("alpha", [_t(s), _V, _t(s)]), ("beta", [_V, _t(s), _V]), ("gamma", [_t(s)]),
                                      ("pattern", [_t("^" + s), ["v", "alpha"], ["v", "beta"], ["v", "gamma"], _t(s + "$")])]))
        for _, s in inv_atoms if level >= 1 else inv_atoms[:2]:
            invs.append([_t(s), ["v", "q"], _t(s)])
            invs.append([["v", "q"], _t(s), ["v", "r"]])
            if name == "line-boundary":
                invs.append([_t(s)])
        out.append((name, {"fn": fns, "inv": invs}))
    return out


def merge_specs(*specs: Dict[str, Any]) -> Dict[str, Any]:
    return {"fn": [fn for sp in specs for fn in sp.get("fn", [])], "inv": [inv for sp in specs for inv in sp.get("inv", [])]}


# ---------------------------------------------------------------------------------------
# Literal scanners, written from the language specifications
# ---------------------------------------------------------------------------------------


class LitError(Exception):
    def __init__(self, message: str, pos: int) -> None:
        Exception.__init__(self, message)
        self.pos = pos


_HEX = "0123456789abcdefABCDEF"
_OCT = "01234567"

_NLS = {
    "java": "\n\r",
    "ts": "\n\r\u2028\u2029",
    "cs": "\n\r\x85\u2028\u2029",
    "go": "\n",
    "cpp": "\n\r",
}

_SIMPLE = {
    "java": {"b": "\b", "t": "\t", "n": "\n", "f": "\f", "r": "\r", "s": " ", '"': '"', "'": "'", "\\": "\\"},
    "ts": {"b": "\b", "t": "\t", "n": "\n", "f": "\f", "r": "\r", "v": "\v"},
    "cs": {"'": "'", '"': '"', "\\": "\\", "0": "\0", "a": "\a", "b": "\b", "f": "\f", "n": "\n", "r": "\r", "t": "\t", "v": "\v"},
    "go": {"a": "\a", "b": "\b", "f": "\f", "n": "\n", "r": "\r", "t": "\t", "v": "\v", "\\": "\\"},
    "cpp": {"'": "'", '"': '"', "?": "?", "\\": "\\", "a": "\a", "b": "\b", "f": "\f", "n": "\n", "r": "\r", "t": "\t", "v": "\v"},
}


def _hex(text: str, k: int, lo: int, hi: int, what: str) -> Tuple[int, int]:
    """Between ``lo`` and ``hi`` hexadecimal digits at ``k``: (value, position after them)."""
    j = k
    while j < len(text) and j - k < hi and text[j] in _HEX:
        j += 1
    if j - k < lo:
        raise LitError("%s needs %d hexadecimal digit(s)" % (what, lo), k)
    return int(text[k:j], 16), j


def combine_surrogates(s: str) -> str:
    if not any(0xD800 <= ord(c) <= 0xDFFF for c in s):
        return s
    return s.encode("utf-16", "surrogatepass").decode("utf-16", "surrogatepass")


class Scanner:
    """Comments, literals and balanced operands of one language (``java ts cs go cpp``)."""

    def __init__(self, text: str, lang: str) -> None:
        self.text = text
        self.lang = lang
        self.n = len(text)
        self.nls = _NLS[lang]

    # ------------------------------------------------------------------ escapes

    def _escape(self, k: int, quote: str, out: List[Any]) -> int:
        """Decode the escape whose backslash is at ``k - 1``; append to ``out`` (``str`` or, for Go bytes, ``int``)."""
        text, lang = self.text, self.lang
        if k >= self.n:
            raise LitError("backslash at the end of the file", k)
        c = text[k]
        simple = _SIMPLE[lang]
        if lang == "go":
            if c == quote and quote in "\"'":
                out.append(c)
                return k + 1
            if c in simple:
                out.append(simple[c])
                return k + 1
            if c in _OCT:
                if not (k + 2 < self.n and text[k + 1] in _OCT and text[k + 2] in _OCT):
                    raise LitError("Go octal escape needs three digits", k)
                v = int(text[k : k + 3], 8)
                if v > 255:
                    raise LitError("Go octal escape above 255", k)
                out.append(v)
                return k + 3
            if c == "x":
                v, j = _hex(text, k + 1, 2, 2, "\\x")
                out.append(v)
                return j
            if c in "uU":
                v, j = _hex(text, k + 1, 4 if c == "u" else 8, 4 if c == "u" else 8, "\\" + c)
                if 0xD800 <= v <= 0xDFFF or v > 0x10FFFF:
                    raise LitError("Go escape \\%s%x is not a valid code point" % (c, v), k)
                out.append(chr(v))
                return j
            raise LitError("unknown Go escape \\%s" % c, k)
        if lang == "java":
            if c in simple:
                out.append(simple[c])
                return k + 1
            if c in _OCT:
                j = k + 1
                limit = 3 if c in "0123" else 2
                while j < self.n and j - k < limit and text[j] in _OCT:
                    j += 1
                out.append(chr(int(text[k:j], 8)))
                return j
            raise LitError("illegal Java escape \\%s" % c, k)
        if lang == "cs":
            if c in simple:
                out.append(simple[c])
                return k + 1
            if c == "x":
                v, j = _hex(text, k + 1, 1, 4, "\\x")
                out.append(chr(v))
                return j
            if c in "uU":
                v, j = _hex(text, k + 1, 4 if c == "u" else 8, 4 if c == "u" else 8, "\\" + c)
                if v > 0x10FFFF:
                    raise LitError("C# escape above U+10FFFF", k)
                out.append(chr(v))
                return j
            raise LitError("unrecognized C# escape \\%s" % c, k)
        if lang == "cpp":
            if c in simple:
                out.append(simple[c])
                return k + 1
            if c in _OCT:
                j = k + 1
                while j < self.n and j - k < 3 and text[j] in _OCT:
                    j += 1
                out.append(chr(int(text[k:j], 8)))
                return j
            if c == "x":
                v, j = _hex(text, k + 1, 1, 1 << 30, "\\x")
                if v > 0x10FFFF:
                    raise LitError("C++ hexadecimal escape out of range", k)
                out.append(chr(v))
                return j
            if c in "uU":
                v, j = _hex(text, k + 1, 4 if c == "u" else 8, 4 if c == "u" else 8, "\\" + c)
                if v > 0x10FFFF or 0xD800 <= v <= 0xDFFF:
                    raise LitError("C++ universal character name is not a code point", k)
                out.append(chr(v))
                return j
            if c in self.nls:
                return k + 1  # a spliced line
            raise LitError("unknown C++ escape \\%s" % c, k)
        # ts
        if c in simple:
            out.append(simple[c])
            return k + 1
        if c == "x":
            v, j = _hex(text, k + 1, 2, 2, "\\x")
            out.append(chr(v))
            return j
        if c == "u":
            if text[k + 1 : k + 2] == "{":
                v, j = _hex(text, k + 2, 1, 1 << 30, "\\u{")
                if text[j : j + 1] != "}" or v > 0x10FFFF:
                    raise LitError("malformed \\u{...}", k)
                out.append(chr(v))
                return j + 1
            v, j = _hex(text, k + 1, 4, 4, "\\u")
            out.append(chr(v))
            return j
        if c == "0" and text[k + 1 : k + 2] not in tuple("0123456789"):
            out.append("\0")
            return k + 1
        if c in "0123456789":
            raise LitError("octal escape in a TypeScript literal", k)
        if c in self.nls:
            if c == "\r" and text[k + 1 : k + 2] == "\n":
                return k + 2
            return k + 1
        out.append(c)
        return k + 1

    @staticmethod
    def _join(out: List[Any], pos: int) -> str:
        if all(isinstance(x, str) for x in out):
            return combine_surrogates("".join(out))
        raw = bytearray()
        for x in out:
            raw += bytes([x]) if isinstance(x, int) else x.encode("utf-8", "surrogatepass")
        try:
            return raw.decode("utf-8")
        except UnicodeDecodeError:
            raise LitError("the bytes of the Go literal are not UTF-8", pos)

    # ------------------------------------------------------------------ literals

    def _quoted(self, i: int, quote: str) -> Tuple[str, int]:
        """An escaped literal opened by ``quote`` at ``i``: (value, position after it)."""
        text = self.text
        k = i + 1
        out: List[Any] = []
        while True:
            if k >= self.n:
                raise LitError("literal not closed at the end of the file", i)
            c = text[k]
            if c == "\\":
                k = self._escape(k + 1, quote, out)
            elif c == quote:
                return self._join(out, i), k + 1
            elif c in self.nls:
                raise LitError("literal broken by the line terminator U+%04X" % ord(c), i)
            else:
                out.append(c)
                k += 1

    def _template(self, i: int) -> Tuple[List[Part], int]:
        """A TypeScript template literal whose backtick is at ``i``."""
        text = self.text
        k = i + 1
        parts: List[Part] = []
        out: List[Any] = []
        while True:
            if k >= self.n:
                raise LitError("template literal not closed at the end of the file", i)
            c = text[k]
            if c == "\\":
                k = self._escape(k + 1, "`", out)
            elif c == "`":
                parts.append(["t", self._join(out, i)])
                return parts, k + 1
            elif c == "$" and text[k + 1 : k + 2] == "{":
                parts.append(["t", self._join(out, i)])
                out = []
                end = self.balanced(k + 2, "}")
                parts.append(["v", text[k + 2 : end].strip()])
                k = end + 1
            elif c == "\r":
                out.append("\n")
                k += 2 if text[k + 1 : k + 2] == "\n" else 1
            else:
                out.append(c)
                k += 1

    def _interpolated(self, i: int, verbatim: bool) -> Tuple[List[Part], int]:
        """A C# interpolated string; ``i`` is at the opening double quote."""
        text = self.text
        k = i + 1
        parts: List[Part] = []
        out: List[Any] = []
        while True:
            if k >= self.n:
                raise LitError("interpolated string not closed at the end of the file", i)
            c = text[k]
            if c == "\\" and not verbatim:
                k = self._escape(k + 1, '"', out)
            elif c == '"':
                if verbatim and text[k + 1 : k + 2] == '"':
                    out.append('"')
                    k += 2
                    continue
                parts.append(["t", self._join(out, i)])
                return parts, k + 1
            elif c == "{":
                if text[k + 1 : k + 2] == "{":
                    out.append("{")
                    k += 2
                    continue
                parts.append(["t", self._join(out, i)])
                out = []
                end = self.balanced(k + 1, "}")
                hole = text[k + 1 : end].strip()
                if hole == "":
                    raise LitError("empty interpolation hole", k)
                parts.append(["v", hole])
                k = end + 1
            elif c == "}":
                if text[k + 1 : k + 2] == "}":
                    out.append("}")
                    k += 2
                    continue
                raise LitError("a single } in an interpolated string", k)
            elif c in self.nls and not verbatim:
                raise LitError("literal broken by the line terminator U+%04X" % ord(c), i)
            else:
                out.append(c)
                k += 1

    _CPP_PREFIX_RE = re.compile(r'(?:u8|u|U|L)?(R)?(["\'])')

    def literal(self, i: int) -> Optional[Tuple[str, Any, int]]:
        """The literal starting at ``i``, if any: ``(kind, value, end)``, kind in ``str char parts``."""
        text, lang = self.text, self.lang
        c = text[i]
        if lang == "cpp":
            if c in "uUL\"'" and not (i > 0 and (text[i - 1].isalnum() or text[i - 1] == "_")):
                m = self._CPP_PREFIX_RE.match(text, i)
                if m is not None:
                    q = m.end() - 1
                    if m.group(1):
                        m2 = re.compile(r'"([^()\\ \t\n\r]{0,16})\(').match(text, q)
                        if m2 is None:
                            raise LitError("malformed raw string", i)
                        closing = ")" + m2.group(1) + '"'
                        end = text.find(closing, m2.end())
                        if end < 0:
                            raise LitError("raw string not closed", i)
                        return "str", text[m2.end() : end], end + len(closing)
                    value, end = self._quoted(q, m.group(2))
                    return ("str" if m.group(2) == '"' else "char"), value, end
            if c == "'" and i > 0 and text[i - 1].isalnum():
                return None  # a digit separator
            return None
        if lang == "cs":
            m = re.compile(r'(\$@|@\$|\$|@)?"').match(text, i)
            if m is not None and (c == '"' or not (i > 0 and (text[i - 1].isalnum() or text[i - 1] == "_"))):
                prefix = m.group(1) or ""
                q = m.end() - 1
                if prefix == "" and text[q : q + 3] == '"""':
                    end = text.find('"""', q + 3)
                    if end < 0:
                        raise LitError("raw string not closed", i)
                    return "str", text[q + 3 : end], end + 3
                if "$" in prefix:
                    parts, end = self._interpolated(q, "@" in prefix)
                    return "parts", parts, end
                if "@" in prefix:
                    k = q + 1
                    out: List[str] = []
                    while True:
                        j = text.find('"', k)
                        if j < 0:
                            raise LitError("verbatim string not closed", i)
                        out.append(text[k:j])
                        if text[j + 1 : j + 2] == '"':
                            out.append('"')
                            k = j + 2
                            continue
                        return "str", "".join(out), j + 1
                value, end = self._quoted(q, '"')
                return "str", value, end
            if c == "'":
                value, end = self._quoted(i, "'")
                return "char", value, end
            return None
        if c == '"':
            if lang == "java" and text[i : i + 3] == '"""':
                end = i + 3
                while True:
                    if end >= self.n:
                        raise LitError("text block not closed", i)
                    if text[end] == "\\":
                        end += 2
                    elif text[end : end + 3] == '"""':
                        break
                    else:
                        end += 1
                return "str", text[i + 3 : end], end + 3
            value, end = self._quoted(i, '"')
            return "str", value, end
        if c == "'":
            value, end = self._quoted(i, "'")
            return ("str" if lang == "ts" else "char"), value, end
        if c == "`":
            if lang == "go":
                end = text.find("`", i + 1)
                if end < 0:
                    raise LitError("raw string not closed", i)
                return "str", text[i + 1 : end].replace("\r", ""), end + 1
            if lang == "ts":
                parts, end = self._template(i)
                return "parts", parts, end
        return None

    # ------------------------------------------------------------------ code

    def skip(self, i: int, newlines: bool = True) -> int:
        """Skip blanks (line terminators too if ``newlines``) and comments."""
        text = self.text
        while i < self.n:
            c = text[i]
            if c in " \t\f\v" or (newlines and c in self.nls):
                i += 1
            elif text.startswith("//", i):
                while i < self.n and text[i] not in self.nls:
                    i += 1
            elif text.startswith("/*", i):
                end = text.find("*/", i + 2)
                if end < 0:
                    raise LitError("block comment not closed", i)
                i = end + 2
            else:
                break
        return i

    def _regex_literal_end(self, i: int) -> Optional[int]:
        """TypeScript: the end of the regular expression literal at ``i`` if a ``/`` starts one here."""
        text = self.text
        k = i - 1
        while k >= 0 and text[k] in " \t\n\r":
            k -= 1
        prev = text[k] if k >= 0 else ""
        end = k + 1
        while k >= 0 and (text[k].isalnum() or text[k] in "_$"):
            k -= 1
        word = text[k + 1 : end]
        if not (prev == "" or prev in "(,=:[!&|?{};+-*%<>~^" or word in c20_files._TS_REGEX_KEYWORDS):
            return None
        k = i + 1
        in_class = False
        while k < self.n and text[k] not in self.nls:
            ch = text[k]
            if ch == "\\":
                k += 2
                continue
            if ch == "[":
                in_class = True
            elif ch == "]":
                in_class = False
            elif ch == "/" and not in_class:
                return k + 1
            k += 1
        raise LitError("regular expression literal not closed", i)

    def step(self, i: int) -> Tuple[Optional[Tuple[str, Any, int]], int]:
        """One lexical step at ``i`` (not a blank): ``(literal or None, next position)``."""
        text = self.text
        if text.startswith("//", i) or text.startswith("/*", i):
            return None, self.skip(i)
        found = self.literal(i)
        if found is not None:
            return found, found[2]
        if self.lang == "ts" and text[i] == "/":
            end = self._regex_literal_end(i)
            if end is not None:
                return None, end
        if text[i].isalnum() or text[i] == "_":
            k = i
            while k < self.n and (text[k].isalnum() or text[k] == "_"):
                k += 1
            return None, k
        return None, i + 1

    def balanced(self, i: int, closer: str) -> int:
        """The position of the ``closer`` that ends the bracketed region whose content starts at ``i``."""
        text = self.text
        stack = [closer]
        k = i
        while k < self.n:
            c = text[k]
            if c in "([{":
                stack.append({"(": ")", "[": "]", "{": "}"}[c])
                k += 1
            elif c in ")]}":
                if c != stack[-1]:
                    raise LitError("%r where %r is expected" % (c, stack[-1]), k)
                stack.pop()
                if not stack:
                    return k
                k += 1
            elif c in " \t" or c in self.nls:
                k += 1
            else:
                _, k = self.step(k)
        raise LitError("%r never closed" % closer, i)

    def operand(self, i: int, stop_at_newline: bool = False) -> Tuple[str, Any, int]:
        """An operand at ``i``: ``("str", value, end)``, ``("parts", parts, end)`` or ``("code", source, end)``.

        A code operand runs up to the first ``+ , ; ) ] }`` outside brackets (or a line end if ``stop_at_newline``).
        """
        text = self.text
        found = self.literal(i)
        if found is not None and found[0] != "char":
            kind, value, end = found
            if self.lang == "cpp" and kind == "str":
                # adjacent literals are concatenated
                while True:
                    j = self.skip(end)
                    nxt = self.literal(j) if j < self.n else None
                    if nxt is None or nxt[0] != "str":
                        break
                    value += nxt[1]
                    end = nxt[2]
            return kind, value, end
        k = i
        while k < self.n:
            c = text[k]
            if c in "+,;)]}":
                break
            if stop_at_newline and c in self.nls:
                break
            if c in "([{":
                k = self.balanced(k + 1, {"(": ")", "[": "]", "{": "}"}[c]) + 1
            elif c in " \t" or c in self.nls:
                k += 1
            else:
                _, k = self.step(k)
        src = text[i:k].strip()
        if src == "":
            raise LitError("an operand is missing", i)
        return "code", src, k

    def arguments(self, i: int) -> Tuple[List[Tuple[str, Any]], int]:
        """The arguments of a call whose ``(`` is at ``i - 1``: (operands, position after the ``)``)."""
        args: List[Tuple[str, Any]] = []
        k = self.skip(i)
        while True:
            if k >= self.n:
                raise LitError("call not closed", i)
            if self.text[k] == ")":
                return args, k + 1
            kind, value, k = self.expression(k)
            args.append((kind, value))
            k = self.skip(k)
            if self.text[k : k + 1] == ",":
                k = self.skip(k + 1)
                if self.text[k : k + 1] == "," :
                    raise LitError("two commas in a row in an argument list", k)
                if self.text[k : k + 1] == ")" and self.lang not in ("go", "ts", "cs"):
                    raise LitError("a trailing comma in an argument list", k)
            elif self.text[k : k + 1] != ")":
                raise LitError("%r in an argument list" % self.text[k : k + 1], k)

    _CALL_RE = {
        "go": re.compile(r"(aascommon\.Concat|fmt\.Sprintf)\s*\("),
        "cpp": re.compile(r"(common::Concat)\s*\("),
    }

    def _primary(self, i: int, stop_at_newline: bool) -> Tuple[str, Any, int]:
        """One operand of a concatenation: a known call (its arguments are joined), a literal or other code."""
        call_re = self._CALL_RE.get(self.lang)
        m = call_re.match(self.text, i) if call_re is not None else None
        if m is not None:
            args, end = self.arguments(m.end())
            if m.group(1).endswith("Sprintf"):
                return "parts", self._sprintf(args, i), end
            parts: List[Part] = []
            for kind, value in args:
                if kind == "code":
                    parts.append(["v", value])
                else:
                    parts.extend(value)
            return "parts", parts, end
        kind, value, end = self.operand(i, stop_at_newline)
        if kind == "str":
            return "parts", [["t", value]], end
        return kind, value, end

    def expression(self, i: int, stop_at_newline: bool = False) -> Tuple[str, Any, int]:
        """A string-valued expression at ``i``: ``("parts", parts, end)`` or, without any literal, ``("code", source, end)``."""
        start = i
        parts: List[Part] = []
        only_code = True
        while True:
            kind, value, end = self._primary(i, stop_at_newline)
            if kind == "code":
                parts.append(["v", value])
            else:
                only_code = False
                parts.extend(value)
            k = self.skip(end, newlines=not stop_at_newline)
            if self.text[k : k + 1] == "+" and self.text[k : k + 2] not in ("++", "+="):
                i = self.skip(k + 1)
                continue
            break
        if only_code:
            return "code", self.text[start:end].strip(), end
        return "parts", parts, end

    @staticmethod
    def _sprintf(args: List[Tuple[str, Any]], pos: int) -> List[Part]:
        if not args or args[0][0] != "parts" or any(p[0] != "t" for p in args[0][1]):
            raise LitError("the format of fmt.Sprintf is not a string literal", pos)
        fmt = "".join(p[1] for p in args[0][1])
        rest = [a for a in args[1:]]
        parts: List[Part] = []
        out: List[str] = []
        k = 0
        verb_re = re.compile(r"%[-+# 0]*(?:\d+|\*)?(?:\.(?:\d+|\*)?)?([vTtbcdoOqxXUeEfFgGsp%])")
        while k < len(fmt):
            c = fmt[k]
            if c != "%":
                out.append(c)
                k += 1
                continue
            m = verb_re.match(fmt, k)
            if m is None:
                raise LitError("fmt.Sprintf: %%!(NOVERB) -- a lone %% in the format %r" % fmt, pos)
            if m.group(0) == "%%":
                out.append("%")
            elif m.group(1) == "%":
                raise LitError("fmt.Sprintf: flags before %%%% in the format %r" % fmt, pos)
            else:
                if not rest:
                    raise LitError("fmt.Sprintf: %%!%s(MISSING) -- more verbs than arguments" % m.group(1), pos)
                kind, value = rest.pop(0)
                parts.append(["t", "".join(out)])
                out = []
                parts.append(["v", value if kind == "code" else json.dumps(value)])
            k = m.end()
        if rest:
            raise LitError("fmt.Sprintf: %!(EXTRA ...) -- more arguments than verbs", pos)
        parts.append(["t", "".join(out)])
        return parts

    # ------------------------------------------------------------------ whole file

    _STARTS = {
        "cs": re.compile(r'\$@?"|@\$"'),
        "go": re.compile(r"fmt\.Sprintf\s*\(|aascommon\.Concat\s*\("),
        "cpp": re.compile(r"common::Concat\s*\("),
    }

    def survey(self) -> Tuple[List[List[Part]], List[str], List[Tuple[str, int]]]:
        """All joined expressions and plain string literals of the file, and the places which could not be scanned."""
        text, lang = self.text, self.lang
        joined: List[List[Part]] = []
        plain: List[str] = []
        troubles: List[Tuple[str, int]] = []
        starts = self._STARTS.get(lang)
        i = 0
        prev_plus = False  # the previous significant token is a ``+`` (Java: the literal continues a concatenation)
        while i < self.n:
            c = text[i]
            if c in " \t\f\v" or c in self.nls:
                i += 1
                continue
            try:
                if text.startswith("//", i) or text.startswith("/*", i):
                    i = self.skip(i)
                    continue
                if lang == "cs" and c == "#" and text[:i].rstrip(" \t").endswith(tuple(self.nls) + ("",)):
                    while i < self.n and text[i] not in self.nls:
                        i += 1
                    continue
                if lang == "cpp" and c == "#":
                    m = c20_files._CPP_DIRECTIVE_RE.match(text, i)
                    if m is not None:
                        while i < self.n and text[i] not in self.nls:
                            i += 1
                        continue
                if starts is not None:
                    m = starts.match(text, i)
                    if m is not None and not (i > 0 and (text[i - 1].isalnum() or text[i - 1] in "_.")):
                        kind, value, end = self.expression(i)
                        if kind == "parts":
                            joined.append(value)
                        i = end
                        prev_plus = False
                        continue
                found = self.literal(i)
                if found is not None:
                    kind, value, end = found
                    if kind == "parts":
                        joined.append(value)
                    elif kind == "str":
                        k2, v2, e2 = self.expression(i)
                        if k2 == "parts" and (len(v2) > 1 or prev_plus):
                            # the literal continues a concatenation whose first operands are code
                            joined.append(([["v", ""]] if prev_plus else []) + v2)
                            plain.extend(p[1] for p in v2 if p[0] == "t")
                            i = e2
                            prev_plus = False
                            continue
                        plain.append(value)
                    i = end
                    prev_plus = False
                    continue
                _, nxt = self.step(i)
                prev_plus = c == "+"
                i = nxt
            except LitError as err:
                troubles.append((str(err), err.pos))
                # resume at the next line
                k = max(i, err.pos) + 1
                while k < self.n and text[k] not in self.nls:
                    k += 1
                i = k
                prev_plus = False
        return joined, plain, troubles

    def line_of(self, pos: int) -> int:
        return self.text.count("\n", 0, max(0, min(pos, self.n))) + 1

    def excerpt(self, pos: int) -> str:
        start = self.text.rfind("\n", 0, max(0, min(pos, self.n))) + 1
        end = self.text.find("\n", start)
        return self.text[start : end if end >= 0 else self.n][:200]


# ---------------------------------------------------------------------------------------
# Normal forms
# ---------------------------------------------------------------------------------------


def norm_parts(parts: Iterable[Sequence[str]], values: bool = False) -> Tuple[Tuple[str, ...], ...]:
    """Merge adjacent texts, drop empty ones, forget the source of the values (unless ``values``)."""
    out: List[List[str]] = []
    for p in parts:
        if p[0] == "t":
            if p[1] == "":
                continue
            if out and out[-1][0] == "t":
                out[-1][1] += p[1]
            else:
                out.append(["t", p[1]])
        elif values:
            out.append(["v", p[1]])
        elif not (out and out[-1][0] == "v"):
            out.append(["v", ""])  # a run of values counts as one value
    return tuple(tuple(p) for p in out)


def canon_regex(s: str) -> Tuple[Any, ...]:
    """A pattern up to the spelling of numeric escapes and of the control characters (``\\x41 \\u0041 \\x{41} \\u{41} A``)."""
    out: List[Any] = []
    i, n = 0, len(s)
    s = combine_surrogates(s)
    while i < n:
        c = s[i]
        if c != "\\" or i + 1 >= n:
            out.append(ord(c))
            i += 1
            continue
        d = s[i + 1]
        if d in "xu" and s[i + 2 : i + 3] == "{":
            j = s.find("}", i + 3)
            digits = s[i + 3 : j] if j > 0 else ""
            if digits and all(ch in _HEX for ch in digits):
                out.append(int(digits, 16))
                i = j + 1
                continue
        width = {"x": 2, "u": 4, "U": 8}.get(d)
        if width is not None:
            digits = s[i + 2 : i + 2 + width]
            if len(digits) == width and all(ch in _HEX for ch in digits):
                out.append(int(digits, 16))
                i += 2 + width
                continue
        if d in "tnrfv":
            out.append(ord({"t": "\t", "n": "\n", "r": "\r", "f": "\f", "v": "\v"}[d]))
            i += 2
            continue
        out.append("\\" + d)
        i += 2
    # surrogate pairs written as two escapes
    res: List[Any] = []
    for x in out:
        if isinstance(x, int) and 0xDC00 <= x <= 0xDFFF and res and isinstance(res[-1], int) and 0xD800 <= res[-1] <= 0xDBFF:
            res[-1] = 0x10000 + ((res[-1] - 0xD800) << 10) + (x - 0xDC00)
        else:
            res.append(x)
    return tuple(res)


# ---------------------------------------------------------------------------------------
# Locating and evaluating the pattern functions
# ---------------------------------------------------------------------------------------

_LANG_OF = {"typescript": "ts", "java": "java", "csharp": "cs", "golang": "go", "cpp": "cpp"}

_VERIFICATION_FILE = {
    "python": lambda out: sorted(out.glob("*/verification.py")),
    "typescript": lambda out: [out / "src/verification.ts"],
    "java": lambda out: sorted(out.glob("src/main/java/**/Verification.java")),
    "csharp": lambda out: sorted(p for p in out.glob("*/verification.cs") if not p.parent.name.endswith(".Tests")),
    "golang": lambda out: [out / "verification/verification.go"],
    "cpp": lambda out: [out / "src/verification.cpp"],
}


def verification_file(target: str, out: pathlib.Path) -> Optional[pathlib.Path]:
    found = [p for p in _VERIFICATION_FILE[target](out) if p.is_file()]
    return found[0] if found else None


def _function_re(name: str) -> "re.Pattern[str]":
    squashed = "".join("_?" + re.escape(ch) for ch in "constructmatches" + name.replace("_", ""))
    return re.compile(r"(?i)(?<![A-Za-z0-9_])" + squashed + r"\s*\(\s*\)")


def function_text(sc: Scanner, name: str) -> Tuple[Optional[str], Optional[int], Optional[str]]:
    """The definition of the constructing function: (text from its name to the closing brace, body start, trouble)."""
    for m in _function_re(name).finditer(sc.text):
        k = m.end()
        # a definition: the next significant character after the optional return type is ``{``
        j = k
        while j < sc.n and sc.text[j] not in "{;=,)\n":
            j += 1
        if sc.lang == "cs":  # the brace is on the next line
            while j < sc.n and sc.text[j] in " \t\r\n":
                j += 1
        if j >= sc.n or sc.text[j] != "{":
            continue
        try:
            end = sc.balanced(j + 1, "}")
            return sc.text[m.start() : end + 1], j + 1, None
        except LitError as err:
            # fall back to the layout: the closing brace at the indentation of the definition
            line_start = sc.text.rfind("\n", 0, m.start()) + 1
            indent = re.match(r"[ \t]*", sc.text[line_start:]).group(0)  # type: ignore
            close = sc.text.find("\n" + indent + "}", j)
            text = sc.text[m.start() : close + len(indent) + 2] if close >= 0 else sc.text[m.start() :]
            return text, j + 1, "line %d: %s: %r" % (sc.line_of(err.pos), err, sc.excerpt(err.pos))
    return None, None, None


_ASSIGN_RE = re.compile(r"(?:(?:var|const|let|String)\s+)?([A-Za-z_][A-Za-z0-9_]*)\s*(?::=|=)(?!=)\s*")
_RETURN_RE = re.compile(r"return\s+(?:new\s+)?[A-Za-z_][A-Za-z0-9_.]*\s*\(")


def interpret(sc: Scanner, start: int) -> str:
    """Evaluate the body of a constructing function (assignments, then ``return <compile>(<pattern>, ...)``)."""
    env: Dict[str, str] = {}

    def value_of(kind: str, value: Any, pos: int) -> str:
        if kind == "code":
            if value not in env:
                raise LitError("the operand %r is neither a literal nor an assigned variable" % value[:60], pos)
            return env[value]
        out: List[str] = []
        for p in value:
            if p[0] == "t":
                out.append(p[1])
            elif p[1] in env:
                out.append(env[p[1]])
            else:
                raise LitError("the formatted value %r is not an assigned variable" % p[1][:60], pos)
        return "".join(out)

    i = start
    go = sc.lang == "go"
    for _ in range(1000):
        i = sc.skip(i)
        m = _RETURN_RE.match(sc.text, i)
        if m is not None:
            args, _ = sc.arguments(m.end())
            if not args:
                raise LitError("nothing is compiled", i)
            return value_of(args[0][0], args[0][1], i)
        m = _ASSIGN_RE.match(sc.text, i)
        if m is None:
            raise LitError("statement not understood: %r" % sc.excerpt(i), i)
        kind, value, end = sc.expression(m.end(), stop_at_newline=go)
        env[m.group(1)] = value_of(kind, value, i)
        i = sc.skip(end, newlines=False)
        if sc.text[i : i + 1] == ";":
            i += 1
        elif not go:
            raise LitError("%r after the expression of an assignment" % sc.text[i : i + 1], i)
    raise LitError("too many statements", i)


NODE_SCRIPT = r"""
const vm = require('vm'); const fs = require('fs');
const items = JSON.parse(fs.readFileSync(process.argv[2], 'utf8'));
class Captured { constructor(p, f) { this.p = p; this.f = f; } }
const res = {};
for (const [idx, src, call] of items) {
  try {
    const f = new vm.Script('(function (RegExp) {\n' + src + '\nreturn ' + call + ';\n})').runInThisContext();
    const r = f(Captured);
    res[idx] = (r instanceof Captured && typeof r.p === 'string')
      ? {ok: Array.from(r.p, (c) => c.codePointAt(0))} : {err: 'the function does not return new RegExp(<string>, ...)'};
  } catch (e) { res[idx] = {err: String(e && e.name) + ': ' + String(e && e.message)}; }
}
process.stdout.write(JSON.stringify(res));
"""


def run_node(work: pathlib.Path, items: Sequence[Tuple[int, str, str]]) -> Dict[int, Dict[str, Any]]:
    work.mkdir(parents=True, exist_ok=True)
    (work / "eval.js").write_text(NODE_SCRIPT)
    (work / "items.json").write_text(json.dumps([[i, s, c] for i, s, c in items]), encoding="utf-8")
    r = subprocess.run(["node", str(work / "eval.js"), str(work / "items.json")], capture_output=True, text=True, timeout=600)
    if r.returncode != 0:
        raise RuntimeError("node failed: " + r.stderr[:400])
    return {int(k): v for k, v in json.loads(r.stdout).items()}


_JAVA_CLASS = """public class T%d {
  static final class Pattern {
    final String p;
    Pattern(String p) { this.p = p; }
    static Pattern compile(String p) { return new Pattern(p); }
  }
  private static Pattern %s
  public static String get() { return %s.p; }
}
"""

_JAVA_DRIVER = r'''import com.sun.source.util.JavacTask;
import java.io.File;
import java.lang.reflect.Method;
import java.net.URL;
import java.net.URLClassLoader;
import java.nio.charset.StandardCharsets;
import java.nio.file.Files;
import java.nio.file.Path;
import java.nio.file.Paths;
import java.util.ArrayList;
import java.util.Arrays;
import java.util.HashSet;
import java.util.List;
import java.util.Locale;
import java.util.Set;
import javax.tools.Diagnostic;
import javax.tools.DiagnosticCollector;
import javax.tools.JavaCompiler;
import javax.tools.JavaFileObject;
import javax.tools.StandardJavaFileManager;
import javax.tools.ToolProvider;

/** One JVM: parse the files of parse.txt, compile the files of eval.txt, call T<i>.get() of the compiled ones. */
public class Driver {
  static String clean(String s) {
    return s == null ? "" : s.replace('\t', ' ').replace('\r', ' ').replace('\n', ' ');
  }

  static List<Path> read(Path p) throws Exception {
    List<Path> r = new ArrayList<>();
    if (!Files.exists(p)) return r;
    for (String line : Files.readAllLines(p, StandardCharsets.UTF_8)) {
      if (!line.isEmpty()) r.add(Paths.get(line));
    }
    return r;
  }

  static Set<String> report(String tag, DiagnosticCollector<JavaFileObject> diags, StringBuilder out) {
    Set<String> bad = new HashSet<>();
    for (Diagnostic<? extends JavaFileObject> d : diags.getDiagnostics()) {
      if (d.getKind() != Diagnostic.Kind.ERROR) continue;
      String path = d.getSource() == null ? "" : new File(d.getSource().toUri()).getPath();
      if (bad.add(path)) {
        out.append(tag).append('\t').append(path).append('\t').append(d.getLineNumber()).append('\t')
            .append(clean(d.getMessage(Locale.ENGLISH))).append('\n');
      }
    }
    return bad;
  }

  public static void main(String[] args) throws Exception {
    Path work = Paths.get(args[0]);
    StringBuilder out = new StringBuilder();
    JavaCompiler compiler = ToolProvider.getSystemJavaCompiler();
    List<String> options = Arrays.asList("-proc:none", "-Xlint:none", "-nowarn", "-Xmaxerrs", "100000");

    List<Path> toParse = read(work.resolve("parse.txt"));
    if (!toParse.isEmpty()) {
      DiagnosticCollector<JavaFileObject> diags = new DiagnosticCollector<>();
      StandardJavaFileManager fm = compiler.getStandardFileManager(diags, Locale.ENGLISH, StandardCharsets.UTF_8);
      JavacTask task = (JavacTask) compiler.getTask(null, fm, diags, options, null, fm.getJavaFileObjectsFromPaths(toParse));
      task.parse();
      report("P", diags, out);
      out.append("PARSED\t").append(toParse.size()).append('\n');
    }

    List<Path> toEval = read(work.resolve("eval.txt"));
    Path cls = work.resolve("cls");
    Files.createDirectories(cls);
    boolean compiled = toEval.isEmpty();
    for (int attempt = 0; attempt < 2 && !toEval.isEmpty(); attempt++) {
      DiagnosticCollector<JavaFileObject> diags = new DiagnosticCollector<>();
      StandardJavaFileManager fm = compiler.getStandardFileManager(diags, Locale.ENGLISH, StandardCharsets.UTF_8);
      List<String> opts = new ArrayList<>(options);
      opts.add("-d");
      opts.add(cls.toString());
      boolean ok = compiler.getTask(null, fm, diags, opts, null, fm.getJavaFileObjectsFromPaths(toEval)).call();
      if (ok) { compiled = true; break; }
      Set<String> bad = report("E", diags, out);
      if (bad.isEmpty()) { out.append("TROUBLE\tjavac failed without a located error\n"); break; }
      List<Path> rest = new ArrayList<>();
      for (Path p : toEval) if (!bad.contains(p.toFile().getPath())) rest.add(p);
      toEval = rest;
      if (toEval.isEmpty()) compiled = true;
    }
    if (compiled && !toEval.isEmpty()) {
      try (URLClassLoader loader = new URLClassLoader(new URL[] {cls.toUri().toURL()})) {
        for (Path p : toEval) {
          String name = p.getFileName().toString().replace(".java", "");
          out.append("V\t").append(name);
          try {
            Method m = Class.forName(name, true, loader).getMethod("get");
            String s = (String) m.invoke(null);
            for (int i = 0; i < s.length(); i++) out.append(i == 0 ? '\t' : ' ').append(Integer.toHexString(s.charAt(i)));
            if (s.isEmpty()) out.append('\t');
          } catch (Throwable t) {
            out.append("\t!").append(clean(String.valueOf(t.getCause() == null ? t : t.getCause())));
          }
          out.append('\n');
        }
      }
    }
    out.append("DONE\n");
    Files.write(work.resolve("result.txt"), out.toString().getBytes(StandardCharsets.UTF_8));
  }
}
'''


class JavaDriver:
    """One JVM per model (starting a JVM is the expensive part here): parse the generated tree (as ``javac`` does before anything
    else), compile one class per constructing function and call it.  Runs in a worker thread."""

    def __init__(self, work: pathlib.Path, parse_paths: Sequence[pathlib.Path], items: Sequence[Tuple[int, str, str]]) -> None:
        self.work = work
        self.parse_paths = list(parse_paths)
        self.items = list(items)
        self.parse_errors: Dict[str, Tuple[int, str]] = {}
        self.values: Dict[int, Dict[str, Any]] = {}
        self.trouble: Optional[str] = None
        self.seconds = 0.0
        self._thread = threading.Thread(target=self._run, daemon=True)
        self._thread.start()

    @staticmethod
    def compiled() -> pathlib.Path:
        """The directory with ``Driver.class`` (an accelerator cache under TMPDIR, rebuilt when missing)."""
        import hashlib

        digest = hashlib.sha1(_JAVA_DRIVER.encode("utf-8")).hexdigest()[:16]
        d = pathlib.Path(os.environ.get("TMPDIR", "/tmp")) / ("aasverif-c20-javadriver-" + digest)
        if not (d / "Driver.class").is_file():
            tmp = pathlib.Path(str(d) + ".%d" % os.getpid())
            tmp.mkdir(parents=True, exist_ok=True)
            (tmp / "Driver.java").write_text(_JAVA_DRIVER, encoding="utf-8")
            r = subprocess.run(["javac", "-proc:none", "-d", str(tmp), str(tmp / "Driver.java")], capture_output=True, text=True, timeout=900)
            if r.returncode != 0:
                raise RuntimeError("the Java driver does not compile: " + r.stderr[:600])
            try:
                tmp.rename(d)
            except OSError:
                shutil.rmtree(tmp, ignore_errors=True)  # somebody else was faster
        return d

    def _run(self) -> None:
        started = time.time()
        try:
            if self.work.exists():
                shutil.rmtree(self.work)
            self.work.mkdir(parents=True)
            (self.work / "parse.txt").write_text("".join(str(p) + "\n" for p in self.parse_paths), encoding="utf-8")
            paths = []
            for idx, src, call in self.items:
                p = self.work / ("T%d.java" % idx)
                p.write_text(_JAVA_CLASS % (idx, src, call), encoding="utf-8")
                paths.append(p)
            (self.work / "eval.txt").write_text("".join(str(p) + "\n" for p in paths), encoding="utf-8")
            r = subprocess.run(
                ["java", "-XX:TieredStopAtLevel=1", "-Duser.language=en", "-cp", str(self.compiled()), "Driver", str(self.work)],
                capture_output=True, text=True, timeout=1200,
            )
            result = self.work / "result.txt"
            if r.returncode != 0 or not result.is_file():
                self.trouble = "the Java driver failed: " + (r.stderr or r.stdout)[:600]
                return
            lines = result.read_text(encoding="utf-8").split("\n")
            if "DONE" not in lines:
                self.trouble = "the Java driver did not finish"
            for line in lines:
                f = line.split("\t")
                if f[0] == "P" and len(f) >= 4:
                    self.parse_errors.setdefault(f[1], (int(f[2]), f[3]))
                elif f[0] == "E" and len(f) >= 4:
                    m = re.search(r"T(\d+)\.java$", f[1])
                    if m is not None:
                        self.values[int(m.group(1))] = {"err": "javac: " + f[3]}
                elif f[0] == "V" and len(f) >= 3:
                    idx = int(f[1][1:])
                    if f[2].startswith("!"):
                        self.values[idx] = {"err": "java: " + f[2][1:]}
                    else:
                        units = [int(x, 16) for x in f[2].split()] if f[2] else []
                        self.values[idx] = {"ok": [ord(c) for c in combine_surrogates("".join(chr(u) for u in units))]}
                elif f[0] == "TROUBLE":
                    self.trouble = f[1] if len(f) > 1 else "trouble"
            for idx, _, _ in self.items:
                if idx not in self.values and self.trouble is None:
                    self.trouble = "the Java driver gave no verdict on T%d" % idx
        except Exception as exc:  # noqa
            self.trouble = "the Java driver crashed: %r" % (exc,)
        finally:
            self.seconds = time.time() - started

    def finish(self) -> None:
        self._thread.join()


class NodeJob:
    """``run_node`` in a worker thread."""

    def __init__(self, work: pathlib.Path, items: Sequence[Tuple[int, str, str]]) -> None:
        self.values: Dict[int, Dict[str, Any]] = {}
        self.trouble: Optional[str] = None
        self._args = (work, list(items))
        self._thread = threading.Thread(target=self._run, daemon=True)
        self._thread.start()

    def _run(self) -> None:
        try:
            self.values = run_node(*self._args)
        except Exception as exc:  # noqa
            self.trouble = "node: %r" % (exc,)

    def finish(self) -> None:
        self._thread.join()


def python_functions(tree: ast.Module) -> Dict[str, ast.FunctionDef]:
    return {node.name: node for node in tree.body if isinstance(node, ast.FunctionDef)}


def python_evaluate(node: ast.FunctionDef, filename: str) -> Dict[str, Any]:
    node.returns = None
    node.decorator_list = []

    class _Re:
        @staticmethod
        def compile(pattern: Any, *args: Any) -> Any:
            return ("captured", pattern)

    namespace: Dict[str, Any] = {"re": _Re}
    try:
        exec(compile(ast.Module(body=[node], type_ignores=[]), filename=filename, mode="exec"), namespace)  # noqa: S102
        got = namespace[node.name]()
    except BaseException as exc:  # noqa
        return {"err": "%s: %s" % (type(exc).__name__, exc)}
    if not (isinstance(got, tuple) and len(got) == 2 and got[0] == "captured" and isinstance(got[1], str)):
        return {"err": "the function does not return re.compile(<str>)"}
    return {"ok": [ord(c) for c in got[1]]}


def python_survey(tree: ast.AST) -> Tuple[List[List[Part]], List[str]]:
    joined: List[List[Part]] = []
    plain: List[str] = []
    inside: set = set()
    for node in ast.walk(tree):
        if isinstance(node, ast.JoinedStr):
            parts: List[Part] = []
            for v in node.values:
                inside.add(id(v))
                if isinstance(v, ast.Constant) and isinstance(v.value, str):
                    parts.append(["t", v.value])
                elif isinstance(v, ast.FormattedValue):
                    src = ast.unparse(v.value)
                    if v.conversion != -1 or v.format_spec is not None:
                        src += "!conversion-or-format"
                    parts.append(["v", src])
            joined.append(parts)
    for node in ast.walk(tree):
        if isinstance(node, ast.Constant) and isinstance(node.value, str) and id(node) not in inside:
            plain.append(node.value)
    return joined, plain


# ---------------------------------------------------------------------------------------
# Go: token adjacency (there is no Go tool-chain here)
# ---------------------------------------------------------------------------------------


def go_adjacency_problems(text: str) -> List[Tuple[int, str]]:
    """Pairs of tokens that no Go production admits: ``, ,`` and ``( ,`` and ``, ;``-like sequences outside literals/comments."""
    sc = Scanner(text, "go")
    problems: List[Tuple[int, str]] = []
    prev = ""
    i = 0
    try:
        while i < sc.n:
            c = text[i]
            if c in " \t\r\n":
                i += 1
                continue
            if text.startswith("//", i) or text.startswith("/*", i):
                i = sc.skip(i)
                continue
            found, nxt = sc.step(i)
            tok = "lit" if found is not None else c
            if tok == "," and prev in (",", "(", "[", "{", ""):
                problems.append((sc.line_of(i), "%r directly after %r: %r" % (tok, prev, sc.excerpt(i))))
            prev = tok
            i = nxt
    except LitError as err:
        problems.append((sc.line_of(err.pos), "%s: %r" % (err, sc.excerpt(err.pos))))
    return problems[:3]


# ---------------------------------------------------------------------------------------
# g++ (in the background)
# ---------------------------------------------------------------------------------------

STUB_DIR = pathlib.Path(__file__).resolve().parent.parent / "c18_data" / "stub"


class Gpp:
    """``g++ -fsyntax-only`` on generated translation units, in worker threads."""

    def __init__(self, jobs: int = 2) -> None:
        self._sem = threading.Semaphore(jobs)
        self._threads: List[threading.Thread] = []
        self.results: List[Tuple[Any, str, Optional[str]]] = []  # (key, file, first error)
        self.trouble: Optional[str] = None
        self.seconds = 0.0

    def submit(self, key: Any, out: pathlib.Path, rel: str) -> None:
        t = threading.Thread(target=self._run, args=(key, out, rel), daemon=True)
        self._threads.append(t)
        t.start()

    def _run(self, key: Any, out: pathlib.Path, rel: str) -> None:
        with self._sem:
            started = time.time()
            try:
                env = dict(os.environ, LC_ALL="C", TMPDIR=str(out))
                r = subprocess.run(
                    ["g++", "-fsyntax-only", "-std=c++17", "-w", "-fmax-errors=3", "-I" + str(STUB_DIR), "-I" + str(out / "include"), str(out / rel)],
                    capture_output=True, text=True, timeout=900, env=env,
                )
                first = None
                if r.returncode != 0:
                    for line in r.stderr.splitlines():
                        if " error: " in line or "fatal error" in line:
                            first = line[-300:]
                            break
                    if first is None:
                        self.trouble = "g++ failed without an error line: " + r.stderr[:300]
                self.results.append((key, rel, first))
            except Exception as exc:  # noqa
                self.trouble = "g++ job crashed: %r" % (exc,)
            self.seconds += time.time() - started

    def finish(self) -> None:
        for t in self._threads:
            t.join()


# ---------------------------------------------------------------------------------------
# Judging one specification
# ---------------------------------------------------------------------------------------


def sub_spec(spec: Dict[str, Any], fn_idx: Sequence[int], inv_idx: Sequence[int]) -> Dict[str, Any]:
    return {"fn": [spec["fn"][i] for i in fn_idx], "inv": [spec["inv"][i] for i in inv_idx]}


def _show(cps: Sequence[int]) -> str:
    return repr("".join(chr(c) for c in cps))


class Outcome:
    """What judging one specification gave."""

    def __init__(self) -> None:
        self.accepted = False
        self.rejected_why = ""
        #: (target, file, sig, what, item) -- item = ("fn", index) / ("inv", index) / None (not attributed)
        self.problems: List[Tuple[str, Optional[str], str, str, Optional[Tuple[str, int]]]] = []
        self.hits: Dict[str, int] = {}
        self.generated: List[str] = []
        self.timing: Dict[str, float] = {}

    def hit(self, key: str, n: int = 1) -> None:
        self.hits[key] = self.hits.get(key, 0) + n


#: the order of generation: the targets judged by slow external tools first, so that these run beside the rest
_ORDER = ["java", "cpp", "typescript", "python", "csharp", "golang"]


def _raising_site(traceback_text: str) -> str:
    """The innermost frame of the project in a traceback, as ``<module path>:<function>``."""
    frames = re.findall(r'File "[^"]*?/aas_core_codegen/([^"]+)\.py", line \d+, in (\w+)', traceback_text)
    return "%s:%s" % (frames[-1][0].replace("/", "."), frames[-1][1]) if frames else "unknown-site"


def _slug(msg: str) -> str:
    msg = re.sub(r"'[^']*'|\"[^\"]*\"|`[^`]*`|\d+", "", msg.lower())
    return re.sub(r"[^a-z]+", "-", msg).strip("-")[:48]


def judge(
    spec: Dict[str, Any], base: pathlib.Path, targets: Sequence[str] = tuple(SDK_TARGETS), compilers: bool = True, gpp: bool = True,
    java_eval: bool = True,
) -> Outcome:
    """Generate ``targets`` for the model of ``spec`` below ``base`` and judge the verification code."""
    from harness import mm

    oc = Outcome()
    t0 = time.time()
    if base.exists():
        shutil.rmtree(base)
    base.mkdir(parents=True)
    text = model_source(spec)
    loaded = mm.load(text)
    oc.timing["load"] = time.time() - t0
    if loaded.crash is not None:
        oc.accepted = True
        oc.problems.append(("front-end", None, "C20:generate-crash:front-end:%s" % str(loaded.crash).split(":", 1)[-1], "the front end crashed: %s" % (loaded.traceback or "")[-600:], None))
        return oc
    if not loaded.ok:
        oc.rejected_why = str(tuple(loaded)[1])[:2000]
        return oc
    oc.accepted = True
    fns = spec.get("fn", [])
    invs = spec.get("inv", [])
    want_pattern = [canon_regex(evaluate(fn["stmts"])) for fn in fns]

    gpp_runner = Gpp() if (gpp and compilers and "cpp" in targets) else None
    java_job: Optional[JavaDriver] = None
    node_job: Optional[NodeJob] = None
    rel_of: Dict[str, str] = {}

    for target in [t for t in _ORDER if t in targets]:
        t1 = time.time()
        out = base / ("out_" + target)
        r = mm.generate(target, text, out, symbol_table=loaded.symbol_table, cache_dir=base / "tmp")
        oc.timing["gen:" + target] = time.time() - t1
        if r.exception is not None:
            oc.problems.append((target, None, "C20:generate-crash:%s:%s:%s" % (target, str(r.exception).split(":", 1)[-1], _raising_site(r.traceback or "")),
                                "generation crashed: %s" % ((r.traceback or "")[-600:]), None))
            continue
        if r.rc != 0:
            oc.hit("target-refused:" + target)
            oc.rejected_why += "\n[%s] %s" % (target, r.stderr[:600])
            continue
        oc.generated.append(target)
        t1 = time.time()
        # region Whole files
        for p in c20_files.check_tree(target, out, base / ("work_" + target), use_compilers=False):
            oc.problems.append((target, p["file"], p["sig"], p["what"], None))
        oc.hit("files-checked", c20_files.count_checked_files(out))
        if target == "cpp" and gpp_runner is not None:
            gpp_runner.submit(0, out, "src/pattern.cpp")
            gpp_runner.submit(0, out, "src/verification.cpp")
        # endregion
        vf = verification_file(target, out)
        if vf is None:
            oc.problems.append((target, None, "C20:joined:%s:no-verification-file" % target, "no verification file was generated", None))
            continue
        rel = rel_of[target] = str(vf.relative_to(out))
        source = vf.read_bytes().decode("utf-8", "replace")
        if target == "golang":
            for line, what in go_adjacency_problems(source):
                oc.problems.append((target, rel, "C20:file:go:token-adjacency", "line %d: %s" % (line, what), None))

        # region Survey of the literals: the invariants (and the plain constants)
        tree: Optional[ast.Module] = None
        sc: Optional[Scanner] = None
        if target == "python":
            try:
                tree = ast.parse(source)
            except (SyntaxError, ValueError):
                # reported by the whole-file judge; find the functions at fault
                for k, fn in enumerate(fns):
                    m = re.search(r"(?m)^def _construct_matches_%s\(.*\n(?:(?:[ \t].*)?\n)*" % re.escape(fn["name"]), source)
                    if m is None:
                        continue
                    try:
                        ast.parse(m.group(0))
                    except (SyntaxError, ValueError) as exc:
                        _compare(oc, target, rel, k, fn, "ast.parse", {"err": "SyntaxError: %s: %r" % (exc, (getattr(exc, "text", "") or "")[:160])}, want_pattern[k])
                continue
            joined, plain = python_survey(tree)
        else:
            text_for_scan = source
            if target == "java":
                text_for_scan, _ = c20_files.java_translate_unicode_escapes(source)
            sc = Scanner(text_for_scan, _LANG_OF[target])
            joined, plain, troubles = sc.survey()
            for msg, pos in troubles[:3]:
                oc.problems.append((target, rel, "C20:joined:%s:literal" % target, "line %d: %s: %r" % (sc.line_of(pos), msg, sc.excerpt(pos)), None))
        have: Dict[Any, int] = {}
        for parts in joined:
            key = norm_parts(parts)
            have[key] = have.get(key, 0) + 1
        for one in plain:
            key = norm_parts([["t", one]])
            have[key] = have.get(key, 0) + 1
        need: Dict[Any, List[int]] = {}
        for k, parts in enumerate(invs):
            need.setdefault(norm_parts(parts), []).append(k)
        for key, owners in need.items():
            if not any(p[0] == "t" for p in key):
                continue  # no text at all
            missing = len(owners) - have.get(key, 0)
            oc.hit("invariant-literal:" + target, len(owners) - max(0, missing))
            for k in owners[: max(0, missing)]:
                oc.problems.append((
                    target, rel, "C20:joined:%s:invariant-literal" % target,
                    "no literal expression of the file denotes the formatted string %s of invariant %d (text parts %r)"
                    % (render_parts(invs[k], "self."), k, [p[1] for p in key if p[0] == "t"]),
                    ("inv", k),
                ))
        # endregion

        # region The pattern functions, by name
        if target == "cpp":
            oc.timing["judge:" + target] = time.time() - t1
            continue  # the patterns are compiled to programs of the virtual machine, there are no literals
        node_items: List[Tuple[int, str, str]] = []
        java_items: List[Tuple[int, str, str]] = []
        for k, fn in enumerate(fns):
            name = fn["name"]
            if tree is not None:
                node = python_functions(tree).get("_construct_matches_" + name)
                if node is None:
                    oc.problems.append((target, rel, "C20:joined:python:function-missing", "_construct_matches_%s is not defined" % name, ("fn", k)))
                    continue
                _compare(oc, target, rel, k, fn, "exec", python_evaluate(node, rel), want_pattern[k])
                continue
            assert sc is not None
            ftext, body_start, trouble = function_text(sc, name)
            if ftext is None:
                oc.problems.append((target, rel, "C20:joined:%s:function-missing" % target, "the constructing function of matches_%s is not defined" % name, ("fn", k)))
                continue
            if trouble is not None:
                scanned: Dict[str, Any] = {"err": trouble}
            else:
                try:
                    scanned = {"ok": [ord(c) for c in interpret(sc, body_start)]}  # type: ignore
                except LitError as err:
                    scanned = {"err": "line %d: %s: %r" % (sc.line_of(err.pos), err, sc.excerpt(err.pos))}
            _compare(oc, target, rel, k, fn, "scanner", scanned, want_pattern[k])
            call = ftext[: ftext.index("(")] + "()"
            if target == "typescript":
                node_items.append((k, "function " + re.sub(r"\)\s*:\s*RegExp\s*\{", ") {", ftext, count=1), call))
            elif target == "java":
                java_items.append((k, ftext, call))
        if compilers and target == "typescript" and node_items:
            node_job = NodeJob(base / "node", node_items)
        if compilers and target == "java":
            java_job = JavaDriver(base / "java_eval", [p for p in sorted(out.rglob("*.java"))], java_items if java_eval else [])
        # endregion
        oc.timing["judge:" + target] = time.time() - t1

    t1 = time.time()
    if node_job is not None:
        node_job.finish()
        if node_job.trouble is not None:
            oc.problems.append(("typescript", None, "C20:harness:node", node_job.trouble, None))
        for k, res in sorted(node_job.values.items()):
            _compare(oc, "typescript", rel_of.get("typescript"), k, fns[k], "node", res, want_pattern[k])
    oc.timing["node wait"] = time.time() - t1
    t1 = time.time()
    if java_job is not None:
        java_job.finish()
        oc.timing["java job"] = java_job.seconds
        if java_job.trouble is not None:
            oc.problems.append(("java", None, "C20:harness:javac", java_job.trouble, None))
        root = base / "out_java"
        for path, (line, msg) in sorted(java_job.parse_errors.items()):
            try:
                rel = str(pathlib.Path(path).relative_to(root))
                content = pathlib.Path(path).read_text(encoding="utf-8", errors="replace").split("\n")
            except (OSError, ValueError):
                rel, content = path, []
            offending = content[line - 1][:160] if 0 < line <= len(content) else ""
            oc.problems.append(("java", rel, "C20:file:java:javac:" + c20_files._slug(msg), "javac: line %d: %s: %r" % (line, msg, offending), None))
        if not java_job.parse_errors and java_job.trouble is None:
            oc.hit("javac:parsed")
        for k, res in sorted(java_job.values.items()):
            _compare(oc, "java", rel_of.get("java"), k, fns[k], "java", res, want_pattern[k])
    oc.timing["java wait"] = time.time() - t1
    t1 = time.time()
    if gpp_runner is not None:
        gpp_runner.finish()
        oc.timing["g++ jobs"] = gpp_runner.seconds
        for _, rel, first in gpp_runner.results:
            if first is not None:
                oc.problems.append(("cpp", rel, "C20:file:cpp:g++", "g++ -fsyntax-only: %s" % re.sub(r"^\S*/out_cpp/", "", first), None))
            else:
                oc.hit("g++:parsed")
        if gpp_runner.trouble is not None:
            oc.problems.append(("cpp", None, "C20:harness:g++", gpp_runner.trouble, None))
    oc.timing["g++ wait"] = time.time() - t1
    oc.timing["all"] = time.time() - t0
    return oc


def _compare(oc: Outcome, target: str, rel: Optional[str], k: int, fn: Dict[str, Any], judge_name: str, res: Dict[str, Any], want: Tuple[Any, ...]) -> None:
    if "err" in res:
        oc.problems.append((
            target, rel, "C20:joined:%s:pattern-syntax:%s" % (target, _slug(re.sub(r"^line \d+: ", "", res["err"]).split(": '")[0])),
            "the function constructing the pattern of matches_%s (pattern %r) is malformed according to %s: %s" % (fn["name"], evaluate(fn["stmts"]), judge_name, res["err"]),
            ("fn", k),
        ))
        return
    got = canon_regex("".join(chr(c) for c in res["ok"]))
    oc.hit("pattern-evaluated:%s:%s" % (target, judge_name))
    if got != want:
        oc.problems.append((
            target, rel, "C20:joined:%s:pattern-value" % target,
            "the literals of the function constructing the pattern of matches_%s denote %s according to %s, but the pattern of the model is %r"
            % (fn["name"], _show(res["ok"]), judge_name, evaluate(fn["stmts"])),
            ("fn", k),
        ))


# ---------------------------------------------------------------------------------------
# run
# ---------------------------------------------------------------------------------------


def _items_of(spec: Dict[str, Any]) -> List[Tuple[str, int]]:
    return [("fn", i) for i in range(len(spec.get("fn", [])))] + [("inv", i) for i in range(len(spec.get("inv", [])))]


def _pick(spec: Dict[str, Any], items: Sequence[Tuple[str, int]]) -> Dict[str, Any]:
    return sub_spec(spec, [i for k, i in items if k == "fn"], [i for k, i in items if k == "inv"])


def minimise(spec: Dict[str, Any], target: str, sig: str, base: pathlib.Path, budget: int = 10) -> Dict[str, Any]:
    """Bisect ``spec`` to a small specification on which ``target`` still shows ``sig``."""
    items = _items_of(spec)
    current = spec
    targets = [target] if target in SDK_TARGETS else list(SDK_TARGETS)
    gpp = sig.endswith(":g++")
    while len(items) > 1 and budget > 0:
        half = len(items) // 2
        for cand in (items[:half], items[half:]):
            budget -= 1
            sub = _pick(spec, cand)
            oc = judge(sub, base, targets=targets, compilers=True, gpp=gpp, java_eval=False)
            if any(p[2] == sig for p in oc.problems):
                items, current = list(cand), sub
                break
        else:
            break
    return current


def run(ctx: Any, specs: Sequence[Tuple[str, Dict[str, Any]]], compilers: bool = True) -> None:
    """Judge ``specs`` = (stream name, specification); failures go to ``ctx.fail`` with a small specification.

    A stream name ending in ``:light`` is judged without the external tools (the models of the known findings in the quick tier).
    """
    scratch, owned = c20_files._fast_scratch(ctx)
    timing = os.environ.get("C20_FILES_TIMING") is not None
    try:
        queue: List[Tuple[str, Dict[str, Any], int]] = [(name, spec, 0) for name, spec in specs]
        index = 0
        while queue:
            name, spec, depth = queue.pop(0)
            index += 1
            base = scratch / ("j%04d" % index)
            light = name.endswith(":light")
            oc = judge(spec, base, compilers=compilers and not light)
            if timing:
                sys.stderr.write("c20_joined: %s (%d fn, %d inv): %s\n" % (name, len(spec.get("fn", [])), len(spec.get("inv", [])), {k: round(v, 1) for k, v in oc.timing.items()}))
            items = _items_of(spec)
            whole_hazard = hazard_of(spec)
            refused = [t for t in SDK_TARGETS if ("target-refused:" + t) in oc.hits]
            if (not oc.accepted or refused) and len(items) > 1 and depth < 10 and whole_hazard is None:
                # the front end refuses the model (or a generator reports an error for some item): judge the halves, so that the
                # other items are still covered (a refused single item is outside the property)
                half = len(items) // 2
                queue.insert(0, (name, _pick(spec, items[half:]), depth + 1))
                queue.insert(0, (name, _pick(spec, items[:half]), depth + 1))
                shutil.rmtree(base, ignore_errors=True)
                continue
            if not oc.accepted:
                ctx.hit("joined:rejected-by-front-end")
                ctx.count(("joined", json.dumps(spec, sort_keys=True)), nontrivial=True, stream="joined:" + name)
                shutil.rmtree(base, ignore_errors=True)
                continue
            ctx.hit("joined:accepted")
            for key, n in oc.hits.items():
                ctx.hit("joined:" + key, n)
            for kind, i in items:
                ctx.count(("joined", kind, json.dumps(spec[kind][i], sort_keys=True)), nontrivial=True, stream="joined:%s:%s" % (name.split(":")[0], kind))
            # at most two reports per (target, sig): attributed problems name their item, the others borrow one or are bisected
            seen: Dict[Tuple[str, str], int] = {}
            reported: Dict[Tuple[str, str], int] = {}
            for target, rel, sig, what, item in oc.problems:
                n = seen.get((target, sig), 0)
                seen[(target, sig)] = n + 1
                if n >= 2:
                    continue
                if item is not None:
                    small = _pick(spec, [item])
                elif whole_hazard is not None or len(items) <= 1:
                    small = spec
                else:
                    small = None
                    only = [target] if target in SDK_TARGETS else list(SDK_TARGETS)
                    for t2, _, _, _, item2 in oc.problems:
                        if t2 == target and item2 is not None:
                            cand = _pick(spec, [item2])
                            again = judge(cand, scratch / "min", targets=only, gpp=sig.endswith(":g++"), java_eval=False)
                            if any(p[2] == sig for p in again.problems):
                                small = cand
                            break
                    if small is None:
                        small = minimise(spec, target, sig, scratch / "min")
                hazard = hazard_of(small)
                if hazard is not None:
                    # the input shape of a known finding: one signature per target, whatever judge noticed it
                    sig = "C20:joined:%s:%s" % (target, hazard)
                    n = reported.get((target, sig), 0)
                    reported[(target, sig)] = n + 1
                    if n >= 1:
                        continue
                ctx.fail({"joined": small, "target": target, "file": rel}, what, sig)
            shutil.rmtree(base, ignore_errors=True)
    finally:
        if owned:
            shutil.rmtree(scratch, ignore_errors=True)


def specs_for(ctx: Any) -> List[Tuple[str, Dict[str, Any]]]:
    """Corpus, the enumerated slice, the seeded random slice, the models of the known findings.

    Quick tier: ONE model for corpus + enumerated + random (the costs per model -- front end, six generators, one JVM, two g++ --
    dominate), and the small models of the known findings without the external tools.
    """
    from harness.core import corpus

    from_corpus: List[Dict[str, Any]] = []
    hazards: List[Tuple[str, Dict[str, Any]]] = []
    for n, c in enumerate(corpus("C20")):
        if "joined" in c:
            sp = c["joined"]
            sp = {"fn": [dict(fn, name="c%d%s" % (n, fn["name"])) for fn in sp.get("fn", [])], "inv": sp.get("inv", [])}
            if hazard_of(sp) is not None:
                hazards.append(("corpus-" + str(hazard_of(sp)), sp))
            else:
                from_corpus.append(sp)
    if getattr(ctx, "tier", "quick") == "thorough":
        specs = [("corpus", sp) for sp in from_corpus] + hazards + hazard_specs(1)
        specs.append(("enumerated", enumerated_spec(2)))
        for _ in range(ctx.n(0, 12)):
            specs.append(("random", random_spec(ctx.rng, 60, 60)))
        return specs
    specs = [("corpus+enumerated+random", merge_specs(*(from_corpus + [enumerated_spec(1), random_spec(ctx.rng, 30, 30)])))]
    specs += [(name + ":light", sp) for name, sp in hazards]
    if getattr(ctx, "searching", False):
        for _ in range(3):
            specs.append(("random", random_spec(ctx.rng, 60, 60)))
    return specs


def selftest_on_goldens(verbose: bool = True) -> int:
    """The scanners must lex every recorded output of the repository (all five languages) without any trouble."""
    root = c20_files._repo() / "dev/test_data/main"
    counts: Dict[str, int] = {}
    bad = 0
    for p in sorted(root.rglob("*")):
        lang = {".ts": "ts", ".java": "java", ".cs": "cs", ".go": "go", ".cpp": "cpp", ".hpp": "cpp"}.get(p.suffix)
        if lang is None or not p.is_file() or "expected_output" not in p.parts:
            continue
        text = p.read_bytes().decode("utf-8")
        if lang == "java":
            text, _ = c20_files.java_translate_unicode_escapes(text)
        sc = Scanner(text, lang)
        joined, plain, troubles = sc.survey()
        counts[lang] = counts.get(lang, 0) + 1
        counts[lang + ":joined"] = counts.get(lang + ":joined", 0) + len(joined)
        counts[lang + ":plain"] = counts.get(lang + ":plain", 0) + len(plain)
        for msg, pos in troubles[:2]:
            bad += 1
            if verbose:
                print("TROUBLE %s:%d %s %r" % (p.relative_to(root), sc.line_of(pos), msg, sc.excerpt(pos)[:160]))
        if lang == "go":
            for line, what in go_adjacency_problems(text):
                bad += 1
                if verbose:
                    print("ADJACENCY %s:%d %s" % (p.relative_to(root), line, what[:160]))
    if verbose:
        print("selftest_on_goldens: %s; %d trouble(s)" % (sorted(counts.items()), bad))
    return bad


if __name__ == "__main__":
    import argparse
    import random
    import tempfile

    parser = argparse.ArgumentParser()
    parser.add_argument("--level", type=int, default=1)
    parser.add_argument("--random", type=int, default=0)
    parser.add_argument("--seed", type=int, default=0)
    parser.add_argument("--no-compilers", action="store_true")
    parser.add_argument("--print-model", action="store_true")
    parser.add_argument("--selftest", action="store_true", help="lex all the recorded outputs of the repository")
    parser.add_argument("--hazards", action="store_true", help="the models of the known findings instead of the enumerated slice")
    args = parser.parse_args()
    if args.selftest:
        sys.exit(1 if selftest_on_goldens() else 0)
    os.environ.setdefault("C20_FILES_TIMING", "1")
    if args.print_model:
        print(model_source(enumerated_spec(args.level)))
        sys.exit(0)
    fake = c20_files._FakeCtx(pathlib.Path(tempfile.mkdtemp(prefix="c20_joined_")))
    rng = random.Random(args.seed)
    todo = (hazard_specs(args.level) if args.hazards else [("enumerated", enumerated_spec(args.level))]) + [("random", random_spec(rng, 60, 60)) for _ in range(args.random)]
    started = time.time()
    run(fake, todo, compilers=not args.no_compilers)
    print("took %.1f s; hits: %s" % (time.time() - started, sorted(fake.hits.items())))
    sys.exit(1 if fake.failures else 0)
