"""
C07 — type-checked invariants cannot fail at run time.

* correspondence: `type_inference.infer_for_invariant` (verdict, number and kind of errors, the
  whole `type_map`, the canonical strings), the Python generator's verdict on the invariant
  (`python/lib/_generate_verification._transpile_invariant`: inference + the transpiler's own check
  of `len`) and the front end's `_ContractChecker` against the Lean model
  (`Model/Expr/{Ty,Canon,Infer,TypeMap,Contract}.lean`); the decidable hypothesis `Decls.wfb` of the
  theorems on the declarations of every symbol table; on
  - the corpus, - an enumerated, seed-independent stream (every expression form x {Optional,
  non-Optional} x every guard spelling in every position on a fixed small meta-model; guards on one
  access path with uses of another one: other root / member / index / list / method result; loop
  variables in sibling and nested comprehensions; `TYPING`: every branch of the typing rules of
  operands, boolean contexts, call arguments and `in`), - the well-typed invariants of `mm.random_mm`
  models, their ill-typed mutants and type-directed "sloppy" random invariants;
* direct oracle (independent of the Lean model): every invariant the real Python generator accepts
  (inference and transpilation of the invariant succeed) is evaluated as Python (`mm.eval_invariant_python`) on targeted type-conforming instances (every
  subset of the Optional access paths the invariant mentions set to `None`, see
  `harness/c07_targets.py`; methods are stubs) and on ~18/50 random ones built from boundary values;
  any exception other than IndexError, or a non-bool result, is a failing input whose `sig` names the
  missing typing rule.
"""
from __future__ import annotations

import ast
import copy
import pathlib
import random
import re
import traceback
from typing import Any, Dict, Iterator, List, Optional, Sequence, Tuple

from harness import c07_targets, expr_wire, mm
from harness import mm_model as M
from harness.core import Ctx, corpus, enc_text, show
from harness.extract import ExtractError, _class, _parse
from harness.mm_gen import _substitute

ID = "C07"
GEN = ["Infer"]

# =========================================================================== Gen (translator half)

_TI = "aas_core_codegen/intermediate/type_inference.py"


def _tuple_names(node: ast.AST) -> List[str]:
    out = []
    for el in getattr(node, "elts", []):
        if isinstance(el, ast.Attribute):
            out.append(el.attr)
    return out


def _error_alternatives(fn: ast.FunctionDef, append: ast.Call) -> int:
    """How many different errors one ``self.errors.append(Error(<node>, <message>))`` stands for: when the message is a local
    name which the branches before the call assign in ``m > 1`` places (``message = f"…"`` in every branch, one ``append``
    after them), the call counts as ``m`` sites — the same as ``m`` branches with an ``append`` each."""
    if len(append.args) != 1 or not isinstance(append.args[0], ast.Call):
        return 1
    err = append.args[0]
    msg = err.args[1] if len(err.args) >= 2 else next((k.value for k in err.keywords if k.arg == "message"), None)
    if not isinstance(msg, ast.Name):
        return 1
    assigns = [
        st for st in ast.walk(fn)
        if isinstance(st, ast.Assign) and len(st.targets) == 1 and isinstance(st.targets[0], ast.Name) and st.targets[0].id == msg.id
    ]
    return max(1, len(assigns))


def gen_Infer(repo: pathlib.Path) -> str:
    """
    Tables read off `_Inferrer` / `_Canonicalizer` with `ast`:
    * per `transform_*` method of `_Inferrer` (and its helpers) the number of `self.errors.append`
      sites — the model has one `Err` constructor per site;
    * the node classes of `_Canonicalizer._needs_no_brackets`;
    * the primitive types accepted as index / range bound and as arithmetic operand.
    """
    mod = _parse(repo, _TI)
    inf = _class(mod, "_Inferrer")
    sites: List[Tuple[str, int]] = []
    for fn in inf.body:
        if not isinstance(fn, ast.FunctionDef):
            continue
        k = 0
        for node in ast.walk(fn):
            if (isinstance(node, ast.Call) and isinstance(node.func, ast.Attribute) and node.func.attr == "append"
                    and isinstance(node.func.value, ast.Attribute) and node.func.value.attr == "errors"):
                k += _error_alternatives(fn, node)
        if k:
            sites.append((fn.name, k))
    if not sites:
        raise ExtractError("_Inferrer: no self.errors.append sites found")
    canon = _class(mod, "_Canonicalizer")
    nnb = None
    for fn in canon.body:
        if isinstance(fn, ast.FunctionDef) and fn.name == "_needs_no_brackets":
            for node in ast.walk(fn):
                if isinstance(node, ast.Call) and isinstance(node.func, ast.Name) and node.func.id == "isinstance":
                    nnb = _tuple_names(node.args[1])
    if not nnb:
        raise ExtractError("_Canonicalizer._needs_no_brackets: isinstance tuple not found")
    # `a_type in (PrimitiveType.X, ...)` tuples per method
    tuples: Dict[str, List[List[str]]] = {}
    for fn in inf.body:
        if isinstance(fn, ast.FunctionDef):
            for node in ast.walk(fn):
                if isinstance(node, ast.Compare) and len(node.ops) == 1 and isinstance(node.ops[0], ast.In) and isinstance(node.comparators[0], ast.Tuple):
                    names = _tuple_names(node.comparators[0])
                    if names and isinstance(node.left, ast.Attribute) and node.left.attr == "a_type":
                        tuples.setdefault(fn.name, []).append(sorted(names))
                    elif names and all(isinstance(el, ast.Attribute) and isinstance(el.value, ast.Name) and el.value.id == "PrimitiveType" for el in node.comparators[0].elts):
                        # `left_primitive in (PrimitiveType.INT, ...)`, `try_primitive_type(t) in (...)`
                        tuples.setdefault(fn.name + ":prim", []).append(sorted(names))

    def uniq(name: str) -> List[str]:
        got = {tuple(t) for t in tuples.get(name, [])}
        return sorted(got.pop()) if len(got) == 1 else ["?"] if not got else sorted(x for t in got for x in t)

    idx = uniq("transform_index")
    rng = uniq("transform_for_range")
    order = uniq("transform_comparison:prim")
    isin = uniq("transform_is_in:prim")
    # the errors appended by `infer_for_invariant` itself (the body of an invariant is a boolean)
    body_sites = 0
    for fn in mod.body:
        if isinstance(fn, ast.FunctionDef) and fn.name == "infer_for_invariant":
            for node in ast.walk(fn):
                if (isinstance(node, ast.Call) and isinstance(node.func, ast.Attribute) and node.func.attr == "append"
                        and isinstance(node.func.value, ast.Attribute) and node.func.value.attr == "errors"):
                    body_sites += 1
    # the Python transpiler: the primitive types whose length it computes (`transform_function_call`, `len`)
    py = _parse(repo, "aas_core_codegen/python/transpilation.py")
    py_len: List[str] = []
    py_len_error = 0
    for fn in ast.walk(py):
        if isinstance(fn, ast.FunctionDef) and fn.name == "transform_function_call":
            for node in ast.walk(fn):
                if isinstance(node, ast.Compare) and len(node.ops) == 1 and isinstance(node.ops[0], ast.In) and isinstance(node.comparators[0], ast.Tuple):
                    py_len = sorted(set(py_len) | set(_tuple_names(node.comparators[0])))
                if isinstance(node, ast.Constant) and isinstance(node.value, str) and "We do not know how to compute the length" in node.value:
                    py_len_error += 1
    # in _transform_add_or_sub the first two tuples are the operand checks
    arith = sorted(set(tuples.get("_transform_add_or_sub", [["?"]])[0]))

    def strs(xs: Sequence[str]) -> str:
        return "[" + ", ".join('"' + x + '"' for x in xs) + "]"

    lines = [
        "/-! GENERATED by harness/props/c07.py:gen_Infer from aas_core_codegen/intermediate/type_inference.py — do not edit. -/",
        "namespace AasVerif.Gen.Infer",
        "",
        "/-- `self.errors.append` sites per method of `_Inferrer` -/",
        "def errSites : List (String × Nat) := [" + ", ".join(f'("{n}", {k})' for n, k in sorted(sites)) + "]",
        "",
        "/-- node classes of `_Canonicalizer._needs_no_brackets` -/",
        "def needsNoBrackets : List String := " + strs(sorted(nnb)),
        "",
        "/-- primitive types accepted as an index, as a range bound, as an operand of `+`/`-` -/",
        "def indexTypes : List String := " + strs(idx),
        "def rangeTypes : List String := " + strs(rng),
        "def arithTypes : List String := " + strs(arith),
        "",
        "/-- primitive types (beneath constrained primitives) that can be ordered with each other as numbers; primitive",
        "containers of `in`; errors appended by `infer_for_invariant` itself -/",
        "def orderNumberTypes : List String := " + strs(order),
        "def isInPrimContainers : List String := " + strs(isin),
        f"def invariantBodySites : Nat := {body_sites}",
        "",
        "/-- the Python transpiler (`python/transpilation.py`): primitive types with a length, and its error about the others -/",
        "def pyLenPrims : List String := " + strs(py_len),
        f"def pyLenErrorSites : Nat := {py_len_error}",
        "",
        "end AasVerif.Gen.Infer",
        "",
    ]
    return "\n".join(lines)


# =========================================================================== wire: types, declarations

_PRIM_TOK = {"bool": "pb", "int": "pi", "float": "pf", "str": "ps", "bytearray": "pa", "length": "pl", "None": "pn"}


def enc_decl_type(t: Any) -> List[str]:
    """`intermediate._types` annotation (declared types) -> tokens; `None` (no return) -> `pn`."""
    from aas_core_codegen.intermediate import _types as T

    if t is None:
        return ["pn"]
    if isinstance(t, T.PrimitiveTypeAnnotation):
        return [_PRIM_TOK[t.a_type.value]]
    if isinstance(t, T.OurTypeAnnotation):
        return ["o", enc_text(str(t.our_type.name))]
    if isinstance(t, T.ListTypeAnnotation):
        return ["L"] + enc_decl_type(t.items)
    if isinstance(t, T.OptionalTypeAnnotation):
        return ["O"] + enc_decl_type(t.value)
    raise TypeError(f"declared type {t!r}")


def enc_inferred_type(t: Any) -> str:
    """`type_inference` annotation -> the wire text the Lean side prints with `encTy`."""
    from aas_core_codegen.intermediate import type_inference as TI

    def go(t: Any) -> List[str]:
        if isinstance(t, TI.PrimitiveTypeAnnotation):
            return [_PRIM_TOK[t.a_type.value]]
        if isinstance(t, TI.OurTypeAnnotation):
            return ["o", enc_text(str(t.our_type.name))]
        if isinstance(t, TI.VerificationTypeAnnotation):
            return ["v", enc_text(str(t.func.name))] + enc_decl_type(t.func.returns)
        if isinstance(t, TI.BuiltinFunctionTypeAnnotation):
            return ["b", enc_text(str(t.func.name))] + (go(t.func.returns) if t.func.returns is not None else ["pn"])
        if isinstance(t, TI.MethodTypeAnnotation):
            return ["m", enc_text(str(t.method.name))] + enc_decl_type(t.method.returns)
        if isinstance(t, TI.ListTypeAnnotation):
            return ["L"] + go(t.items)
        if isinstance(t, TI.SetTypeAnnotation):
            return ["S"] + go(t.items)
        if isinstance(t, TI.OptionalTypeAnnotation):
            return ["O"] + go(t.value)
        if isinstance(t, TI.EnumerationAsTypeTypeAnnotation):
            return ["E", enc_text(str(t.enumeration.name))]
        raise TypeError(f"inferred type {t!r}")

    return ",".join(go(t))


def enc_signature(f: Any) -> List[str]:
    """Declared argument types (counted) and the return type of a verification function / method."""
    toks = [str(len(f.arguments))]
    for a in f.arguments:
        toks += enc_decl_type(a.type_annotation)
    return toks + enc_decl_type(f.returns)


def enc_decls(symbol_table: Any) -> str:
    """What the inferrer consults, read off the REAL symbol table."""
    from aas_core_codegen import intermediate as I

    toks: List[str] = []
    ours = list(symbol_table.our_types)
    toks.append(str(len(ours)))
    for t in ours:
        if isinstance(t, I.Enumeration):
            toks += ["N", enc_text(str(t.name)), str(len(t.literals))] + [enc_text(str(l.name)) for l in t.literals]
        elif isinstance(t, I.ConstrainedPrimitive):
            toks += ["P", enc_text(str(t.name)), _PRIM_TOK[t.constrainee.value], "1" if len(t.invariants) > 0 else "0",
                     str(len(t.descendants))] + [enc_text(str(d.name)) for d in t.descendants]
        else:
            props = list(t.properties_by_name.items())
            meths = list(t.methods_by_name.items())
            toks += ["C", enc_text(str(t.name)), str(len(props))]
            for n, p in props:
                toks += [enc_text(str(n))] + enc_decl_type(p.type_annotation)
            toks.append(str(len(meths)))
            for n, m_ in meths:
                toks += [enc_text(str(n))] + enc_signature(m_)
            toks.append(str(len(t.descendants)))
            toks += [enc_text(str(d.name)) for d in t.descendants]
    fns = list(symbol_table.verification_functions)
    toks.append(str(len(fns)))
    for f in fns:
        toks += [enc_text(str(f.name))] + enc_signature(f)
    consts = list(symbol_table.constants)
    toks.append(str(len(consts)))
    for c in consts:
        toks.append(enc_text(str(c.name)))
        if isinstance(c, I.ConstantPrimitive):
            toks.append(_PRIM_TOK[c.a_type.value])
        elif isinstance(c, I.ConstantSetOfPrimitives):
            toks += ["S", _PRIM_TOK[c.a_type.value]]
        else:
            toks += ["S", "o", enc_text(str(c.enumeration.name))]
    return ",".join(toks)


# =========================================================================== the real inferrer

#: message fragment -> error kind of the Lean model (`Err`); first match wins
_KINDS: List[Tuple[str, str]] = [
    (r"^Expected an instance type as our type to be a class", "ourTypeNotClass"),
    (r"^The member .* could not be found", "memberNotFound"),
    (r"^The literal .* could not be found", "literalNotFound"),
    (r"^Expected an instance type to be a non-None", "instanceOptional"),
    (r"^Expected an instance type to be either", "instanceNotInstance"),
    (r"^Expected the collection to be a non-None", "collectionOptional"),
    (r"^Expected the index to be a non-None", "indexOptional"),
    (r"^Expected an index access on a list", "indexOnNonList"),
    (r"^Expected the index to be an integer", "indexNotInt"),
    (r"^The ordering is only defined between", "cmpNotOrderable"),
    (r"^Expected the container to be a list, a set", "containerNotContainer"),
    (r"^Expected the member of a set to be hashable", "memberUnhashable"),
    (r"^Expected the member to be of the same primitive type", "memberNotSamePrim"),
    (r"^Expected the antecedent to be a boolean", "antecedentNotBool"),
    (r"^Expected the consequent to be a boolean", "consequentNotBool"),
    (r"^Expected the operand to be a boolean", "operandNotBool"),
    (r"^Expected the value to be a boolean", "valueNotBool"),
    (r"^Expected the body of an invariant to be a boolean", "bodyNotBool"),
    (r"^Expected the argument to the function 'len' to be a non-None", "lenArgOptional"),
    (r"^Expected exactly one argument to the function 'len'", "lenArgCount"),
    (r"^Expected exactly \d+ arguments to the (function|method) ", "argCount"),
    (r"^Expected the argument .* to the (function|method) .* to be ", "argNotPassable"),
    (r"^Expected the left operand to be a non-None", "leftOptional"),
    (r"^Expected the right operand to be a non-None", "rightOptional"),
    (r"^Expected the member to be a non-None", "isInMemberOptional|methodMemberOptional"),
    (r"^Expected the container to be a non-None", "containerOptional"),
    (r"^Expected the antecedent to be a non-None", "antecedentOptional"),
    (r"^Expected the member in a method call to be a method", "notAMethod"),
    (r"^Expected the variable .* to be a function", "notAFunction"),
    (r"nullness check \(``is None``\)", "isNoneOnNonOptional"),
    (r"non-nullness check \(``is not None``\)", "isNotNoneOnNonOptional"),
    (r"^Expected the operand to be a non-None", "operandOptional"),
    (r"^We do not know how to infer the type of the variable", "unknownName"),
    (r"^Expected the value to be a non-None", "valueOptional|fvOptional"),
    (r"only defined on integer and floating-point numbers, but got as a left", "leftNotNumeric"),
    (r"only defined on integer and floating-point numbers, but got as a right", "rightNotNumeric"),
    (r"^You can not mix floating-point and integer", "mixFloatInt"),
    (r"has been already defined before", "varAlreadyDefined"),
    (r"^Expected the collection which we iterate over to be a non-None", "iterOptional"),
    (r"^Expected an iteration over a list", "iterNotList"),
    (r"^Expected the start to be a non-None", "startOptional"),
    (r"^Expected the end to be a non-None", "endOptional"),
    (r"^Expected the start of a range to be an integer", "startNotInt"),
    (r"^Expected the end of a range to be an integer", "endNotInt"),
    (r"^Expected the condition to be a boolean", "conditionNotBool"),
]


def classify_message(msg: str) -> str:
    for pat, kind in _KINDS:
        if re.search(pat, msg):
            return kind
    return "?"


def tmap_nodes(node: Any) -> List[Any]:
    """The nodes of the project's tree in the order of Lean's `tmap` (see Model/Expr/TypeMap.lean)."""
    from aas_core_codegen.parse import tree as T

    w = tmap_nodes
    if isinstance(node, T.Member):
        return [node] + w(node.instance)
    if isinstance(node, T.Index):
        return [node] + w(node.collection) + w(node.index)
    if isinstance(node, T.Comparison):
        return [node] + w(node.left) + w(node.right)
    if isinstance(node, T.IsIn):
        return [node] + w(node.member) + w(node.container)
    if isinstance(node, T.Implication):
        return [node] + w(node.antecedent) + w(node.consequent)
    if isinstance(node, T.MethodCall):
        return [node, node.member] + w(node.member.instance) + [x for a in node.args for x in w(a)]
    if isinstance(node, T.FunctionCall):
        return [node, node.name] + [x for a in node.args for x in w(a)]
    if isinstance(node, (T.Name, T.Constant)):
        return [node]
    if isinstance(node, (T.IsNone, T.IsNotNone)):
        return [node] + w(node.value)
    if isinstance(node, T.Not):
        return [node] + w(node.operand)
    if isinstance(node, (T.And, T.Or)):
        return [node] + [x for v in node.values for x in w(v)]
    if isinstance(node, (T.Add, T.Sub)):
        return [node] + w(node.left) + w(node.right)
    if isinstance(node, T.JoinedStr):
        out = [node]
        for v in node.values:
            if not isinstance(v, str):
                out += [v] + w(v.value)
        return out
    if isinstance(node, (T.Any, T.All)):
        g = node.generator
        parts = w(g.iteration) if isinstance(g, T.ForEach) else w(g.start) + w(g.end)
        return [node, g, g.variable] + parts + w(node.condition)
    raise TypeError(f"unexpected node {node!r}")


def canon_nodes(node: Any) -> List[Any]:
    """The nodes in the order of Lean's `Drive.C07.subs` (nodes of the shared syntax only)."""
    from aas_core_codegen.parse import tree as T

    out = []
    for n in tmap_nodes(node):
        if isinstance(n, (T.FormattedValue, T.ForEach, T.ForRange)):
            continue
        out.append(n)
    # drop the Name node of a function call and the loop variable (not sub-expressions of the shared syntax)
    skip = set()
    for n in tmap_nodes(node):
        if isinstance(n, T.FunctionCall):
            skip.add(id(n.name))
        if isinstance(n, (T.Any, T.All)):
            skip.add(id(n.generator.variable))
    return [n for n in out if id(n) not in skip]


class Real:
    """One loaded meta-model: symbol table, declarations on the wire, base environment."""

    def __init__(self, symbol_table: Any) -> None:
        from aas_core_codegen.intermediate import type_inference as TI

        self.st = symbol_table
        self.decls = enc_decls(symbol_table)
        self.base = TI.populate_base_environment(symbol_table=symbol_table)

    def our_type(self, name: str) -> Any:
        for t in self.st.our_types:
            if str(t.name) == name:
                return t
        raise KeyError(name)

    def invariant(self, owner: str, description: str) -> Any:
        t = self.our_type(owner)
        for inv in t.invariants:
            if inv.description == description and inv.specified_for is t:
                return inv
        for inv in t.invariants:
            if inv.description == description:
                return inv
        raise KeyError((owner, description))

    def infer(self, self_type: str, invariant: Any) -> Dict[str, Any]:
        """Run the REAL `infer_for_invariant` with `self : self_type`; canonical outcome."""
        from aas_core_codegen.common import Identifier
        from aas_core_codegen.intermediate import type_inference as TI

        env = TI.MutableEnvironment(parent=self.base)
        env.set(Identifier("self"), TI.OurTypeAnnotation(our_type=self.our_type(self_type)))
        try:
            type_map, error = TI.infer_for_invariant(invariant=invariant, environment=env)
        except BaseException as e:  # noqa: B902
            if isinstance(e, (KeyboardInterrupt, SystemExit)):
                raise
            return {"verdict": "crash", "exception": type(e).__name__}
        if error is not None:
            msgs = [str(u.message) for u in (error.underlying or [])]
            return {"verdict": "err", "kinds": [classify_message(m) for m in msgs], "messages": msgs}
        types = []
        for n in tmap_nodes(invariant.body):
            t = type_map.get(n)
            types.append("!" if t is None else enc_inferred_type(t))
        return {"verdict": "ok", "type": types[0], "tmap": types}

    def accepts_py(self, self_type: str, invariant: Any) -> Dict[str, Any]:
        """The REAL Python generator on this invariant (`python/lib/_generate_verification._transpile_invariant`:
        inference, then the transpiler): `{"ok": bool, "messages": [most underlying messages], "len_kind": bool}`."""
        from aas_core_codegen.common import Identifier
        from aas_core_codegen.intermediate import type_inference as TI
        from aas_core_codegen.python.lib import _generate_verification as PV

        env = TI.MutableEnvironment(parent=self.base)
        env.set(Identifier("self"), TI.OurTypeAnnotation(our_type=self.our_type(self_type)))
        try:
            _, error = PV._transpile_invariant(invariant=invariant, symbol_table=self.st, environment=env)
        except BaseException as e:  # noqa: B902
            if isinstance(e, (KeyboardInterrupt, SystemExit)):
                raise
            return {"ok": False, "messages": [f"crash:{type(e).__name__}"], "len_kind": False}
        if error is None:
            return {"ok": True, "messages": [], "len_kind": False}
        msgs: List[str] = []

        def walk(err: Any) -> None:
            if err.underlying:
                for u in err.underlying:
                    walk(u)
            else:
                msgs.append(str(err.message))

        walk(error)
        return {"ok": False, "messages": msgs, "len_kind": any(m.startswith("We do not know how to compute the length") for m in msgs)}

    def canon(self, invariant: Any) -> List[str]:
        from aas_core_codegen.intermediate import type_inference as TI

        c = TI._Canonicalizer()
        c.transform(invariant.body)
        return [c.representation_map[n] for n in canon_nodes(invariant.body)]

    def canon_collision(self, invariant: Any) -> Optional[Tuple[str, str, str]]:
        """Two DIFFERENT sub-expressions with the same canonical string (the hypothesis of `none_safety` on the keys)?"""
        from aas_core_codegen.intermediate import type_inference as TI

        c = TI._Canonicalizer()
        c.transform(invariant.body)
        seen: Dict[str, Any] = {}
        for n in canon_nodes(invariant.body):
            key = c.representation_map[n]
            # an f-string without formatted values IS the constant (`f"x"` and `"x"` share the key `'x'`: same value)
            e = _rebuild(mm.expr_from_project_tree(n),
                         lambda x: M.Constant("".join(x.values)) if isinstance(x, M.JoinedStr) and all(isinstance(v, str) for v in x.values) else x)
            if key in seen and seen[key] != e:
                return key, M.render_expr(seen[key]), M.render_expr(e)
            seen[key] = e
        return None


def kinds_agree(real: List[str], model: List[str]) -> bool:
    if len(real) != len(model):
        return False
    for r, m_ in zip(real, model):
        if r == "?":
            continue  # a message we cannot classify (reworded): only the count is compared
        if m_ not in r.split("|"):
            return False
    return True


def model_answer_agrees(real: Dict[str, Any], ans: str) -> bool:
    if ans.startswith("ok "):
        if real["verdict"] != "ok":
            return False
        head, _, tm = ans[3:].partition("|")
        return head == real["type"] and tm.split(";") == real["tmap"]
    if ans.startswith("err "):
        return real["verdict"] == "err" and kinds_agree(real["kinds"], ans[4:].split(";") if ans[4:] else [])
    if ans.startswith("crash "):
        return real["verdict"] == "crash"
    return False


# =========================================================================== the fixed small meta-model

P, R, L, O = M.Prim, M.Ref, M.ListOf, M.OptionalOf


def fixed_mm() -> M.MM:
    """The fixed model of the enumerated stream (and of the Lean examples)."""
    item = M.Class("Item", props=[M.Prop("name", P("str")), M.Prop("count", P("int")), M.Prop("remark", O(P("str"))),
                                  M.Prop("weight", O(P("float"))), M.Prop("partner", O(R("Item"))),
                                  M.Prop("height", O(P("float"))), M.Prop("rival", O(R("Item")))],
                   methods=[M.Method("label", [], P("str")), M.Method("twin", [], O(R("Item"))),
                            M.Method("scaled", [M.Arg("factor", P("int"))], P("int"))],
                   with_model_type=True, description="Represent an item.")
    special = M.Class("Special_item", bases=["Item"], props=[M.Prop("extra", P("str"))], description="Represent a special item.")
    kinds = [("n", P("int")), ("s", P("str")), ("b", P("bool")), ("fl", P("float")), ("by", P("bytes")),
             ("e", R("Color")), ("c", R("Short_text")), ("it", R("Item")), ("its", L(R("Item"))),
             # for the typing rules of operands, boolean contexts and call arguments (stream `TYPING`)
             ("fg", R("Flag")), ("pt", R("Plain_text")), ("sp", R("Special_item")), ("sps", L(R("Special_item"))), ("strs", L(P("str")))]
    props = []
    for n, t in kinds:
        props.append(M.Prop(n, t))
        props.append(M.Prop("o" + n, O(t)))
    props.append(M.Prop("os2", O(P("str"))))
    props.append(M.Prop("it2", R("Item")))
    props.append(M.Prop("its2", L(R("Item"))))
    holder = M.Class("Holder", props=props, description="Hold one property of every kind.")
    return M.MM(
        classes=[item, special, holder],
        enums=[M.Enum.of("Color", [("Red", "RED"), ("Green", "GREEN")], "Enumerate colors.")],
        constrained_primitives=[M.ConstrainedPrimitive("Short_text", "str", invariants=[
            M.Invariant("The text is short.", M.Comparison(M.length(M.SELF), "<=", M.Constant(10)))], description="Represent a short text."),
            # without invariants: a primitive can be passed for them
            M.ConstrainedPrimitive("Flag", "bool", description="Represent a flag."),
            M.ConstrainedPrimitive("Plain_text", "str", description="Represent a plain text.")],
        constants=[M.ConstantPrimitive("Limit", "int", 5, "Limit something."), M.ConstantPrimitive("Greeting", "str", "hi", "Greet.")],
        constant_sets=[M.ConstantSet("Words", "str", ["a", "b"], description="List words."),
                       M.ConstantSet("Primary", "Color", ["Red"], description="List primary colors.")],
        verification_functions=[
            M.PatternFn.simple("is_word", "^[a-z]+$", description="Check the text.\n\n:param text: to be checked\n:returns: True if fine"),
            M.TranspilableFn("is_small", [M.Arg("value", P("int"))], P("bool"), [M.Return(M.Comparison(M.Name("value"), "<", M.Constant(10)))],
                             description="Check the value.\n\n:param value: to be checked\n:returns: True if fine"),
        ] + [
            # one function per kind of declared argument type; the bodies never fail on arguments of the declared types
            M.TranspilableFn(name, [M.Arg(a, t) for a, t in args], P("bool"), [M.Return(body)],
                             description=f"Check the {args[0][0]}.\n\n" + "".join(f":param {a}: to be checked\n" for a, _ in args) + ":returns: True if fine")
            for name, args, body in [
                ("takes_short", [("text", R("Short_text"))], M.Comparison(M.length(M.Name("text")), ">", M.Constant(0))),
                ("takes_plain", [("text", R("Plain_text"))], M.Comparison(M.length(M.Name("text")), ">=", M.Constant(0))),
                ("takes_item", [("item", R("Item"))], M.Comparison(M.Member(M.Name("item"), "count"), ">=", M.Constant(0))),
                ("takes_special", [("item", R("Special_item"))], M.Comparison(M.length(M.Member(M.Name("item"), "extra")), ">=", M.Constant(0))),
                ("takes_items", [("items", L(R("Item")))], M.Comparison(M.length(M.Name("items")), ">=", M.Constant(0))),
                ("takes_opt", [("text", O(P("str")))], M.Or((M.IsNone(M.Name("text")), M.Comparison(M.length(M.Name("text")), ">=", M.Constant(0))))),
                ("takes_color", [("color", R("Color"))], M.Comparison(M.Name("color"), "==", M.Member(M.Name("Color"), "Red"))),
                ("takes_float", [("value", P("float"))], M.Comparison(M.Name("value"), ">", M.Constant(0.5))),
                ("takes_two", [("text", P("str")), ("value", P("int"))], M.Comparison(M.length(M.Name("text")), ">", M.Name("value"))),
                ("takes_flag", [("flag", P("bool"))], M.Name("flag")),
                ("takes_bytes", [("data", P("bytes"))], M.Comparison(M.length(M.Name("data")), ">=", M.Constant(0))),
            ]
        ],
    )


#: (kind, use) — `X` is replaced by the access expression; every expression form appears
USES: List[Tuple[str, str]] = [
    ("n", "X > 0"), ("n", "0 != X"), ("n", "0 < X"), ("n", "self.n >= X"), ("n", "self.n + X > 0"), ("n", "self.n - X > 0"), ("n", "self.its[0].count + 1 > X"), ("n", "X + 1 > 0"), ("n", "1 - X > 0"), ("n", "is_small(X)"), ("n", "X == Limit"),
    ("n", "self.its[X].count > 0"), ("n", "all(j > 0 for j in range(X, 5))"), ("n", "any(j > 0 for j in range(0, X))"),
    ("n", 'f"a{X}" == "a1"'), ("n", "X in Words"), ("n", "X < 'a'"), ("n", "X + 1.5 > 0.0"), ("n", "X and self.b"),
    ("s", 'X == "a"'), ("s", '"a" < X'), ("s", "self.s in X"), ("s", "len(X) > 0"), ("s", "is_word(X)"), ("s", "X in Words"), ("s", '"a" in X'), ("s", 'f"{X}b" != "ab"'),
    ("s", "X < 3"), ("s", "X + 1 > 0"), ("s", "X.name == 'a'"), ("s", "X[0] == 'a'"), ("s", "not X"), ("s", "is_small(X)"),
    ("b", "X"), ("b", "not X"), ("b", "X and self.n > 0"), ("b", "self.n > 0 or X"), ("b", "not X or self.n > 0"),
    ("b", "not (self.n > 0) or X"), ("b", "X == True"), ("b", "all(X for i in self.its)"),
    ("fl", "X > 0.5"), ("fl", "X + 1.5 > 0.0"), ("fl", "X - 1 > 0.0"), ("fl", "X < 1"),
    ("by", "len(X) > 0"), ("by", "X == self.by"),
    ("e", "X == Color.Red"), ("e", "X in Primary"), ("e", "X != Color.Blue"), ("e", "X > 0"), ("e", "X.Red == Color.Red"),
    ("c", 'X == "a"'), ("c", "len(X) > 0"), ("c", "is_word(X)"), ("c", "X.name == 'a'"), ("c", "X + 1 > 0"),
    ("it", 'X.name == "a"'), ("it", "X.count + 1 > 0"), ("it", "X.remark is None"), ("it", "X.remark is not None"),
    ("it", "X.remark is None or len(X.remark) > 0"), ("it", "len(X.remark) > 0"), ("it", 'X.label() == "a"'), ("it", "X.twin() is None"),
    ("it", "X.twin() is None or X.twin().count > 0"), ("it", "X.twin().count > 0"), ("it", "X.scaled(2) > 0"), ("it", "X.scaled() > 0"),
    ("it", "X.missing > 0"), ("it", "X.label > 0"), ("it", "X.count() > 0"), ("it", "X > 0"), ("it", "X == self.it"),
    ("its", "len(X) > 0"), ("its", "X[0].count > 0"), ("its", "all(i.count > 0 for i in X)"), ("its", "any(i.remark is not None for i in X)"),
    ("its", "all(i.remark is None or len(i.remark) > 0 for i in X)"), ("its", "all(len(i.remark) > 0 for i in X)"),
    ("its", "all(X[j].count > 0 for j in range(0, len(X)))"), ("its", "all(not (i.remark is not None) or all(len(i.remark) > j for j in range(0, 3)) for i in X)"),
    ("its", "all(i.count for i in X)"), ("its", "all(all(k.count > 0 for k in X) for i in X)"),
    ("its", "all(self.count > 0 for self in X)"), ("its", "X.count > 0"), ("its", "X['a'].count > 0"), ("its", "all(j > 0 for j in X)"),
]

#: guard spellings around `body` using the optional access expression X (Y another optional)
GUARDS: List[Tuple[str, str]] = [
    ("none", "B"),
    ("impl", "not (X is not None) or (B)"),
    ("and", "X is not None and (B)"),
    ("isnone-or", "X is None or (B)"),
    ("impl-and", "not (self.b and X is not None) or (B)"),
    ("impl-and2", "not (X is not None and self.b) or (B)"),
    ("and3", "self.b and X is not None and (B)"),
    ("consequent", "not (B) or X is not None"),
    ("or-for-and", "X is not None or (B)"),
    ("isnone-and", "X is None and (B)"),
    ("not-isnone", "not (not (X is None)) or (B)"),
    ("impl-not-isnone", "not (not (X is None) and self.b) or (B)"),
    ("other", "not (Y is not None) or (B)"),
    ("other-or", "Y is None or (B)"),
    ("nested", "not self.b or (X is not None and (B))"),
    ("after", "(B) and X is not None"),
    ("twice", "X is not None and X is not None and (B)"),
    ("impl-or", "not (X is not None or self.b) or (B)"),
    ("impl-nested-and", "not (self.b and (X is not None and self.b)) or (B)"),
    # facts must not leak out of the construct that established them
    ("leak-and-or", "(X is not None and self.b) or (B)"),
    ("leak-impl-and", "(not (X is not None) or self.b) and (B)"),
    ("leak-or-and", "(X is None or self.b) and (B)"),
    # ---- negated checks in every position (after seeded change C07-2).  `q` is the loop variable of the spellings
    # (the uses have i, j, k, self).  "unsound" = X IS None where B is evaluated: must be rejected.
    ("not-isnotnone-and", "not (X is not None) and (B)"),                       # unsound
    ("not-isnone-and", "not (X is None) and (B)"),                              # sound
    ("and3-not-isnotnone", "self.b and not (X is not None) and (B)"),           # unsound
    ("and3-not-isnone", "self.b and not (X is None) and (B)"),                  # sound
    ("impl-neg-antecedent", "not (not (X is not None)) or (B)"),                # unsound: the antecedent says X is None
    ("impl-isnone-antecedent", "not (X is None) or (B)"),                       # unsound
    ("impl-and-neg", "not (self.b and not (X is not None)) or (B)"),            # unsound
    ("impl-and-neg-first", "not (not (X is not None) and self.b) or (B)"),      # unsound
    ("impl-and-isnone", "not (self.b and X is None) or (B)"),                   # unsound
    ("impl-and-not-isnone", "not (self.b and not (X is None)) or (B)"),         # sound
    ("or3-isnone-first", "X is None or self.b or (B)"),                         # sound
    ("or3-isnone-middle", "self.b or X is None or (B)"),                        # sound
    ("or3-neg-first", "not (X is not None) or self.b or (B)"),                  # sound (an n-ary `or`, not an implication)
    ("or3-neg-middle", "self.b or not (X is not None) or (B)"),                 # sound
    ("or3-not-isnone", "self.b or not (X is None) or (B)"),                     # unsound
    ("or3-isnotnone", "self.b or X is not None or (B)"),                        # unsound
    ("or-after", "(B) or X is None"),                                           # unsound
    ("and3-after", "self.b and (B) and X is not None"),                         # unsound
    ("and-double-neg", "not (not (X is not None)) and (B)"),                    # sound
    ("and-triple-neg", "not (not (not (X is not None))) and (B)"),              # unsound
    ("or-triple-neg", "not (not (not (X is None))) or (B)"),                    # unsound
    # ---- facts of a NESTED operator must not reach siblings / later operands of the enclosing operator
    ("nested-and-in-and", "self.b and (X is not None and self.b) and (B)"),     # sound
    ("nested-or-in-and", "(X is not None or self.b) and (B)"),                  # unsound
    ("nested-impl-in-and", "(not self.b or X is not None) and (B)"),            # unsound
    ("nested-and-in-or", "(X is None and self.b) or (B)"),                      # unsound
    ("nested-or-in-or", "(X is None or self.b) or (B)"),                        # sound
    ("nested-or-in-or3", "self.b or (self.b or X is None) or (B)"),             # sound
    ("not-or-and", "not (X is None or self.b) and (B)"),                        # sound (De Morgan)
    ("not-and-and", "not (X is not None and self.b) and (B)"),                  # unsound
    ("impl-consequent-and-leak", "(not self.b or (X is not None and self.b)) and (B)"),  # unsound
    ("impl-chain", "not (X is not None) or (not self.b or (B))"),               # sound
    ("impl-antecedent-is-impl", "not (not (X is not None) or self.b) or (B)"),  # unsound (antecedent: X is None or b)
    ("impl-sibling", "(not (X is not None) or self.b) and (not self.b or (B))"),  # unsound: fact of one implication in a sibling
    ("impl-sibling-or", "(not (X is not None) or self.b) or (B)"),              # sound (B is reached only if the implication is False)
    ("and-in-consequent-later", "not self.b or (X is not None and self.b and (B))"),  # sound
    ("or-in-consequent", "not self.b or (X is None or (B))"),                   # sound
    ("and-then-or", "X is not None and self.b or (B)"),                         # unsound: `(X is not None and b) or B`
    ("or-then-and", "self.b or X is not None and (B)"),                         # sound: `b or (X is not None and B)`
    # ---- quantifiers
    ("quant-guard-sibling", "all(X is not None for q in self.its) and (B)"),    # unsound (empty list)
    ("quant-any-sibling", "any(X is not None and self.b for q in self.its) and (B)"),  # unsound in general (not narrowing)
    ("quant-inner-and", "all(X is not None and (B) for q in self.its)"),        # sound
    ("quant-inner-impl", "all(not (X is not None) or (B) for q in self.its)"),  # sound
    ("quant-inner-neg", "all(not (X is not None) and (B) for q in self.its)"),  # unsound
    ("quant-outer-impl", "not (X is not None) or all((B) for q in self.its)"),  # sound: facts flow into generators
    ("quant-outer-isnone", "X is None or any((B) for q in self.its)"),          # sound
    ("quant-outer-wrong", "X is not None or any((B) for q in self.its)"),       # unsound
    ("quant-range-outer", "X is None or all((B) for q in range(0, 2))"),        # sound
]

#: expressions that do not fit the grid
EXTRA: List[str] = [
    "not (self.it.partner is not None) or self.its[0].partner.name == 'a'", "not (self.it.partner is not None) or self.it.partner.name == 'a'",
    "self.it.partner is None or self.it.partner.partner is None or self.it.partner.partner.name == 'a'", "self.it.partner is None or self.it.partner.partner.name == 'a'",
    "not (self.oit is not None and self.oit.partner is not None) or self.oit.partner.count > 0",
    "all(i.partner is None or i.partner.count > 0 for i in self.its)", "all(not (self.its[0].partner is not None) or i.partner.count > 0 for i in self.its)",
    "self.oit is None or all(self.oit.count > i.count for i in self.its)", "all(self.oit is None or self.oit.count > i.count for i in self.its)",
    "self.n > 0", "Limit > 0", "Unknown > 0", "len(self.s, self.s) > 0", "len() > 0", "self.it.scaled(1, 2) > 0",
    "Color.Red == self.e", "Color.Blue == self.e", "self.oe is None or self.oe == Color.Red", "Color is None", "Color.Red is None",
    "is_word is None", "len is None", "self.it.label is None", "self.os is None or self.os2 is None or len(self.os) + len(self.os2) > 0",
    "(self.os is not None and self.os2 is not None) and len(self.os) > len(self.os2)",
    "not (self.os is not None and self.os2 is not None) or len(self.os) > len(self.os2)",
    "not (self.os is not None) or (not (self.os2 is not None) or len(self.os) > len(self.os2))",
    "(self.os is not None and len(self.os) > 0) or (self.os2 is not None and len(self.os2) > 0)",
    "(self.os is not None and len(self.os) > 0) or len(self.os) == 0",
    "self.os is None or self.os2 is None or self.os == self.os2", "self.os is None or self.n > 0 or len(self.os) > 0",
    "self.oit is None or self.oit.remark is None or len(self.oit.remark) > 0", "self.oit is None or len(self.oit.remark) > 0",
    "not (self.oit is not None and self.oit.remark is not None) or len(self.oit.remark) > 0",
    "not (self.oit.remark is not None and self.oit is not None) or len(self.oit.remark) > 0",
    "self.oit is not None and self.oit.twin() is not None and self.oit.twin().count > 0",
    "self.oits is None or all(i.remark is None or len(i.remark) > 0 for i in self.oits)",
    "self.os is None or all(len(self.os) > j for j in range(0, 3))", "all(self.os is None or len(self.os) > j for j in range(0, 3))",
    "self.os is None or any(i.name == self.os and len(self.os) > 0 for i in self.its)",
    "all(i.remark is not None for i in self.its) and all(len(i.remark) > 0 for i in self.its)",
    "self.on is None or self.its[self.on].count > 0", "self.its[self.on].count > 0", "self.its[0] is None", "self.its[len(self.its) - 1].count > 0",
    "self.n + self.fl > 0.0", "self.fl + self.n > 0.0", "len(self.s) + 1 > 0", "len(self.s) + len(self.by) > 0", "len(self.s) + 1.5 > 0.0",
    "1 + 2 > 0", "1.5 + 2.5 > 0.0", "self.b + 1 > 0", "self.s + self.s == 'aa'", "self.n - self.on > 0", "self.on - self.n > 0", "self.on + self.on > 0",
    "all(j >= 0 for j in range(0, len(self.s)))", "all(j >= 0 for j in range(len(self.s), 5))", "all(j >= 0 for j in range(0.5, 5))",
    "all(j >= 0 for j in range(0, 'a'))", "all(j >= 0 for j in range(self.on, self.on))", "all(self.its[j + 1].count > 0 for j in range(0, len(self.its) - 1))",
    'f"{self.os}" == "a"', 'f"{self.n}{self.os}{self.on}" == "a"', 'f"x" == "x"', 'f"{self.it.name}-{self.n + 1}" == "a-1"', 'f"{self.it}" == "a"', 'f"{Unknown}{self.os}" == "a"',
    "self(1) > 0", "Limit(1) > 0", "self.n(1) > 0", "is_word(self.os)", "is_word(self.n)", "is_word(Unknown)", "len(self.os) > 0", "len(self.n) > 0", "is_small(self.on, Unknown)",
    "self.os in Words", "self.s in self.os", "self.os is None or self.s in self.os", "self.n in self.n", "Unknown in Words", "self.os in Unknown", "Unknown in Unknown2",
    "not self.os", "not self.n", "not Unknown", "self.n and self.s", "self.os and self.b", "self.b and self.os and self.on and Unknown", "self.b or self.os or self.on",
    "self.os or self.b", "not self.os or self.b", "not self.b or self.os", "not Unknown or self.os", "not self.os or Unknown",
    "self.s", "self.n", "self.os", "self.it", "self.its", "len(self.s)", "self.it.label()", "Color.Red", "Color", "is_word", "'a'", "1", "True", "1.5",
    "self.os is None", "self.os is not None", "self.s is None", "self.s is not None", "Unknown is None", "(self.n > 0) is None",
    "self.os is not None and self.os is None", "self.os is None or self.os is not None", "self.os is None or self.os is None",
    "self.missing is None", "self.it.missing.deeper > 0", "self.oit.missing > 0", "self.e.Red == Color.Red", "self.c.x > 0", "self.n.x > 0", "Color.Red.x > 0",
    "self.its[0][0] > 0", "self.s[self.s] == 'a'", "self.its[self.os] is None", "self.oits[self.on].count > 0", "Unknown[0] > 0", "self.its[Unknown].count > 0",
    "any(Unknown > 0 for i in self.its)", "any(i > 0 for i in Unknown)", "any(i > 0 for i in self.n)", "any(i.count > 0 for i in self.oits)",
    "all(i.count > 0 for i in self.its) and all(i.count > 1 for i in self.its)", "all(Limit > 0 for Limit in self.its)", "all(len > 0 for len in self.its)",
    "all(i > 0 for i in range(self.on, 3))", "all(i > 0 for i in range(0, self.on))", "all(i > 0 for i in range(Unknown, 3))", "all(i > 0 for i in range(0, Unknown))",
    "all(i > 0 for i in range(self.s, 3))", "all(i > 0 for i in range(0, self.s))", "all(i > 0 for i in range(self.os, self.s))",
    "self.it.label(Unknown) == 'a'", "self.it.label(self.os) == 'a'", "self.oit.label(Unknown) == 'a'", "self.it.twin().twin() is None", "self.it.twin(Unknown) is None",
    "self.n > Unknown", "Unknown > self.n", "Unknown > Unknown2", "self.on > self.os", "self.n + Unknown > 0", "Unknown + 1 > 0", "Unknown + Unknown2 > 0",
    "self.s + 1 > 0", "1 + self.s > 0", "self.s + self.s > 0", "self.on + 1.5 > 0.0",
    "not (self.os is not None) or Unknown", "not (self.os) or self.b", "not (Unknown and self.os is not None) or len(self.os) > 0",
    "self.oit is None or self.oit.twin() is None or self.oit.twin().remark is None or len(self.oit.twin().remark) > 0",
    "self.it.twin() is not None and self.it.twin().twin() is not None and self.it.twin().twin().count > 0",
    "not (self.it.scaled(1) > 0 and self.os is not None) or len(self.os) > self.it.scaled(len(self.os))",
]


#: the typing rules of operands, boolean contexts and call arguments (the repairs of C07-F1 … F4): every branch of
#: `orderable`, `isInCheck`, `isBool`, `checkArgs` / `passable` / `assignable`, `len`, on both sides (accepted / rejected)
TYPING: List[str] = [
    # ---- F1 ordering: numbers with numbers (int, float, length, constrained), str with str, bytes with bytes
    "self.n < self.fl", "self.fl <= self.n", "len(self.s) >= self.fl", "self.n < len(self.its)", "len(self.s) > len(self.by)", "Limit < self.n",
    "self.c < self.s", "self.s >= Greeting", "self.c <= self.c", "self.pt > self.c", "self.by < self.by", "self.by >= self.by", "self.it.scaled(1) < 1.5",
    "self.it.label() < 'a'", "self.strs[0] < self.s", "all(x < 'b' for x in self.strs)", "1 < 2", "1.5 > 1", "'a' <= 'b'",
    "self.s < 3", "3 > self.s", "self.s < self.by", "self.by < self.s", "self.b < self.n", "self.n >= self.b", "self.b <= self.b", "self.fg < self.fg", "True < 2",
    "self.e < self.e", "self.e >= Color.Red", "self.it < self.it", "self.its <= self.its", "self.strs < self.strs", "Words > Words", "self.it.label < self.it.label",
    "Color < Color", "self.n < self.c", "self.it.label() < 3", "all(x < 1 for x in self.strs)", "self.it.twin() < self.it", "len < len", "self.n < self.it.scaled",
    # `==` / `!=` are defined between any two values
    "self.s == 3", "self.it != self.its", "self.e == self.n", "Words == Primary", "self.b == self.n", "Color.Red != 'RED'", "self.by == self.s", "self.fl == self.n",
    "self.it.label == self.it.label", "len == len", "self.it.label != 3", "is_word == len", "Color == Color", "self.os == 3", "self.s == self.os",
    # ---- F2 boolean contexts
    "not self.n", "not self.s", "not self.it", "not self.its", "not self.e", "not self.fl", "not self.by", "not len(self.s)", "not self.it.label()", "not (self.n > 0)",
    "not self.fg", "not self.b", "not self.ob", "not is_word", "not Color",
    "self.n and self.b", "self.b and self.n", "self.b and self.s and self.b", "self.b or self.n", "self.n or self.b", "self.it or self.b", "self.b and self.it.label()",
    "self.fg and self.b", "self.b or self.fg", "self.fg or self.fg", "self.b and self.ob", "self.ob or self.b", "self.n and self.s",
    "not self.n or self.b", "not self.b or self.n", "not self.b or self.s", "not self.b or self.ob", "not self.ob or self.b", "not self.fg or self.b", "not self.b or self.fg",
    "not (self.ob is not None) or self.ob", "self.ob is None or self.ob", "self.ob is not None and self.ob", "self.ob is None or not self.ob", "self.ofg is None or self.ofg",
    "not (self.n > 0) or self.its", "not self.it.label() or self.b",
    "self.n", "self.s", "self.it", "self.ob", "self.b", "self.fg", "self.ofg", "len(self.s)", "self.it.label()", "self.it.twin()", "Limit", "Color.Red", "self.n + 1", "f'{self.n}'",
    "is_word(self.s)", "is_small(self.n)", "self.its[0]", "self.strs", "self.fg == True", "all(self.fg for i in self.its)", "all(self.b for i in self.its)",
    # ---- F3 call arguments: verification functions
    "takes_short(self.c)", "takes_short(self.s)", "takes_short(self.pt)", "takes_short(self.oc)", "self.oc is None or takes_short(self.oc)", "takes_short('a')",
    "takes_plain(self.pt)", "takes_plain(self.s)", "takes_plain('a')", "takes_plain(self.c)", "takes_plain(self.n)", "takes_plain(self.os)", "takes_plain(len(self.s))",
    "takes_item(self.it)", "takes_item(self.sp)", "takes_item(self.oit)", "takes_item(self.its[0])", "takes_item(self.sps[0])", "takes_item(self.its)", "takes_item(self.e)",
    "takes_item(self.it.twin())", "self.it.twin() is None or takes_item(self.it.twin())", "takes_item(self.n)", "takes_item(self.c)",
    "takes_special(self.sp)", "takes_special(self.it)", "takes_special(self.sps[0])", "takes_special(self.osp)",
    "takes_items(self.its)", "takes_items(self.sps)", "takes_items(self.oits)", "self.oits is None or takes_items(self.oits)", "takes_items(self.strs)", "takes_items(self.it)",
    "takes_opt(self.os)", "takes_opt(self.s)", "takes_opt(self.c)", "takes_opt(self.oc)", "takes_opt(self.on)", "takes_opt(self.n)", "takes_opt(self.it.twin())",
    "takes_color(self.e)", "takes_color(Color.Red)", "takes_color(Color)", "takes_color(self.s)", "takes_color(self.oe)", "takes_color(Primary)",
    "takes_float(self.fl)", "takes_float(self.n)", "takes_float(1.5)", "takes_float(1)", "takes_float(len(self.s))", "takes_float(self.n + 1)", "takes_float(self.fl + 1.5)",
    "takes_two(self.s, self.n)", "takes_two(self.n, self.s)", "takes_two(self.s, len(self.s))", "takes_two(self.s, self.fl)", "takes_two(self.os, self.on)", "takes_two(self.c, Limit)",
    "takes_flag(self.b)", "takes_flag(self.fg)", "takes_flag(self.n > 0)", "takes_flag(self.n)", "takes_flag(self.ob)", "takes_flag(is_word(self.s))",
    "takes_bytes(self.by)", "takes_bytes(self.s)", "takes_bytes(self.oby)",
    "is_small(len(self.s))", "is_small(self.n + len(self.s))", "is_small(self.fl)", "is_small(self.c)", "is_word(self.c)", "is_word(self.pt)", "is_word(Greeting)", "is_word(Words)",
    "is_word(is_word)", "is_word(len)", "is_word(self.it.label)", "is_word(self.it.label())", "is_word(f'{self.n}')", "is_small(Limit)",
    # `len`: one argument, not None; the kind of the argument is the Python transpiler's business
    "len(self.n) > 0", "len(self.it) > 0", "len(self.e) > 0", "len(Words) > 0", "len(self.b) > 0", "len(self.fl) > 0", "len(self.its) > 0", "len(self.by) > 0", "len(self.c) > 0",
    "len(self.pt) > 0", "len(self.strs) > 0", "len(self.strs[0]) > 0", "len(Color) > 0", "len(len) > 0", "len(self.it.label) > 0", "len(self.it.label()) > 0", "len(self.it.twin()) > 0",
    "len(f'{self.n}') > 0", "len(self.its[0]) > 0", "len(Greeting) > 0", "len(Limit) > 0", "len(self.oit) > 0", "self.oit is None or len(self.oit) > 0", "len(self.os) > 0",
    "self.os is None or len(self.os) > 0", "len(self.oits) > 0", "not (self.oits is not None) or len(self.oits) > 0",
    # methods
    "self.it.scaled(1) > 0", "self.it.scaled() > 0", "self.it.scaled(1, 2) > 0", "self.it.scaled(self.s) > 0", "self.it.scaled(self.on) > 0", "self.on is None or self.it.scaled(self.on) > 0",
    "self.it.scaled(len(self.s)) > 0", "self.it.scaled(self.fl) > 0", "self.it.scaled(self.n + 1) > 0", "self.it.scaled(self.it.scaled(1)) > 0", "self.it.label(1) == 'a'",
    "self.it.twin(self.it) is None", "self.sp.scaled(2) > 0", "self.sp.scaled('a') > 0", "self.it.scaled(self.c) > 0", "self.it.scaled(Limit) > 0",
    # ---- F4 membership
    "self.it in self.its", "self.n in self.its", "self.its in self.its", "self.on in self.its", "self.it in self.oits", "self.oits is None or self.it in self.oits",
    "Color.Red in self.its", "self.it.label in self.its", "len in self.its", "self.s in self.strs", "self.n in self.strs", "self.sp in self.its", "self.it in self.sps",
    "self.s in Words", "self.n in Words", "self.c in Words", "self.pt in Words", "self.e in Primary", "self.it in Primary", "self.its in Words", "self.strs in Words", "Words in Words",
    "Color in Primary", "len in Words", "self.it.label in Words", "self.b in Words", "self.by in Words", "self.it.twin() in Primary", "self.os in Words", "Color.Red in Primary",
    "self.s in self.s", "'a' in self.c", "self.c in self.s", "self.pt in self.c", "self.n in self.s", "self.by in self.s", "self.s in self.by", "self.by in self.by", "self.n in self.by",
    "self.e in self.s", "self.s in Greeting", "self.s in Limit", "self.s in self.n", "self.s in self.it", "self.s in self.e", "Color.Red in Color", "self.s in len",
    "self.s in self.it.label()", "self.s in self.it.label", "self.s in self.b", "self.s in self.fl", "self.it in self.it", "self.s in f'{self.n}'", "self.s in self.strs[0]",
]

#: guard on one access path G, use of another path U (after seeded change C07-1).  `M` / `M2`: two Optional members of
#: the same type; `pre`: what has to be known before G and U can be written at all.
CHAIN_PAIRS: List[Tuple[str, str, str, str]] = [
    ("same:member", "", "self.it.M", "self.it.M"),
    ("same:index", "", "self.its[0].M", "self.its[0].M"),
    ("same:index-1", "", "self.its[1].M", "self.its[1].M"),
    ("same:var-index", "", "self.its[self.n].M", "self.its[self.n].M"),
    ("same:expr-index", "", "self.its[self.n + 1].M", "self.its[self.n + 1].M"),
    ("suffix:other-root", "", "self.it.M", "self.it2.M"),
    ("suffix:other-root-rev", "", "self.it2.M", "self.it.M"),
    ("prefix:other-member", "", "self.it.M", "self.it.M2"),
    ("prefix:other-member-rev", "", "self.it.M2", "self.it.M"),
    ("index:0-1", "", "self.its[0].M", "self.its[1].M"),
    ("index:1-0", "", "self.its[1].M", "self.its[0].M"),
    ("index:0-2", "", "self.its[0].M", "self.its[2].M"),
    ("index:const-var", "", "self.its[0].M", "self.its[self.n].M"),
    ("index:var-const", "", "self.its[self.n].M", "self.its[0].M"),
    ("index:var-expr", "", "self.its[self.n].M", "self.its[self.n + 1].M"),
    ("index:expr-var", "", "self.its[self.n - 1].M", "self.its[self.n].M"),
    ("index:var-len", "", "self.its[self.n].M", "self.its[len(self.its) - 1].M"),
    ("index:other-list", "", "self.its[0].M", "self.its2[0].M"),
    ("index:other-list-rev", "", "self.its2[1].M", "self.its[1].M"),
    ("index:vs-member", "", "self.its[0].M", "self.it.M"),
    ("member:vs-index", "", "self.it.M", "self.its[0].M"),
    ("index:member-of-index", "", "self.its[0].M", "self.its[0].M2"),
    ("deep:suffix", "self.it.partner is not None and self.it.rival is not None", "self.it.partner.M", "self.it.rival.M"),
    ("deep:longer", "self.it.partner is not None", "self.it.M", "self.it.partner.M"),
    ("deep:shorter", "self.it.partner is not None", "self.it.partner.M", "self.it.M"),
    ("deep:index", "self.its[0].partner is not None and self.its[1].partner is not None", "self.its[0].partner.M", "self.its[1].partner.M"),
    ("opt-root:suffix", "self.oit is not None", "self.oit.M", "self.it.M"),
    ("opt-root:suffix-rev", "self.oit is not None", "self.it.M", "self.oit.M"),
]
CHAIN_MEMBERS: List[Tuple[str, str, List[str]]] = [
    ("weight", "height", ["U > 0.5", "0.5 <= U", "U + 1.5 > 0.0", 'f"{U}" == "a"']),
    ("partner", "rival", ['U.name == "a"', "U.count + 1 > 0", 'U.label() == "a"', "U == self.it"]),
]
#: method results as guarded values
METHOD_PAIRS: List[Tuple[str, str, str]] = [
    ("method:same", "self.it.twin()", "self.it.twin()"),
    ("method:other-root", "self.it.twin()", "self.it2.twin()"),
    ("method:other-root-rev", "self.it2.twin()", "self.it.twin()"),
    ("method:vs-member", "self.it.twin()", "self.it.partner"),
    ("member:vs-method", "self.it.partner", "self.it.twin()"),
    ("method:index", "self.its[0].twin()", "self.its[1].twin()"),
    ("method:loop-like", "self.its[self.n].twin()", "self.its[0].twin()"),
]
CHAIN_GUARDS: List[Tuple[str, str]] = [
    ("impl", "not (G is not None) or (B)"), ("and", "G is not None and (B)"), ("isnone-or", "G is None or (B)"),
    ("impl-and", "not (self.b and G is not None) or (B)"), ("and3", "self.b and G is not None and (B)"),
    ("or3", "self.b or G is None or (B)"), ("not-isnone-and", "not (G is None) and (B)"),
    ("nested", "not self.b or (G is not None and (B))"), ("quant", "all(G is None or (B) for q in self.its2)"),
]

#: loop variables: guard and use in the same / in a sibling / in a nested comprehension (same or other variable name,
#: same or other iterable), guards on indexed elements against uses through a loop variable.  Written for `weight`
#: (comparison operand); the member-access twin (`partner`) is derived below.
LOOPS: List[str] = [
    "all(i.weight is None or i.weight > 0.5 for i in self.its)", "all(not (i.weight is not None) or i.weight > 0.5 for i in self.its)",
    "all(i.weight is not None and i.weight > 0.5 for i in self.its)", "any(i.weight is not None and i.weight > 0.5 for i in self.its)",
    "all(not (i.weight is not None) and i.weight > 0.5 for i in self.its)", "all(i.weight > 0.5 and i.weight is not None for i in self.its)",
    "all(i.weight is not None or i.weight > 0.5 for i in self.its)", "any(not (i.weight is None) and i.weight > 0.5 for i in self.its)",
    "any(i.weight is None and i.weight > 0.5 for i in self.its)", "all(not (not (i.weight is not None)) or i.weight > 0.5 for i in self.its)",
    "all(not (self.b and not (i.weight is not None)) or i.weight > 0.5 for i in self.its)",
    # sibling comprehensions with the same variable name
    "all(i.weight is not None for i in self.its) and all(i.weight > 0.5 for i in self.its)",
    "all(i.weight is not None for i in self.its) and all(i.weight > 0.5 for i in self.its2)",
    "all(i.weight is not None and i.weight > 0.0 for i in self.its) and all(i.weight > 0.5 for i in self.its2)",
    "all(i.weight is None or i.weight > 0.0 for i in self.its) and all(i.weight > 0.5 for i in self.its2)",
    "all(not (i.weight is not None) or i.weight > 0.0 for i in self.its) and all(i.weight > 0.5 for i in self.its2)",
    "any(i.weight is not None and i.weight > 0.0 for i in self.its) or any(i.weight > 0.5 for i in self.its2)",
    "all(i.weight is None or i.weight > 0.0 for i in self.its) or all(i.weight > 0.5 for i in self.its2)",
    "not all(i.weight is not None for i in self.its) or all(i.weight > 0.5 for i in self.its)",
    "not all(i.weight is not None for i in self.its) or all(i.weight > 0.5 for i in self.its2)",
    "not any(i.weight is not None for i in self.its) or all(i.weight > 0.5 for i in self.its2)",
    "not (self.b and all(i.weight is not None for i in self.its)) or all(i.weight > 0.5 for i in self.its2)",
    "all(i.weight is None or i.weight > 0.0 for i in self.its) and all(i.weight is None or i.weight > 0.5 for i in self.its2)",
    "all(all(i.weight is None or i.weight > 0.0 for i in self.its) and all(i.weight > 0.5 for i in self.its2) for q in self.its)",
    # nested comprehensions, two variables
    "all(all(i.weight is None or j.weight > 0.5 for j in self.its2) for i in self.its)",
    "all(all(j.weight is None or i.weight > 0.5 for j in self.its2) for i in self.its)",
    "all(all(i.weight is None or j.weight is None or i.weight > j.weight for j in self.its2) for i in self.its)",
    "all(i.weight is None or all(j.weight is None or i.weight > j.weight for j in self.its2) for i in self.its)",
    "all(i.weight is None or all(i.weight > j.weight for j in self.its2) for i in self.its)",
    "all(i.weight is None or all(i.weight > 0.5 for j in self.its2) for i in self.its)",
    "all(i.weight is None or any(j.weight > 0.5 for j in self.its) for i in self.its)",
    "all(not (i.weight is not None) or all(not (j.weight is not None) or i.weight > j.weight for j in self.its) for i in self.its)",
    # loop variable against `self` chains and indexed elements
    "all(i.weight is None or self.it.weight > 0.5 for i in self.its)", "all(self.it.weight is None or i.weight > 0.5 for i in self.its)",
    "self.it.weight is None or all(self.it.weight > 0.5 for i in self.its)", "self.it.weight is None or all(i.weight > 0.5 for i in self.its)",
    "all(self.its[0].weight is None or i.weight > 0.5 for i in self.its)", "all(i.weight is None or self.its[0].weight > 0.5 for i in self.its)",
    "self.its[0].weight is None or all(i.weight > 0.5 for i in self.its)",
    "all(self.its[j].weight is None or self.its[j].weight > 0.5 for j in range(0, len(self.its)))",
    "all(self.its[j].weight is None or self.its[j + 1].weight > 0.5 for j in range(0, len(self.its) - 1))",
    "all(self.its[j + 1].weight is None or self.its[j].weight > 0.5 for j in range(0, len(self.its) - 1))",
    "all(self.its[j].weight is None or self.its2[j].weight > 0.5 for j in range(0, len(self.its)))",
    "all(self.its[j].weight is None or self.its[0].weight > 0.5 for j in range(0, len(self.its)))",
    "all(self.its[0].weight is None or self.its[j].weight > 0.5 for j in range(0, len(self.its)))",
    "all(all(self.its[j].weight is None or self.its[k].weight > 0.5 for k in range(0, len(self.its))) for j in range(0, len(self.its)))",
    "all(self.its[j].weight is None or self.its[j].weight > 0.5 for j in range(0, 3)) and all(self.its[j].weight > 0.5 for j in range(0, 3))",
    "all(self.its[self.n].weight is None or self.its[j].weight > 0.5 for j in range(0, len(self.its)))",
    # a variable named like a property
    "all(it.weight is None or self.it.weight > 0.5 for it in self.its)", "all(self.it.weight is None or it.weight > 0.5 for it in self.its)",
    "all(n.weight is None or n.weight > 0.5 for n in self.its) and self.n > 0",
    # Optional iterable / Optional range bounds in every spelling
    "not (self.oits is not None) and all(i.count > 0 for i in self.oits)", "all(i.count > 0 for i in self.oits) and self.oits is not None",
    "not (self.b and not (self.oits is not None)) or any(i.count > 0 for i in self.oits)",
    "self.oits is None or all(i.weight is None or i.weight > 0.5 for i in self.oits)",
    "self.oits is None or all(i.weight is None or i.weight > 0.5 for i in self.its) and all(i.weight > 0.5 for i in self.oits)",
    "not (self.on is not None) and all(j >= 0 for j in range(self.on, 3))", "not (not (self.on is not None)) or all(j >= 0 for j in range(0, self.on))",
    "self.on is None or all(self.its[j].weight is None or self.its[j].weight > 0.5 for j in range(0, self.on))",
    "self.on is None or all(self.its[self.on].weight is None or self.its[j].weight > 0.5 for j in range(0, self.on))",
]


def _partner_twin(text: str) -> str:
    """The same loop invariant with a member access on an Optional instance instead of a comparison of an Optional float."""
    t = re.sub(r"(\w+(?:\[[^\]]*\])?)\.weight > (\w+(?:\[[^\]]*\])?)\.weight", r"\1.partner.count > \2.partner.count", text)
    t = re.sub(r"\.weight > 0\.\d", ".partner.count > 0", t)
    return t.replace(".weight is", ".partner is")


def enumerated_invariants() -> List[Tuple[str, str]]:
    """[(label, expression source)] — seed independent."""
    out: List[Tuple[str, str]] = []
    for m1, m2, uses in CHAIN_MEMBERS:
        for name, pre, g, u in CHAIN_PAIRS:
            g_, u_ = g.replace("M2", m2).replace("M", m1), u.replace("M2", m2).replace("M", m1)
            for use in uses:
                body = use.replace("U", u_)
                for gname, gt in CHAIN_GUARDS:
                    text = gt.replace("B", "\0").replace("G", g_).replace("\0", body)
                    if pre:
                        text = f"not ({pre}) or ({text})"
                    out.append((f"chain|{name}|{m1}|{use}|{gname}", text))
    for name, g, u in METHOD_PAIRS:
        for use in ['U.name == "a"', "U.count + 1 > 0"]:
            for gname, gt in CHAIN_GUARDS:
                out.append((f"chain|{name}|{use}|{gname}", gt.replace("B", "\0").replace("G", g).replace("\0", use.replace("U", u))))
    for k, text in enumerate(LOOPS):
        out.append((f"loop|{k}|weight", text))
        twin = _partner_twin(text)
        if twin != text:
            out.append((f"loop|{k}|partner", twin))
    for kind, use in USES:
        out.append((f"{kind}|{use}|plain", use.replace("X", f"self.{kind}")))
        x = f"self.o{kind}"
        y = "self.os2" if kind != "s" else "self.on"
        body = use.replace("X", x)
        for gname, g in GUARDS:
            text = g.replace("B", "\0").replace("X", x).replace("Y", y).replace("\0", body)
            out.append((f"{kind}|{use}|opt|{gname}", text))
        # the guard on a non-optional property is itself an error
        out.append((f"{kind}|{use}|nonopt-guarded", f"not (self.{kind} is not None) or ({use.replace('X', 'self.' + kind)})"))
    for k, text in enumerate(EXTRA):
        out.append((f"extra|{k}", text))
    for k, text in enumerate(TYPING):
        out.append((f"typing|{k}", text))
    return out


# =========================================================================== building models with many invariants

class Case:
    """One invariant to be inferred: where it lives and how it was made."""

    def __init__(self, owner: str, description: str, expr: Any, stream: str, label: str) -> None:
        self.owner, self.description, self.expr, self.stream, self.label = owner, description, expr, stream, label


def attach(model: M.MM, cases: Sequence[Case]) -> M.MM:
    """A copy of `model` whose classes / constrained primitives carry exactly the invariants of `cases`."""
    m = copy.deepcopy(model)
    for t in list(m.classes) + list(m.constrained_primitives):
        t.invariants = []
    for c in cases:
        t = m.find(c.owner)
        assert t is not None, c.owner
        t.invariants.append(M.Invariant(c.description, c.expr))
    return m


def parse_or_none(text: str) -> Any:
    try:
        return mm.parse_expr(text)
    except (ValueError, SyntaxError):
        return None


# =========================================================================== random invariants and mutants

def _type_of_path(model: M.MM, cls: str, names: Sequence[str]) -> Optional[Any]:
    t: Any = R(cls)
    for n in names:
        t = M.beneath_optional(t)
        if not isinstance(t, M.Ref) or not isinstance(model.find(t.name), M.Class):
            return None
        hit = [p for p, _ in M.all_props(model, t.name) if p.name == n]
        if not hit:
            return None
        t = hit[0].type
    return t


class Sloppy:
    """Type-directed random invariants that go wrong on purpose now and then."""

    def __init__(self, model: M.MM, cls: str, rng: random.Random, sloppiness: float) -> None:
        self.m, self.cls, self.rng, self.sl = model, cls, rng, sloppiness
        self.props = [p for p, _ in M.all_props(model, cls)]

    def chance(self, p: float) -> bool:
        return self.rng.random() < p

    def kind(self, t: Any) -> str:
        t = M.beneath_optional(t)
        if isinstance(t, M.Prim):
            return t.name
        if isinstance(t, M.ListOf):
            return "list"
        target = self.m.find(t.name)
        if isinstance(target, M.Enum):
            return "enum:" + t.name
        if isinstance(target, M.ConstrainedPrimitive):
            return target.base
        return "class:" + t.name

    def atoms(self, root: Any, cls: str, depth: int = 1) -> List[Tuple[Any, Any]]:
        out: List[Tuple[Any, Any]] = []
        for p, _ in M.all_props(self.m, cls):
            e = M.Member(root, p.name)
            out.append((e, p.type))
            bt = M.beneath_optional(p.type)
            if depth > 0 and isinstance(bt, M.Ref) and isinstance(self.m.find(bt.name), M.Class):
                for q, _ in M.all_props(self.m, bt.name):
                    out.append((M.Member(e, q.name), q.type))
        return out

    def pick_atom(self, atoms: List[Tuple[Any, Any]], want: Optional[str]) -> Tuple[Any, Any]:
        fit = [a for a in atoms if want is None or self.kind(a[1]) == want]
        if fit and not self.chance(self.sl):
            return self.rng.choice(fit)
        return self.rng.choice(atoms)

    def leaf(self, atoms: List[Tuple[Any, Any]], level: int = 0) -> Tuple[Any, List[Tuple[Any, Any]]]:
        """A boolean-ish leaf and the optional atoms it uses."""
        rng = self.rng
        a, t = self.pick_atom(atoms, None)
        k = self.kind(t)
        used = [(a, t)]
        C = M.Constant
        if k == "bool":
            e: Any = a if self.chance(0.5) else M.Not(a)
        elif k == "int":
            b, tb = self.pick_atom(atoms, "int") if self.chance(0.4) else (C(rng.randint(-2, 9)), None)
            if tb is not None:
                used.append((b, tb))
            left = M.Add(a, C(1)) if self.chance(0.2) else a
            e = M.Comparison(left, rng.choice(M.COMPARATORS), b)
        elif k == "float":
            e = M.Comparison(a, rng.choice(["<", ">=", "!="]), C(rng.choice([0.0, 1.5])))
        elif k in ("str", "bytes"):
            r = rng.random()
            fns = [f for f in self.m.verification_functions if not isinstance(f, M.ImplSpecificFn)]
            if r < 0.3:
                e = M.Comparison(M.length(a), rng.choice(M.COMPARATORS), C(rng.randint(0, 5)))
            elif r < 0.5 and fns:
                e = M.FunctionCall(rng.choice(fns).name, (a,))
            elif r < 0.6 and self.m.constant_sets:
                e = M.IsIn(a, M.Name(rng.choice(self.m.constant_sets).name))
            elif r < 0.7:
                e = M.Comparison(M.JoinedStr(("x", a)), "==", C("xa"))
            else:
                e = M.Comparison(a, rng.choice(["==", "!=", "<"]), C(rng.choice(["", "a", 3])))
        elif k.startswith("enum:"):
            en = self.m.find(k[5:])
            lit = rng.choice(en.literals).name if en.literals else "Missing"
            e = M.Comparison(a, rng.choice(["==", "!="]), M.Member(M.Name(en.name), lit))
            sets = [s for s in self.m.constant_sets if s.item_type == en.name]
            if sets and self.chance(0.3):
                e = M.IsIn(a, M.Name(rng.choice(sets).name))
        elif k == "list":
            lt = M.beneath_optional(t)
            # nested generators get distinct variables (the same one twice crashes the front end: KeyError, C01 territory)
            var = rng.choice([["i", "item"], ["x", "y"], ["z"]][min(level, 2)])
            idx = ["j", "k", "l"][min(level, 2)]
            v = M.Name(var)
            it = lt.item
            r = rng.random()
            if isinstance(it, M.Ref) and isinstance(self.m.find(it.name), M.Class) and r < 0.7 and level < 2:
                inner_atoms = self.atoms(v, it.name, 0)
                if inner_atoms:
                    cond, inner_used = self.leaf(inner_atoms, level + 1)
                    cond = self.guarded(cond, inner_used)
                    q = M.All if self.chance(0.6) else M.Any_
                    if self.chance(0.2):
                        e = q(M.ForRange(idx, C(0), M.length(a)), _substitute(cond, v, M.Index(a, M.Name(idx))))
                    else:
                        e = q(M.ForEach(var, a), cond)
                else:
                    e = M.Comparison(M.length(a), ">", C(0))
            elif r < 0.85:
                e = M.Comparison(M.length(a), rng.choice(M.COMPARATORS), C(rng.randint(0, 3)))
            elif level < 2:
                e = M.All(M.ForEach(var, a), M.Comparison(v, "!=", C(0)))
            else:
                e = M.Comparison(M.length(a), "!=", C(1))
        else:  # class instance
            r = rng.random()
            if r < 0.5:
                e = M.Comparison(a, rng.choice(["==", "!=", ">"]), rng.choice([a, C(0)]))
            else:
                e = M.IsNotNone(a) if self.chance(0.5) else M.IsNone(a)
                used = []
        return e, used

    def guarded(self, body: Any, used: List[Tuple[Any, Any]]) -> Any:
        """Guard (correctly, mostly) the optional atoms and optional prefixes the body uses."""
        need: List[Any] = []
        for a, t in used:
            # optional prefixes first: self.p.q needs self.p when p is optional
            chain = []
            x = a
            while isinstance(x, M.Member):
                chain.append(x)
                x = x.instance
            for node in reversed(chain):
                names = []
                y = node
                while isinstance(y, M.Member):
                    names.append(y.name)
                    y = y.instance
                root_cls = self.cls if y == M.SELF else None
                tt = None
                if root_cls is not None:
                    tt = _type_of_path(self.m, root_cls, list(reversed(names)))
                elif node is a:
                    tt = t
                if tt is not None and M.is_optional(tt) and node not in need:
                    need.append(node)
            if not chain and M.is_optional(t) and a not in need:
                need.append(a)
        e = body
        for g in reversed(need):
            if self.chance(self.sl):
                continue  # forget the guard
            style = self.rng.choice(["impl", "and", "or", "impl-and", "or3", "not-isnone-and", "double-neg"])
            if self.chance(self.sl):
                # a wrong spelling instead of the right one
                style = self.rng.choice(["neg-and", "isnone-and", "isnotnone-or", "impl-isnone", "after", "neg-antecedent"])
            bools = [p for p in self.props if self.kind(p.type) == "bool" and not M.is_optional(p.type)]
            if style == "or3" and bools:
                e = M.Or((M.prop(self.rng.choice(bools).name), M.IsNone(g), e))
            elif style == "not-isnone-and":
                e = M.And((M.Not(M.IsNone(g)), e))
            elif style == "double-neg":
                e = M.And((M.Not(M.Not(M.IsNotNone(g))), e))
            elif style == "neg-and":
                e = M.And((M.Not(M.IsNotNone(g)), e))
            elif style == "isnone-and":
                e = M.And((M.IsNone(g), e))
            elif style == "isnotnone-or":
                e = M.Or((M.IsNotNone(g), e))
            elif style == "impl-isnone":
                e = M.Implication(M.IsNone(g), e)
            elif style == "after":
                e = M.And((e, M.IsNotNone(g)))
            elif style == "neg-antecedent":
                e = M.Implication(M.And((M.Not(M.IsNotNone(g)),) + ((M.prop(self.rng.choice(bools).name),) if bools else (M.Constant(True),))), e)
            elif style == "impl":
                e = M.Implication(M.IsNotNone(g), e)
            elif style == "and":
                e = M.And((M.IsNotNone(g), e))
            elif style == "or":
                e = M.Or((M.IsNone(g), e))
            else:
                other = [p for p in self.props if self.kind(p.type) == "bool" and not M.is_optional(p.type)]
                if other:
                    e = M.Implication(M.And((M.prop(self.rng.choice(other).name), M.IsNotNone(g))), e)
                else:
                    e = M.Implication(M.IsNotNone(g), e)
        return e

    def invariant(self, depth: int = 2) -> Any:
        atoms = self.atoms(M.SELF, self.cls)
        if not atoms:
            return M.Comparison(M.Constant(1), "==", M.Constant(1))
        if depth <= 0 or self.chance(0.4):
            e, used = self.leaf(atoms)
            return self.guarded(e, used)
        form = self.rng.choice(["and", "or", "not", "impl"])
        a, b = self.invariant(depth - 1), self.invariant(depth - 1)
        if form == "and":
            return M.And((a, b))
        if form == "or":
            return M.Or((a, b))
        if form == "not":
            return M.Not(a)
        return M.Implication(a, b)


def _rebuild(e: Any, f: Any) -> Any:
    """Bottom-up rewrite of an expression: `f(node)` after the children have been rewritten."""
    import dataclasses

    if dataclasses.is_dataclass(e) and not isinstance(e, type):
        ch = {}
        for fld in dataclasses.fields(e):
            v = getattr(e, fld.name)
            if isinstance(v, tuple):
                ch[fld.name] = tuple(_rebuild(x, f) if dataclasses.is_dataclass(x) else x for x in v)
            elif dataclasses.is_dataclass(v):
                ch[fld.name] = _rebuild(v, f)
        e = dataclasses.replace(e, **ch) if ch else e
    return f(e)


def mutants_of(model: M.MM, cls: str, e: Any, rng: random.Random) -> List[Tuple[str, Any]]:
    """Ill-typed (mostly) single-edit mutants of a well-typed invariant."""
    out: List[Tuple[str, Any]] = []
    nodes = list(M.walk_expr(e))
    props = [p for p, _ in M.all_props(model, cls)] if isinstance(model.find(cls), M.Class) else []

    def replace_once(pred: Any, new: Any, name: str) -> None:
        sites = [n for n in nodes if pred(n)]
        if not sites:
            return
        site = rng.choice(sites)
        done = [False]

        def f(x: Any) -> Any:
            if not done[0] and x == site:
                done[0] = True
                return new(x)
            return x

        m_ = _rebuild(e, f)
        if m_ != e:
            out.append((name, m_))

    # drop an `is not None` guard
    replace_once(lambda n: isinstance(n, M.Implication) and isinstance(n.antecedent, M.IsNotNone), lambda n: n.consequent, "drop-impl-guard")
    replace_once(lambda n: isinstance(n, M.And) and any(isinstance(v, M.IsNotNone) for v in n.values) and len(n.values) >= 2,
                 lambda n: (lambda vs: vs[0] if len(vs) == 1 else M.And(tuple(vs)))([v for v in n.values if not isinstance(v, M.IsNotNone)] or list(n.values)),
                 "drop-and-guard")
    replace_once(lambda n: isinstance(n, M.Or) and any(isinstance(v, M.IsNone) for v in n.values) and len(n.values) >= 2,
                 lambda n: (lambda vs: vs[0] if len(vs) == 1 else M.Or(tuple(vs)))([v for v in n.values if not isinstance(v, M.IsNone)] or list(n.values)),
                 "drop-or-guard")
    # `or` instead of `and`, and the other way round
    replace_once(lambda n: isinstance(n, M.And), lambda n: M.Or(n.values), "and-to-or")
    replace_once(lambda n: isinstance(n, M.Or), lambda n: M.And(n.values), "or-to-and")
    # guard in the consequent instead of the antecedent
    replace_once(lambda n: isinstance(n, M.Implication), lambda n: M.Implication(n.consequent, n.antecedent), "swap-impl")
    # is None <-> is not None
    replace_once(lambda n: isinstance(n, M.IsNotNone), lambda n: M.IsNone(n.value), "isnotnone-to-isnone")
    replace_once(lambda n: isinstance(n, M.IsNone), lambda n: M.IsNotNone(n.value), "isnone-to-isnotnone")
    # negated checks: the wrong ones (`not (x is not None)` where `x is not None` stood) and the equivalent respellings
    replace_once(lambda n: isinstance(n, M.IsNotNone), lambda n: M.Not(M.IsNotNone(n.value)), "negate-isnotnone")
    replace_once(lambda n: isinstance(n, M.IsNone), lambda n: M.Not(M.IsNone(n.value)), "negate-isnone")
    replace_once(lambda n: isinstance(n, M.IsNotNone), lambda n: M.Not(M.IsNone(n.value)), "isnotnone-as-not-isnone")
    replace_once(lambda n: isinstance(n, M.IsNone), lambda n: M.Not(M.IsNotNone(n.value)), "isnone-as-not-isnotnone")
    replace_once(lambda n: isinstance(n, M.IsNotNone), lambda n: M.Not(M.Not(M.IsNotNone(n.value))), "double-negation")
    # the guard talks about another element of the list than the use
    def _shift_index(x: Any) -> Any:
        return _rebuild(x, lambda y: M.Index(y.collection, M.Constant(y.index.value + 1)) if isinstance(y, M.Index) and isinstance(y.index, M.Constant) and type(y.index.value) is int else y)

    replace_once(lambda n: isinstance(n, (M.IsNotNone, M.IsNone)) and any(isinstance(y, M.Index) and isinstance(y.index, M.Constant) for y in M.walk_expr(n.value)),
                 lambda n: type(n)(_shift_index(n.value)), "guard-other-index")
    # one more conjunct / disjunct in front: n-ary operators are not implications
    replace_once(lambda n: isinstance(n, M.Implication), lambda n: M.Or((M.Constant(False), M.Not(n.antecedent), n.consequent)), "implication-as-3-or")
    # swap a property for another one of the class (other type / other optionality)
    if props:
        replace_once(lambda n: isinstance(n, M.Member) and n.instance == M.SELF,
                     lambda n: M.Member(n.instance, rng.choice(props).name), "swap-property")
        opts = [p for p in props if M.is_optional(p.type)]
        if opts:
            replace_once(lambda n: isinstance(n, M.Member) and n.instance == M.SELF, lambda n: M.Member(n.instance, rng.choice(opts).name), "to-optional-property")
            o = M.prop(rng.choice(opts).name)
            # use an Optional in len / in / comparison / f-string / arithmetic / index / method / iteration
            replace_once(lambda n: isinstance(n, M.FunctionCall) and n.name == "len", lambda n: M.length(o), "optional-in-len")
            replace_once(lambda n: isinstance(n, M.Comparison), lambda n: M.Comparison(n.left, n.op, o), "optional-in-comparison")
            replace_once(lambda n: isinstance(n, M.IsIn), lambda n: M.IsIn(o, n.container), "optional-in-isin")
            replace_once(lambda n: isinstance(n, (M.Add, M.Sub)), lambda n: type(n)(n.left, o), "optional-in-arith")
            replace_once(lambda n: isinstance(n, M.JoinedStr), lambda n: M.JoinedStr(n.values + (o,)), "optional-in-fstring")
            replace_once(lambda n: isinstance(n, M.Index), lambda n: M.Index(o, n.index), "index-optional")
            replace_once(lambda n: isinstance(n, M.ForEach), lambda n: M.ForEach(n.variable, o), "iterate-optional")
            replace_once(lambda n: isinstance(n, M.MethodCall), lambda n: M.MethodCall(M.Member(o, n.member.name), n.args), "method-on-optional")
            replace_once(lambda n: isinstance(n, M.Not), lambda n: M.Not(o), "not-optional")
            replace_once(lambda n: isinstance(n, M.Comparison), lambda n: M.Comparison(M.Member(o, "x"), n.op, n.right), "member-of-optional")
    # guard one property but use another
    if props:
        replace_once(lambda n: isinstance(n, M.IsNotNone) and isinstance(n.value, M.Member),
                     lambda n: M.IsNotNone(M.Member(n.value.instance, rng.choice(props).name)), "guard-other-property")
    # type confusion of constants
    replace_once(lambda n: isinstance(n, M.Constant) and isinstance(n.value, int) and not isinstance(n.value, bool), lambda n: M.Constant("a"), "int-to-str-constant")
    replace_once(lambda n: isinstance(n, M.Constant) and isinstance(n.value, str), lambda n: M.Constant(3), "str-to-int-constant")
    replace_once(lambda n: isinstance(n, M.Constant) and isinstance(n.value, int) and not isinstance(n.value, bool), lambda n: M.Constant(1.5), "int-to-float-constant")
    # ---- the typing rules of operands, boolean contexts and call arguments (repairs of C07-F1 … F4)
    if props:
        some = lambda: M.prop(rng.choice(props).name)  # noqa: E731 - any property: mostly of the wrong type
        replace_once(lambda n: isinstance(n, M.And) and len(n.values) >= 2, lambda n: M.And(n.values[:-1] + (some(),)), "and-operand-any-property")
        replace_once(lambda n: isinstance(n, M.Or) and len(n.values) >= 2, lambda n: M.Or((some(),) + n.values[1:]), "or-operand-any-property")
        replace_once(lambda n: isinstance(n, M.Implication), lambda n: M.Implication(n.antecedent, some()), "consequent-any-property")
        replace_once(lambda n: isinstance(n, M.Implication), lambda n: M.Implication(some(), n.consequent), "antecedent-any-property")
        replace_once(lambda n: isinstance(n, M.Not), lambda n: M.Not(some()), "not-any-property")
        replace_once(lambda n: isinstance(n, M.IsIn), lambda n: M.IsIn(n.member, some()), "isin-container-any-property")
        replace_once(lambda n: isinstance(n, M.IsIn), lambda n: M.IsIn(some(), n.container), "isin-member-any-property")
        replace_once(lambda n: isinstance(n, M.Comparison), lambda n: M.Comparison(some(), "<", n.right), "ordering-left-any-property")
        replace_once(lambda n: isinstance(n, M.Comparison), lambda n: M.Comparison(n.left, ">=", some()), "ordering-right-any-property")
        replace_once(lambda n: isinstance(n, M.FunctionCall) and len(n.args) >= 1, lambda n: M.FunctionCall(n.name, (some(),) + tuple(n.args[1:])), "call-with-any-property")
        replace_once(lambda n: isinstance(n, M.MethodCall), lambda n: M.MethodCall(n.member, tuple(n.args) + (some(),)), "method-extra-argument")
        replace_once(lambda n: isinstance(n, M.MethodCall) and len(n.args) >= 1, lambda n: M.MethodCall(n.member, tuple(n.args[1:])), "method-missing-argument")
    replace_once(lambda n: isinstance(n, M.Comparison) and n.op in ("==", "!="), lambda n: M.Comparison(n.left, "<=", n.right), "equality-to-ordering")
    replace_once(lambda n: isinstance(n, M.Comparison), lambda n: n.left, "comparison-to-its-left-operand")
    # call shapes (kept valid for the front end's argument-count check)
    replace_once(lambda n: isinstance(n, M.FunctionCall) and len(n.args) == 1, lambda n: M.FunctionCall(n.name, (M.Constant(1),)), "call-with-int")
    replace_once(lambda n: isinstance(n, M.Name) and n.identifier not in ("self",), lambda n: M.Name("Unknown_name"), "unknown-name")
    replace_once(lambda n: isinstance(n, (M.ForEach, M.ForRange)), lambda n: type(n)("self", *[getattr(n, f) for f in (("iteration",) if isinstance(n, M.ForEach) else ("start", "end"))]), "loop-variable-self")
    return out


# =========================================================================== instances (for the oracle)

INTS = [0, -1, 1, 7, 2 ** 31]
FLOATS = [0.0, -1.5, 1.5, 1e300]
STRS = ["", "a", "abc", "0", "ä"]
BYTES = [b"", b"\x00", b"abc"]


class Instances:
    """Type-conforming values (mappings for instances) from boundary sets; `None` only under Optional."""

    def __init__(self, model: M.MM, rng: random.Random) -> None:
        self.m, self.rng = model, rng
        self.env = mm.invariant_env(model)

    def value(self, t: Any, depth: int, none_bias: float) -> Any:
        rng = self.rng
        if isinstance(t, M.OptionalOf):
            if rng.random() < none_bias or depth <= 0:
                return None
            return self.value(t.item, depth, none_bias)
        if isinstance(t, M.Prim):
            return {"int": lambda: rng.choice(INTS), "float": lambda: rng.choice(FLOATS), "str": lambda: rng.choice(STRS),
                    "bool": lambda: rng.random() < 0.5, "bytes": lambda: rng.choice(BYTES)}[t.name]()
        if isinstance(t, M.ListOf):
            if depth <= 0:
                return []
            return [self.value(t.item, depth - 1, none_bias) for _ in range(rng.choice([0, 0, 1, 2, 3]))]
        target = self.m.find(t.name)
        if isinstance(target, M.Enum):
            members = list(self.env.enums[t.name])
            if not members:
                raise mm.Impossible(f"enumeration {t.name} has no literals")
            return rng.choice(members)
        if isinstance(target, M.ConstrainedPrimitive):
            return self.value(M.Prim(target.base), depth, none_bias)
        if isinstance(target, M.Class):
            return self.instance(t.name, depth - 1, none_bias)
        raise mm.Impossible(f"unknown type {t!r}")

    def instance(self, cls: str, depth: int, none_bias: float) -> Dict[str, Any]:
        c = self.m.cls(cls)
        names = ([] if c.abstract else [cls]) + M.concrete_descendants(self.m, cls)
        if not names or depth < -3:
            raise mm.Impossible(f"no concrete class for {cls}")
        name = self.rng.choice(names) if self.rng.random() < 0.5 else names[0]
        out: Dict[str, Any] = {"__class__": name}
        for p, _ in M.all_props(self.m, name):
            out[p.name] = self.value(p.type, depth, none_bias)
        # implementation-specific methods: a stub that returns a fixed value of the declared type
        for m_ in c07_targets.all_methods(self.m, name):
            if m_.name not in out:
                out[m_.name] = c07_targets.Method(None if m_.returns is None else self.value(m_.returns, depth, none_bias), self.env, [a.type for a in m_.args])
        return out

    def subject(self, owner: str, k: int) -> Any:
        """The k-th `self` for invariants of `owner`: None-heavy first, then mixed."""
        bias = [1.0, 0.0, 0.5, 0.5, 0.2, 0.8][k % 6]
        t = self.m.find(owner)
        if isinstance(t, M.ConstrainedPrimitive):
            return self.value(M.Prim(t.base), 2, bias)
        return self.instance(owner, 2, bias)


def rule_of(exc: BaseException, tb: List[traceback.FrameSummary]) -> str:
    """Name the missing typing rule from the exception and where it was raised."""
    name = type(exc).__name__
    msg = str(exc)
    inside_function = bool(tb) and tb[-1].filename != "<invariant>"
    if isinstance(exc, AttributeError) and "NoneType" in msg and not inside_function:
        return "C07:none-deref"
    if inside_function:
        return "C07:unchecked:call-argument-types"
    if isinstance(exc, TypeError) and "NoneType" in msg and "has no len()" not in msg and "expected string or bytes-like" not in msg and not msg.startswith("argument of method"):
        # `None` reached an operator: a non-None requirement of the inferrer is gone (len(None) / match(p, None) are
        # call arguments, which the inferrer never checked: C07-F3)
        op = "comparison" if "not supported between" in msg else "iteration" if "object is not iterable" in msg else \
            "isin" if ("not iterable" in msg or "in <string>" in msg) else \
            "arithmetic" if "unsupported operand" in msg else "index" if "subscriptable" in msg or "indices" in msg else "other"
        return "C07:none-operand:" + op
    if isinstance(exc, TypeError):
        if "not supported between instances" in msg:
            return "C07:unchecked:comparison-operand-types"
        if "has no len()" in msg or "positional argument" in msg or "expected string or bytes-like" in msg or msg.startswith("argument of method"):
            return "C07:unchecked:call-argument-types"
        if "is not iterable" in msg or "requires string as left operand" in msg or "unhashable" in msg or "a bytes-like object is required" in msg:
            return "C07:unchecked:isin-operand-types"
        if "is not callable" in msg:
            return "C07:unchecked:callee-type"
    return f"C07:unclassified:{name}:{msg[:60]}"


def evaluate(model: M.MM, owner: str, inv: M.Invariant, subject: Any) -> Tuple[str, Optional[str], str]:
    """(outcome class, sig or None, detail) of evaluating the ORIGINAL lambda source on one instance."""
    r = mm.eval_invariant_python(model, owner, inv, subject)
    if not mm.is_exception(r):
        if isinstance(r, bool):
            return "bool", None, repr(r)
        return "non-bool", "C07:unchecked:bool-context", f"result {r!r:.60} of type {type(r).__name__}"
    if r is IndexError:
        return "IndexError", None, "IndexError"
    # run it again to see message and raising frame
    env = mm.invariant_env(model)
    from harness.mm_inst import _View

    subj = _View(subject, env) if isinstance(subject, dict) else subject
    try:
        env.compile(inv.expr)(subj)
    except BaseException as e:  # noqa: B902
        if isinstance(e, (KeyboardInterrupt, SystemExit)):
            raise
        tb = traceback.extract_tb(e.__traceback__)
        frames = [f for f in tb if "harness" not in f.filename]
        return type(e).__name__, rule_of(e, frames), f"{type(e).__name__}: {e}"
    return "flaky", "C07:oracle-flaky", "second evaluation did not raise"


def has_method_call(model: M.MM, e: Any) -> bool:
    """Does the invariant call (or merely mention) a method?  Instances are plain mappings: no methods."""
    methods = {m_.name for c in model.classes for m_ in c.methods}
    return any(isinstance(n, M.MethodCall) or (isinstance(n, M.Member) and n.name in methods) for n in M.walk_expr(e))


def has_impl_specific_call(model: M.MM, e: Any) -> bool:
    impl = {f.name for f in model.verification_functions if isinstance(f, M.ImplSpecificFn)}
    return any(isinstance(n, M.FunctionCall) and n.name in impl for n in M.walk_expr(e))


# =========================================================================== one batch = one model

class Batch:
    def __init__(self, model: M.MM, cases: List[Case], name: str) -> None:
        self.model, self.cases, self.name = model, cases, name
        self.full: Optional[M.MM] = None
        self.source = ""
        self.real: Optional[Real] = None
        self.load_error: Optional[str] = None

    def load(self) -> None:
        self.full = attach(self.model, self.cases)
        self.source = mm.render(self.full)
        loaded = mm.load(self.source)
        if loaded.ok:
            self.real = Real(loaded.symbol_table)
        else:
            self.load_error = loaded.crash or (loaded.error or "")[:2000]


def run_batch(ctx: Ctx, b: Batch, with_model: bool, with_oracle: bool, n_instances: int) -> None:
    b.load()
    if b.real is None:
        # the front end proper rejected (or crashed on) the model: only the contract checker may do that here
        ctx.hit("batch:front-end-rejected")
        ctx.note(f"batch {b.name}: front end rejected the model: {str(b.load_error)[:300]}")
        ctx.disagree("load", {"batch": b.name, "source": b.source[:4000]}, b.load_error, "accepted (every case passes the modelled contract check)")
        return
    real = b.real
    full = b.full
    assert full is not None
    reqs: List[str] = []
    recs: List[Tuple[Case, Any, Dict[str, Any], List[str]]] = []
    for c in b.cases:
        inv = real.invariant(c.owner, c.description)
        out = real.infer(c.owner, inv)
        wire = expr_wire.enc(mm.expr_from_project_tree(inv.body))
        recs.append((c, inv, out, real.canon(inv)))
        reqs.append(f"infer {real.decls} {enc_text(c.owner)} {wire}")
        reqs.append(f"canon {wire}")
        reqs.append(f"contract {real.decls} {wire}")
        reqs.append(f"accept {real.decls} {enc_text(c.owner)} {wire}")
    reqs.append(f"wf {real.decls}")
    answers = ctx.model(reqs) if with_model else []
    if with_model:
        ctx.hit("decls-wf:" + str(answers[-1]))
        if answers[-1] != "1":
            # the hypothesis `Decls.WF` of the theorems does not hold of the declarations of a REAL symbol table
            ctx.disagree("decls-wf", {"batch": b.name, "source": b.source[:4000]}, "a symbol table of the front end", f"Decls.wfb = {answers[-1]}")
    inst = Instances(full, random.Random(ctx.rng.getrandbits(32)))
    targets = c07_targets.Targets(full)
    subjects: Dict[Tuple[str, int], Any] = {}
    for k, (c, inv, out, canon_real) in enumerate(recs):
        src = M.render_expr(c.expr)
        ctx.count((b.name if c.stream != "enumerated" else "fixed", c.owner, src), nontrivial=True, stream=c.stream)
        ctx.hit("verdict:" + out["verdict"])
        if out["verdict"] == "err":
            for kd in out["kinds"]:
                ctx.hit("err:" + kd)
            if "?" in out["kinds"]:
                ctx.note(f"unclassified inferrer message: {out['messages']}")
        if k % 211 == 0:
            ctx.sample({"stream": c.stream, "label": c.label, "owner": c.owner, "invariant": src, "inferrer": {kk: v for kk, v in out.items() if kk != "tmap"}})
        def witness(c: Case = c) -> Dict[str, Any]:
            return {"source": b.source if len(b.cases) <= 3 else mm.render(attach(b.model, [c])), "owner": c.owner, "description": c.description}

        # the Python generator's verdict on an invariant that passed the inference (the transpiler's own check of `len`)
        py = real.accepts_py(c.owner, inv) if out["verdict"] == "ok" else None
        if py is not None:
            ctx.hit("python-generator:" + ("accepted" if py["ok"] else "len-kind" if py["len_kind"] else "other-rejection"))
            if not py["ok"] and not py["len_kind"]:
                ctx.note(f"python transpiler rejects `{src}`: {py['messages'][:2]}")
        if with_model:
            a_inf, a_can, a_con, a_acc = answers[4 * k], answers[4 * k + 1], answers[4 * k + 2], answers[4 * k + 3]
            ctx.traces_validated += 1
            if not model_answer_agrees(out, a_inf):
                ctx.disagree("infer:" + c.stream, dict(witness(), invariant=src, label=c.label), out, a_inf)
            # `acceptsPy` (inference + the transpiler's check of `len`) and the side conditions of the theorem
            acc_parts = a_acc.split("|")
            if len(acc_parts) != 3:
                ctx.disagree("accept:" + c.stream, dict(witness(), invariant=src), "a verdict", a_acc)
            else:
                verdict_m, nofn, wf_ = acc_parts
                if wf_ != "1":
                    ctx.disagree("accept:" + c.stream, dict(witness(), invariant=src), "a parsed expression (and/or have operands)", a_acc)
                if py is not None and not py["ok"] and not py["len_kind"]:
                    # rejected by a check of the transpiler that is not about types (e.g. the name `len` used as a value):
                    # not modelled, and not accepted — nothing to compare, nothing to evaluate
                    ctx.hit("accept:transpiler-other-rejection")
                elif py is not None:
                    want_ok = not py["len_kind"]
                    if verdict_m.startswith("ok") != want_ok or (not want_ok and set(verdict_m[4:].split(";")) != {"lenKind"}):
                        ctx.disagree("accept:" + c.stream, dict(witness(), invariant=src, label=c.label), {"inferrer": "ok", "python transpiler": py["messages"][:3]}, a_acc)
                    if py["ok"]:
                        ctx.hit("theorem:" + ("covered" if nofn == "1" else "function-used-as-value"))
                elif verdict_m.startswith("ok"):
                    ctx.disagree("accept:" + c.stream, dict(witness(), invariant=src, label=c.label), out, a_acc)
            # canonical strings: equality classes always, the strings themselves when no string constant is involved
            from harness.core import dec_list

            canon_model = dec_list(a_can) if a_can != "bad-op" else None
            if canon_model is None or len(canon_model) != len(canon_real):
                ctx.disagree("canon:" + c.stream, dict(witness(), invariant=src), canon_real, canon_model)
            else:
                cls_r = [canon_real.index(s) for s in canon_real]
                cls_m = [canon_model.index(s) for s in canon_model]
                plain = not any(isinstance(n, M.Constant) and isinstance(n.value, (str, float)) for n in M.walk_expr(c.expr)) and \
                    not any(isinstance(n, M.JoinedStr) for n in M.walk_expr(c.expr))
                if cls_r != cls_m or (plain and canon_real != canon_model):
                    ctx.disagree("canon:" + c.stream, dict(witness(), invariant=src), canon_real, canon_model)
            coll = real.canon_collision(inv)
            if coll is not None:
                ctx.disagree("canon-injective:" + c.stream, dict(witness(), invariant=src), {"same key": coll[0], "expressions": coll[1:]}, "equal keys only for expressions of equal value (hypothesis KeySound of none_safety)")
            if a_con != "0" and isinstance(full.find(c.owner), M.Class):  # only class invariants are contract-checked
                # the model loaded, so the real contract checker found nothing
                ctx.disagree("contract:" + c.stream, dict(witness(), invariant=src), 0, a_con)
        # ---- the direct oracle
        if with_oracle and py is not None and py["ok"]:
            if has_impl_specific_call(full, c.expr):
                ctx.hit("oracle:skipped-implementation-specific")
                continue
            if has_method_call(full, c.expr):
                ctx.hit("oracle:with-method-stubs")
            inv_m = M.Invariant(c.description, mm.expr_from_project_tree(inv.body))
            seen_sigs = set()

            def all_subjects() -> Iterator[Any]:
                # targeted first: every combination of `None` on the Optional access paths the invariant mentions
                n_t = 0
                for _, subject in targets.subjects(c.owner, inv_m.expr):
                    n_t += 1
                    yield subject
                ctx.hit("oracle:targeted-subjects", n_t)
                for j in range(n_instances):
                    try:
                        if (c.owner, j) not in subjects:
                            subjects[(c.owner, j)] = inst.subject(c.owner, j)
                        yield subjects[(c.owner, j)]
                    except mm.Impossible:
                        ctx.hit("oracle:no-instance")
                        return

            for subject in all_subjects():
                cls_, sig, detail = evaluate(full, c.owner, inv_m, subject)
                ctx.hit("eval:" + cls_)
                if sig is not None and sig not in seen_sigs:
                    seen_sigs.add(sig)
                    ctx.fail(dict(witness(), invariant=src, instance=show_instance(subject)),
                             f"accepted invariant `{src}` on a type-conforming instance: {detail}", sig)


def show_instance(v: Any) -> Any:
    import enum

    if isinstance(v, c07_targets.Method):
        return {"__method__": show_instance(v._ret)}
    if isinstance(v, dict):
        return {k: show_instance(x) for k, x in v.items()}
    if isinstance(v, list):
        return [show_instance(x) for x in v]
    if isinstance(v, enum.Enum):
        return {"__enum__": type(v).__name__, "name": v.name}
    if isinstance(v, (bytes, bytearray)):
        return {"__bytes__": bytes(v).hex()}
    if isinstance(v, float):
        return {"__float__": repr(v)}
    return v


def unshow_instance(model: M.MM, v: Any) -> Any:
    env = mm.invariant_env(model)
    if isinstance(v, dict):
        if "__enum__" in v:
            return getattr(env.enums[v["__enum__"]], v["name"])
        if "__bytes__" in v:
            return bytes.fromhex(v["__bytes__"])
        if "__float__" in v:
            return float(v["__float__"])
        if "__method__" in v:
            return c07_targets.Method(unshow_instance(model, v["__method__"]), env)
        return {k: unshow_instance(model, x) for k, x in v.items()}
    if isinstance(v, list):
        return [unshow_instance(model, x) for x in v]
    return v


# =========================================================================== streams

RANDOM_FEATURES = dict(joined_str_in_invariants=True, guards_on_other_property=True, tautologies_after_narrowing=True,
                       len_of_bytes=True, len_of_constrained=True, arithmetic_on_constrained=True, lists_of_non_classes=True,
                       nested_lists=True, impl_specific=True)


def contract_ok(model: M.MM, e: Any) -> bool:
    """The harness' own reading of `_ContractChecker` (to keep a whole batch loadable)."""
    fns = {f.name: len(f.args) if not isinstance(f, M.PatternFn) else 1 for f in model.verification_functions}
    for n in M.walk_expr(e):
        if isinstance(n, M.FunctionCall):
            want = fns.get(n.name, 1 if n.name == "len" else None)
            if want is None or want != len(n.args):
                return False
    return True


def enumerated_batches() -> Tuple[List[Batch], List[Tuple[str, str]]]:
    model = fixed_mm()
    cases: List[Case] = []
    rejected_by_contract: List[Tuple[str, str]] = []
    unparsable = 0
    for k, (label, text) in enumerate(enumerated_invariants()):
        e = parse_or_none(text)
        if e is None:
            unparsable += 1
            continue
        if not contract_ok(model, e):
            rejected_by_contract.append((label, text))
            continue
        cases.append(Case("Holder", f"Enumerated {k}: {label}.", e, "enumerated", label))
    # constrained primitive and subclass contexts
    for k, text in enumerate(["len(self) > 0", "self == 'a'", "self.x > 0", "self is None", "is_word(self)", "self < 3", "self(1)", "Limit(1)", "not self", "self + 1 > 0",
                              # the front end does not count the arguments of calls in the invariants of constrained primitives: the inferrer does
                              "len() > 0", "len(self, self) > 0", "is_word()", "is_word(self, self)", "is_small(self)", "takes_short(self)", "takes_plain(self)", "takes_two(self)",
                              "takes_two(self, len(self))", "takes_two(self, 1, 2)", "self < 'a'", "self in self", "self in Words", "'a' in self", "self", "self and self", "len(self)"]):
        e = parse_or_none(text)
        if e is not None:
            cases.append(Case("Short_text", f"Enumerated cp {k}.", e, "enumerated", f"cprim|{text}"))
    for k, text in enumerate(["self.extra == self.name", "self.remark is None or self.extra == self.remark", "self.twin() is None or self.twin().count > 0", "self.scaled(1) > self.count"]):
        e = parse_or_none(text)
        if e is not None:
            cases.append(Case("Special_item", f"Enumerated sub {k}.", e, "enumerated", f"subclass|{text}"))
    size = 1100
    return [Batch(model, cases[k:k + size], f"fixed-{k // size}") for k in range(0, len(cases), size)], rejected_by_contract


def random_batches(ctx: Ctx, n_models: int, per_class: int) -> Iterator[Batch]:
    for k in range(n_models):
        rng = random.Random(ctx.rng.getrandbits(64))
        ft = mm.Features(**RANDOM_FEATURES)
        model = mm.random_mm(rng, size=rng.choice([3, 4, 5]), features=ft)
        cases: List[Case] = []
        counter = [0]

        def add(owner: str, e: Any, stream: str, label: str) -> None:
            if not contract_ok(model, e):
                return
            try:
                text = M.render_expr(e)
                ast.parse(text, mode="eval")
            except (SyntaxError, AssertionError, ValueError, TypeError):
                return
            counter[0] += 1
            cases.append(Case(owner, f"Check number {counter[0]} holds.", e, stream, label))

        for t in list(model.classes) + list(model.constrained_primitives):
            own = [inv.expr for inv in t.invariants]
            for e in own:
                add(t.name, e, "random-welltyped", "random_mm")
                for name, m_ in mutants_of(model, t.name, e, rng):
                    add(t.name, m_, "mutant", name)
            if isinstance(t, M.Class):
                for sl in (0.0, 0.15, 0.4):
                    s = Sloppy(model, t.name, rng, sl)
                    for _ in range(per_class):
                        e = s.invariant(2)
                        add(t.name, e, f"sloppy-{sl}", "sloppy")
                        if sl == 0.0:
                            for name, m_ in mutants_of(model, t.name, e, rng)[:6]:
                                add(t.name, m_, "mutant", name)
        yield Batch(model, cases, f"random-{k}")


def contract_stream(ctx: Ctx) -> None:
    """Models with ONE invariant each that the front end's `_ContractChecker` must reject — or accept."""
    model = fixed_mm()
    texts = ["len(self.s, self.s) > 0", "len() > 0", "is_word() ", "is_word(self.s, self.s)", "is_small(self.n, 1)", "unknown_fn(self.s)",
             "unknown_fn(len(self.s, self.s))", "len(len()) > 0", "all(unknown_fn(i) for i in self.its)", "self.it.scaled() > 0", "self.it.scaled(1, 2, 3) > 0",
             f'f"{{len()}}" == "a"', "not (len() > 0) or is_word()", "self.its[len()].count > 0", "all(i > 0 for i in range(len(), len(self.s)))",
             "len(self.s) > 0 and is_word(self.s)"]
    reqs, metas = [], []
    base = Batch(model, [], "contract-base")
    base.load()
    assert base.real is not None, base.load_error
    decls = base.real.decls
    for text in texts:
        e = parse_or_none(text)
        if e is None:
            continue
        b = Batch(model, [Case("Holder", "Check the contract.", e, "contract", text)], "contract")
        b.load()
        accepted = b.real is not None
        n_real = 0 if accepted else len(re.findall(r"Expected exactly \d+ arguments|we do not know how many arguments", str(b.load_error)))
        metas.append((text, b, accepted, n_real))
        reqs.append(f"contract {decls} {expr_wire.enc(e)}")
    answers = ctx.model(reqs)
    for (text, b, accepted, n_real), a in zip(metas, answers):
        ctx.count(("contract", text), stream="contract")
        ctx.hit("contract:" + ("accepted" if accepted else "rejected"))
        ctx.traces_validated += 1
        if (a == "0") != accepted or (not accepted and b.load_error and not str(b.load_error).startswith("crash") and str(n_real) != a):
            ctx.disagree("contract", {"invariant": text, "source": b.source}, {"accepted": accepted, "errors": n_real, "text": str(b.load_error)[:300]}, a)


# =========================================================================== corpus / witnesses

def run_witness(ctx: Ctx, w: Dict[str, Any], with_model: bool) -> Dict[str, Any]:
    """A recorded witness: source + owner + description (+ instance).  End to end: the REAL python
    generator must accept the model (rc 0), then the invariant is evaluated on the instance."""
    res: Dict[str, Any] = {}
    loaded = mm.load(w["source"])
    if not loaded.ok:
        res["front_end"] = loaded.crash or loaded.error
        return res
    real = Real(loaded.symbol_table)
    inv = real.invariant(w["owner"], w["description"])
    out = real.infer(w["owner"], inv)
    res["inferrer"] = {k: v for k, v in out.items() if k != "tmap"}
    if with_model:
        wire = expr_wire.enc(mm.expr_from_project_tree(inv.body))
        ans = ctx.model([f"infer {real.decls} {enc_text(w['owner'])} {wire}"])[0]
        res["model"] = ans[:200]
        res["model_agrees"] = model_answer_agrees(out, ans)
    if w.get("end_to_end", False):
        r = mm.generate("python", w["source"], ctx.scratch() / f"gen{len(res)}{abs(hash(w['description'])) % 10000}")
        res["generate_python_rc"] = r.rc
    py = real.accepts_py(w["owner"], inv) if out["verdict"] == "ok" else None
    if py is not None:
        res["python_transpiler"] = py
    if py is not None and py["ok"] and "instance" in w:
        model = model_from_source(loaded.symbol_table, w)
        inv_m = M.Invariant(w["description"], mm.expr_from_project_tree(inv.body))
        cls_, sig, detail = evaluate(model, w["owner"], inv_m, unshow_instance(model, w["instance"]))
        res["oracle"] = {"outcome": cls_, "sig": sig, "detail": detail}
    return res


def model_from_source(symbol_table: Any, w: Dict[str, Any]) -> M.MM:
    """An abstract model good enough for `eval_invariant_python`: enumerations, constants, functions of the REAL symbol table."""
    from aas_core_codegen import intermediate as I

    m = M.MM()
    for t in symbol_table.our_types:
        if isinstance(t, I.Enumeration):
            m.enums.append(M.Enum.of(str(t.name), [(str(l.name), l.value) for l in t.literals]))
        elif isinstance(t, I.ConstrainedPrimitive):
            m.constrained_primitives.append(M.ConstrainedPrimitive(str(t.name), {"bytearray": "bytes"}.get(t.constrainee.value, t.constrainee.value)))
        else:
            m.classes.append(M.Class(str(t.name)))
    for c in symbol_table.constants:
        if isinstance(c, I.ConstantPrimitive):
            m.constants.append(M.ConstantPrimitive(str(c.name), {"bytearray": "bytes"}.get(c.a_type.value, c.a_type.value), c.value))
        elif isinstance(c, I.ConstantSetOfPrimitives):
            m.constant_sets.append(M.ConstantSet(str(c.name), c.a_type.value, [l.value for l in c.literals]))
        else:
            m.constant_sets.append(M.ConstantSet(str(c.name), str(c.enumeration.name), [str(l.name) for l in c.literals]))
    for f in symbol_table.verification_functions:
        if isinstance(f, I.PatternVerification):
            m.verification_functions.append(M.PatternFn.simple(str(f.name), f.pattern))
        elif isinstance(f, I.TranspilableVerification):
            body = [mm.expr_from_project_tree(s) for s in f.parsed.body]
            m.verification_functions.append(M.TranspilableFn(str(f.name), [M.Arg(str(a.name), P("str")) for a in f.arguments], P("bool"), body))
    return m


# =========================================================================== entry points

def _run(ctx: Ctx, with_model: bool) -> None:
    # corpus first
    for w in corpus(ID):
        res = run_witness(ctx, w, with_model)
        ctx.count(("corpus", w.get("id")), stream="corpus")
        ctx.hit("corpus:" + str(w.get("expect", {}).get("sig")))
        exp = w.get("expect", {})
        if "front_end" in res:
            ctx.fail({"witness": w.get("id")}, f"corpus model no longer loads: {str(res['front_end'])[:200]}", "C07:corpus-broken")
            continue
        if with_model and not res.get("model_agrees", True):
            ctx.disagree("infer:corpus", {"witness": w.get("id"), "source": w["source"], "owner": w["owner"], "description": w["description"]}, res["inferrer"], res.get("model"))
        if exp.get("verdict") and res["inferrer"]["verdict"] != exp["verdict"]:
            # a recorded rejection that is now accepted is decided by the oracle below (if it fails at run time)
            ctx.note(f"corpus {w.get('id')}: inferrer verdict {res['inferrer']['verdict']} (recorded {exp['verdict']})")
        o = res.get("oracle")
        if o and o["sig"] is not None:
            ctx.fail({"witness": w.get("id"), "source": w["source"], "owner": w["owner"], "description": w["description"], "instance": w["instance"]},
                     f"accepted invariant of witness {w.get('id')}: {o['detail']}", o["sig"])
        if w.get("end_to_end") and res.get("generate_python_rc") != 0 and res.get("python_transpiler", {}).get("ok"):
            ctx.note(f"corpus {w.get('id')}: python generator rc {res.get('generate_python_rc')} although the invariant is transpiled")
    n_inst = ctx.n(18, 50)
    batches, by_contract = enumerated_batches()
    for b in batches:
        run_batch(ctx, b, with_model, True, n_inst)
    if with_model:
        contract_stream(ctx)
    for b in random_batches(ctx, ctx.n(4, 60), ctx.n(5, 10)):
        run_batch(ctx, b, with_model, True, n_inst)


def correspond(ctx: Ctx) -> None:
    ctx.extra_cov["rule"] = (
        "one evaluation = one invariant inferred by the real _Inferrer (with self typed by its owner) and by the Lean model: verdict, number "
        "and kind of errors, the whole type_map, the canonical strings of all sub-expressions, the verdict of the real Python transpiler on the invariant "
        "(its check of the argument of len) against acceptsPy; streams: corpus, enumerated (every expression "
        "form x Optional/non-Optional x 69 guard spellings, 28 guard-path/use-path pairs x 9 spellings, 115 loop-variable invariants, ~400 invariants for every branch "
        "of the typing rules of ordering comparisons / boolean contexts / call arguments / membership on a fixed model, seed independent), invariants of mm.random_mm models, their "
        "single-edit mutants, type-directed sloppy random invariants, one-invariant models for the front end's argument-count check; "
        "distinct by (model, owner, invariant source)"
    )
    ctx.assumptions.append("C07: Python semantics of the invariant language (Model/Expr/Eval.lean) is validated by C08's correspondence, not verified")
    ctx.assumptions.append("C07: KeySound canon (sub-expressions with equal canonical strings have equal values) is validated on every invariant (stream canon-injective), not proved")
    ctx.assumptions.append("C07: the theorem `sound` excludes invariants that use a function / bound method as a first-class value (noFnValuesB = 0, counted as theorem:function-used-as-value); the oracle evaluates them in CPython")
    _run(ctx, True)


def oracle(ctx: Ctx) -> None:
    # the oracle runs inside `_run` on every accepted invariant; alone when the driver is unavailable or while searching
    if not ctx.driver_ok or ctx.searching:
        _run(ctx, False)


def replay(ctx: Ctx, data: Dict[str, Any]) -> Any:
    inp = data["failure"]["input"] if "failure" in data else data
    if "witness" in inp and "source" not in inp:
        for w in corpus(ID):
            if w.get("id") == inp["witness"]:
                inp = w
    w = dict(inp)
    w.setdefault("end_to_end", True)
    return run_witness(ctx, w, ctx.driver_ok)
