"""
C21 oracle: duplicate declarations in GENERATED code, found by reading the generated files only.

Two distinct meta-model names may be converted to the same target-language name.  If the generator
does not report an error, the output declares the same name twice in one scope.  This module finds
such places without using any of the project's naming functions:

* python      ``ast``: names declared by the direct children of every module / class body (not of
              ``if`` / ``try`` blocks; ``@overload`` / ``@x.setter`` functions are skipped).  A file
              that parses but does not compile (``def f(a, a)``) is reported as ``unparsable`` too.
* csharp, java, typescript, cpp, golang
              a small generic scanner (``_scan_braces``): comments are removed, the contents of
              string / char literals are blanked, then the text is walked with a stack of
              ``{``-blocks.  The text since the last statement end (the *head*) is classified when
              a ``{``, ``;`` (or a terminating newline in Go / TypeScript) is met: type declaration
              (opens a class / interface / enum / struct body; namespaces are ``module`` scope and
              merged per file), function (identity key = name + normalised parameter text, plus
              ``const`` in C++), or variable / field / property / constant.  Function bodies,
              initialisers, lambdas, accessor blocks are skipped wholesale, so locals never count.
* jsonschema  duplicate keys of any JSON object (``object_pairs_hook``), duplicate items of a
              ``required`` list (scope ``required``, decl ``element``: the only trace that a schema
              built from Python dicts can show), plus ``json_keys`` for counting.
* xsd         duplicate ``name`` among same-tag children of the root, simpleType/complexType symbol
              space, duplicate ``xs:element`` names inside a sequence / choice / all, plus
              ``xsd_names`` for counting.

Duplicate rule (brace languages): funcs collide on equal keys only (overloading), a bodiless
prototype / overload signature never collides with an implementation of the same key; non-funcs
collide by name irrespective of kind; a func never collides with a non-func.  In Go (no overloading)
funcs collide on ``Receiver.Name`` irrespective of the parameters.  Python: by name, any kind.

Limits: this is a heuristic tokenizer, not a parser.  No preprocessor evaluation (both branches of
an ``#if`` are seen), no macro expansion; TypeScript automatic semicolon insertion is approximated;
regex literals in TypeScript are not recognised; TypeScript ``type X = {..}`` bodies, anonymous
classes and Go ``type ( .. )`` groups / inline struct types are not descended into; several
declarators in one statement (``int a, b;``) yield only the last name (except in Go); C++
``T name(args);`` at namespace level is a prototype unless the arguments start with a literal;
duplicate parameter names are not looked for.  Files overwritten by a later file of the same name
(Java: one file per type) cannot be seen from the output at all.
"""
from __future__ import annotations

import ast
import json
import pathlib
import posixpath
import re
import xml.etree.ElementTree as ET
from typing import Any, Callable, Dict, Iterator, List, Optional, Tuple

_EXT = {"python": (".py",), "csharp": (".cs",), "golang": (".go",), "java": (".java",),
        "typescript": (".ts",), "cpp": (".cpp", ".hpp", ".h", ".cc"), "jsonschema": (".json",),
        "xsd": (".xsd",)}


class _Scope:
    """One scanned block: ``decls`` = [(decl kind, name, key, has body)]."""
    __slots__ = ("path", "kind", "name", "decls", "flat", "lang", "enum_open", "group")

    def __init__(self, path: str, kind: str, name: str, lang: str = "") -> None:
        self.path, self.kind, self.name, self.lang = path, kind, name, lang
        self.decls: List[Tuple[str, str, str, bool]] = []
        self.flat = False            # python: everything collides by name
        self.enum_open = kind == "enum-body"
        self.group = ""              # Go ``const (`` / ``var (`` group keyword

    def add(self, decl: str, name: str, key: Optional[str] = None, bodied: bool = False) -> None:
        self.decls.append((decl, name, name if key is None else key, bodied))

    def dups(self) -> List[Tuple[str, str]]:
        res: List[Tuple[str, str]] = []
        seen_names, seen_funcs = set(), set()
        go = self.lang == "golang"
        ident: Callable[[str], str] = (lambda k: k.split("(", 1)[0]) if go else (lambda k: k)
        bodied = {ident(k) for d, _, k, b in self.decls if d == "func" and b}
        for decl, name, key, has_body in self.decls:
            if decl == "func" and not self.flat:
                key = ident(key)
                if not has_body and key in bodied:
                    continue  # prototype or overload signature of an implementation
                (res.append((decl, name)) if key in seen_funcs else seen_funcs.add(key))
            else:
                (res.append((decl, name)) if name in seen_names else seen_names.add(name))
        return res


# ------------------------------------------------------------------------------------- python


def _py_skip(fn: ast.AST) -> bool:
    for d in getattr(fn, "decorator_list", []):
        d = d.func if isinstance(d, ast.Call) else d
        last = d.attr if isinstance(d, ast.Attribute) else getattr(d, "id", "")
        if last in ("overload", "setter", "deleter", "getter", "register"):
            return True
    return False


def _scan_python(text: str) -> List[_Scope]:
    scopes: List[_Scope] = []

    def targets(t: ast.AST) -> List[str]:  # ``a``, ``a, b``; not ``a.b``, ``a[0]``
        return [n.id for n in ast.walk(t)
                if isinstance(n, ast.Name) and isinstance(n.ctx, ast.Store)]

    def body(nodes: List[ast.stmt], path: str, kind: str, name: str) -> None:
        sc = _Scope(path, kind, name, "python")
        sc.flat = True
        scopes.append(sc)
        var = "literal" if kind == "enum-body" else "var"
        for node in nodes:
            if isinstance(node, (ast.FunctionDef, ast.AsyncFunctionDef)):
                if not _py_skip(node):
                    sc.add("func", node.name)
            elif isinstance(node, ast.ClassDef):
                sc.add("type", node.name)
                is_enum = any("Enum" in (getattr(n, "id", "") or getattr(n, "attr", ""))
                              for b in node.bases for n in ast.walk(b))
                body(node.body, f"{path}/{node.name}" if path else node.name,
                     "enum-body" if is_enum else "class-body", node.name)
            elif isinstance(node, ast.Assign):
                for t in node.targets:
                    for n in targets(t):
                        sc.add(var, n)
            elif isinstance(node, ast.AnnAssign):
                for n in targets(node.target):
                    sc.add(var, n)

    tree = ast.parse(text)
    body(tree.body, "", "module", "")
    try:  # e.g. ``def __init__(self, some_url, some_url)`` parses, but does not compile
        compile(tree, "<generated>", "exec", dont_inherit=True)
    except Exception as e:  # noqa: BLE001
        bad = _Scope("<compile>", "unparsable", "", "python")
        bad.flat = True
        bad.decls = [("file", type(e).__name__, "", False)] * 2  # reported once as a "duplicate"
        scopes.append(bad)
    return scopes


# ------------------------------------------------------------------- brace languages: cleaning

_LINE_C, _BLOCK_C = r"//[^\n]*", r"/\*.*?\*/"
_DQ = r'"(?:\\.|[^"\\\n])*"'
_SQ_STR = r"'(?:\\.|[^'\\\n])*'"
_SQ_CHR = r"'(?:\\[^\n']{1,10}|[^'\\\n])'"
_VERB = r'(?:\$@|@\$|@)"(?:""|[^"])*"'
_RAW = r'R"(?P<d>[^()\\\s]{0,16})\(.*?\)(?P=d)"'
_PP = r"#[^\n]*(?:\\\n[^\n]*)*"  # '#' occurs only in preprocessor lines outside literals
_CLEAN = {
    "csharp": [_LINE_C, _BLOCK_C, _PP, _VERB, _DQ, _SQ_CHR],
    "java": [_LINE_C, _BLOCK_C, r'"""[\s\S]*?"""', _DQ, _SQ_CHR],
    "typescript": [_LINE_C, _BLOCK_C, _DQ, _SQ_STR, r"`(?:\\.|[^`\\])*`"],
    "golang": [_LINE_C, _BLOCK_C, _DQ, r"`[^`]*`", _SQ_CHR],
    "cpp": [_LINE_C, _BLOCK_C, _PP, _RAW, _DQ, _SQ_CHR],
}
_CLEAN_RE = {k: re.compile("|".join(f"(?:{p})" for p in v), re.S) for k, v in _CLEAN.items()}


def _blank(m: "re.Match[str]") -> str:
    s = m.group(0)
    if s[0] not in "/#":
        s = s[1:-1]
    res = "\n".join([" " * len(ln) for ln in s.split("\n")]) if "\n" in s else " " * len(s)
    return res if len(res) == len(m.group(0)) else f'"{res}"'


def _clean(lang: str, text: str) -> str:
    """Same length, same line structure; comments gone, literal contents blank."""
    return _CLEAN_RE[lang].sub(_blank, text)


# ------------------------------------------------------------------ brace languages: heads

_ID = r"[A-Za-z_$][\w$]*"
_OPERATOR = re.compile(r"\boperator\s*(\(\s*\)|\[\s*\]|[^\w\s(\[]+)")
_LEAD_ATTR = {
    "csharp": re.compile(r"\s*\[[^\[\]]*\]"),
    "cpp": re.compile(r"\s*(?:\[\[.*?\]\]|(?:public|private|protected)\s*:(?!:))", re.S),
    "java": re.compile(r"\s*@(?!interface\b)[\w.]+(?:\s*\((?:[^()]|\([^()]*\))*\))?"),
    "typescript": re.compile(r"\s*@[\w.]+(?:\s*\((?:[^()]|\([^()]*\))*\))?"),
}
_TYPE_KW = re.compile(
    r"(?<![\w.$@])(class|interface|struct|union|record|enum(?:\s+(?:class|struct))?|namespace|type)"
    r"(?:\s+((?:" + _ID + r"(?:::|\.))*" + _ID + r")(?![\w$])|(?=\s*$))")
_BODY_OF = {"class": "class-body", "record": "class-body", "interface": "interface-body",
            "struct": "struct-body", "union": "struct-body", "namespace": "module"}
_FUNC_NAME = re.compile(r"((?:[\w$~]+::)*[\w$~]+)\s*$")
_VAR_NAME = re.compile(r"[\w$>\]?*&]\s*[\s*&]\s*((?:[\w$]+::)*" + _ID + r")\s*(?:\[[^\]]*\]\s*)*$")
_TS_MODS = (r"(?:(?:export|declare|default|const|let|var|public|private|protected|static|readonly|"
            r"abstract|override|async|function)\b\s*)*")
_TS_VAR = re.compile(r"^(" + _TS_MODS + r")(" + _ID + r")\s*[?!]?\s*(?::|$)")
_CTRL_KW = frozenset(
    "if for foreach while switch catch using lock fixed return new throw else do try synchronized "
    "function sizeof typeof await yield static_assert alignas decltype noexcept super this delete "
    "assert static unsafe checked finally namespace import export".split())
_STMT_KW = frozenset(
    "return throw import package goto break continue yield delete friend new else case await "
    "export using typedef template".split())
_CPP_LITERAL_ARGS = re.compile(r"\s*(?:[LuU]8?)?[\"'\d]")
_WS_PUNCT = re.compile(r"\s*([(),<>\[\]])\s*")


def _norm(s: str) -> str:
    return _WS_PUNCT.sub(r"\1", " ".join(s.split()))


_ANGLE_TOK = re.compile(r"[()\[\]<>;{}]|&&|\|\|")
_LHS_TOK = re.compile(r"[()\[\]{}<=]")
_PAREN_TOK = re.compile(r"[()]")


def _match_angle(h: str, i: int) -> int:
    """Position of the ``>`` closing the ``<`` at ``h[i]`` or -1 if it is not a bracket."""
    depth, paren = 1, 0
    for m in _ANGLE_TOK.finditer(h, i + 1):
        c = m.group()
        if c in "([":
            paren += 1
        elif c in ")]":
            paren -= 1
            if paren < 0:
                return -1
        elif c not in "<>":
            return -1
        elif paren == 0:
            if c == "<":
                depth += 1
            elif h[m.start() - 1] not in "-=":
                depth -= 1
                if depth == 0:
                    return m.start()
    return -1


def _lhs(h: str) -> Tuple[str, bool]:
    """The head up to its first top-level ``=`` / ``=>`` with top-level ``<..>`` groups blanked
    (same positions as in ``h``), and whether such an ``=`` exists."""
    depth, skip_to = 0, 0
    for m in _LHS_TOK.finditer(h):
        c, i = m.group(), m.start()
        if i < skip_to:
            continue
        if c in "([{":
            depth += 1
        elif c in ")]}":
            depth -= 1
        elif depth == 0:
            if c == "<":
                j = _match_angle(h, i)
                if j > 0:
                    h = h[:i] + " " * (j + 1 - i) + h[j + 1:]
                    skip_to = j + 1
            elif h[i + 1:i + 2] == "=":
                skip_to = i + 2
            elif i == 0 or h[i - 1] not in "!<>=+-*/%&|^":
                return h[:i], True
    return h, False


def _params(h: str, p: int) -> Tuple[str, str]:
    """Text between the parenthesis at ``h[p]`` and its partner, and the text after the partner."""
    depth = 0
    for m in _PAREN_TOK.finditer(h, p):
        depth += 1 if m.group() == "(" else -1
        if depth == 0:
            return h[p + 1:m.start()], h[m.end():]
    return h[p + 1:], ""


def _parse_head(lang: str, head: str, scope_kind: str, opens: bool
                ) -> Tuple[Optional[Tuple[str, str, str]], bool]:
    """Classifies the head of a statement (``opens``: it is followed by ``{``) as ("type", keyword,
    name) | ("func", name, key) | ("var", name, "") | None; and whether it has a top-level ``=``."""
    attr = _LEAD_ATTR.get(lang)
    h = head
    while attr is not None:
        m = attr.match(h)
        if m is None:
            break
        h = h[m.end():]
    h = h.strip()
    if not h:
        return None, False
    if lang in ("cpp", "csharp") and "operator" in h:
        # ``operator==`` -> ``operator_3d3d``: an identifier, so that ``=``, ``<``, ``(`` are gone
        h = _OPERATOR.sub(lambda m: "operator_" + "".join(m.group(1).split()).encode().hex(), h)
    lhs, has_eq = _lhs(h)
    first = re.match(r"[\w$]+", lhs)
    first_word = first.group(0) if first else ""
    p = lhs.find("(")
    tm = _TYPE_KW.search(lhs, 0, p if p >= 0 else len(lhs))
    if tm is not None and (tm.group(2) or tm.group(1) == "namespace") and (
            tm.group(1) != "type" or (lang == "typescript" and has_eq)):
        if first_word in ("using", "friend", "typedef", "return"):
            return None, has_eq
        return ("type", " ".join(tm.group(1).split()), tm.group(2) or ""), has_eq
    nm = _FUNC_NAME.search(lhs[:p]) if p >= 0 else None
    if p >= 0 and nm is not None:  # (no name before the parenthesis: ``cb: (a: T) => void`` in TS)
        if nm.group(1) in _CTRL_KW or first_word in ("return", "throw", "delete"):
            return None, has_eq
        name = nm.group(1)
        before = lhs[:nm.start()].strip()
        if lang == "typescript":
            if scope_kind == "module" and not re.search(r"\bfunction\b", before):
                return None, has_eq          # a call at module level, not a declaration
            acc = re.search(r"\b(get|set)$", before)
            name = f"{acc.group(1)} {name}" if acc else name
        if lang == "cpp" and scope_kind == "module" and not opens and not before:
            return None, has_eq              # macro invocation / call, a prototype has a type
        params, after = _params(h, p)
        if lang == "cpp" and not opens and _CPP_LITERAL_ARGS.match(params):
            return ("var", name, ""), has_eq  # ``const std::string kX("..");`` is a variable
        key = f"{name}({_norm(params)})"
        if lang == "cpp" and re.match(r"\s*const\b", after):
            key += " const"
        return ("func", name, key), has_eq
    lhs = lhs.strip()
    if lang == "typescript":
        vm = _TS_VAR.match(lhs)
        if vm is None or vm.group(2) in _CTRL_KW or vm.group(2) in _STMT_KW:
            return None, has_eq
        if scope_kind == "module" and not re.search(r"\b(const|let|var)\b", vm.group(1)):
            return None, has_eq              # an assignment at module level
        return ("var", vm.group(2), ""), has_eq
    vm = _VAR_NAME.search(lhs)
    if vm is None or vm.group(1) in _CTRL_KW:
        return None, has_eq
    if lang == "cpp" and (first_word == "typedef" or (first_word == "using" and has_eq)):
        return ("type", "alias", vm.group(1)), has_eq
    if first_word in _STMT_KW:
        return None, has_eq
    return ("var", vm.group(1), ""), has_eq


_GO_FUNC = re.compile(r"func\s*(?:\(\s*(?:\w+\s+)?\*?\s*(\w+)\s*(?:\[[^\]]*\])?\s*\)\s*)?(\w+)\s*"
                      r"(?:\[[^\]]*\]\s*)?\(")
_GO_TYPE = re.compile(r"type\s+(\w+)\s*(?:\[[^\]]*\]\s*)?(=\s*)?(?:(struct|interface)\s*$)?")
_GO_NAMES = re.compile(r"(\w+(?:\s*,\s*\w+)*)(?:\s+\S|\s*=|\s*$)")
_GO_EMBED = re.compile(r"\*?\s*(?:\w+\.)?(\w+)\s*(?:\[[^\]]*\])?$")


def _parse_go(head: str, scope: _Scope) -> List[Tuple[str, str, str]]:
    """Declarations of one Go statement head: [(decl, name, key)]; a ``type`` that opens a struct
    or interface body has decl ``type:struct`` / ``type:interface``."""
    h = head.strip()
    if scope.group:
        h = f"{scope.group} {h}" if h else ""
    if not h:
        return []
    if scope.kind == "module":
        m = _GO_FUNC.match(h)
        if m is not None:
            params, _ = _params(h, m.end() - 1)
            name = f"{m.group(1)}.{m.group(2)}" if m.group(1) else m.group(2)
            return [("func", name, f"{name}({_norm(params)})")]
        m = _GO_TYPE.match(h)
        if m is not None:
            return [("type:" + m.group(3) if m.group(3) else "type", m.group(1), m.group(1))]
        m = re.match(r"(?:var|const)\s+", h)
        if m is not None:
            nm = _GO_NAMES.match(h, m.end())
            names = re.split(r"\s*,\s*", nm.group(1)) if nm else []
            return [("var", n, n) for n in names if n != "_"]
        return []
    if scope.kind == "interface-body":
        m = re.match(r"(\w+)\s*\(", h)
        if m is None:
            return []  # embedded interface / type constraint: repeating it is legal
        params, _ = _params(h, m.end() - 1)
        return [("func", m.group(1), f"{m.group(1)}({_norm(params)})")]
    m = _GO_EMBED.match(h)
    if m is not None:
        return [("var", m.group(1), m.group(1))]
    nm = _GO_NAMES.match(h)
    names = re.split(r"\s*,\s*", nm.group(1)) if nm else []
    return [("var", n, n) for n in names if n != "_"]


# ------------------------------------------------------------------ brace languages: walking

_TOK = re.compile(r"[{}()\[\];,\n]")
_TOK_NO_NL = re.compile(r"[{}()\[\];,]")
_BRACES = re.compile(r"[{}]")
_GO_END = re.compile(r"[\w)\]}\"'`]$")
_TS_END = re.compile(r"[\w$)\]}>\"'`?]$")
_TS_NEXT = re.compile(
    r"\s*(?:\}|(?:export|const|let|var|function|class|interface|enum|type|abstract|public|private|"
    r"protected|static|readonly|get|set|constructor|async|declare|namespace)\b|" + _ID +
    r"\s*[?!]?\s*[:(<])")
_ENUM_ITEM = re.compile(r"\s*(" + _ID + ")")


def _skip_block(text: str, pos: int) -> int:
    """``pos`` is just after a ``{``; returns the position just after its partner."""
    depth = 1
    for m in _BRACES.finditer(text, pos):
        depth += 1 if m.group() == "{" else -1
        if depth == 0:
            return m.end()
    return len(text)


def _scan_braces(lang: str, text: str) -> List[_Scope]:
    text = _clean(lang, text)
    go, ts = lang == "golang", lang == "typescript"
    tok = _TOK if go or ts else _TOK_NO_NL
    root = _Scope("", "module", "", lang)
    scopes, stack = [root], [root]
    namespaces: Dict[str, _Scope] = {}
    used: Dict[str, int] = {}
    pos = start = paren = 0

    def child(cur: _Scope, kind: str, name: str) -> _Scope:
        path = f"{cur.path}/{name or '<anon>'}" if cur.path else (name or "<anon>")
        if kind == "module":
            if path not in namespaces:
                namespaces[path] = _Scope(path, kind, "", lang)
                scopes.append(namespaces[path])
            return namespaces[path]
        used[path] = used.get(path, 0) + 1
        sc = _Scope(path if used[path] == 1 else f"{path}#{used[path]}", kind, name, lang)
        scopes.append(sc)
        return sc

    def enum_item(cur: _Scope, head: str) -> None:
        attr = _LEAD_ATTR.get(lang)
        while attr is not None and attr.match(head):
            head = head[attr.match(head).end():]  # type: ignore[union-attr]
        m = _ENUM_ITEM.match(head)
        if m is not None:
            cur.add("literal", m.group(1))

    def statement(cur: _Scope, head: str) -> None:
        """A head ended by ``;`` (or a terminating newline, a closing brace)."""
        if cur.enum_open:
            return enum_item(cur, head)
        if go:
            for decl, name, key in _parse_go(head, cur):
                cur.add(decl.split(":")[0], name, key)
            return
        parsed, _ = _parse_head(lang, head, cur.kind, False)
        if parsed is None:
            return
        what, a, b = parsed
        if what == "type":
            if a in ("type", "alias"):
                cur.add("type", b)  # other bodiless type heads are forward declarations
        elif what == "func":
            cur.add("func", a, b, False)
        else:
            cur.add("var", a)

    while True:
        m = tok.search(text, pos)
        if m is None:
            break
        c, i, pos = m.group(), m.start(), m.end()
        cur = stack[-1]
        if c in "([":
            if go and c == "(" and paren == 0 and not cur.group and cur.kind == "module" \
                    and text[start:i].strip() in ("const", "var", "type", "import"):
                grp = _Scope(cur.path, cur.kind, cur.name, lang)
                grp.decls, grp.group = cur.decls, text[start:i].strip()
                stack.append(grp)
                start = pos
            else:
                paren += 1
        elif c in ")]":
            if paren > 0:
                paren -= 1
            elif c == ")" and cur.group:
                statement(cur, text[start:i])
                stack.pop()
                start = pos
        elif c == "{":
            if paren > 0 or cur.enum_open or (go and (cur.kind != "module" or cur.group)):
                pos = _skip_block(text, pos)  # lambda / initialiser / inline type: head goes on
                continue
            head = text[start:i]
            if go:
                got = _parse_go(head, cur)
                if got and got[0][0].startswith("type:"):
                    cur.add("type", got[0][1])
                    stack.append(child(cur, got[0][0][5:] + "-body", got[0][1]))
                    start = pos
                    continue
                pos = _skip_block(text, pos)
                if got and got[0][0] == "func":
                    cur.add("func", got[0][1], got[0][2], True)
                    start = pos
                elif not got:
                    start = pos
                continue  # var / const / type with a composite literal or inline type: go on
            parsed, has_eq = _parse_head(lang, head, cur.kind, True)
            if has_eq and not (parsed and parsed[0] == "type" and parsed[1] != "type"):
                pos = _skip_block(text, pos)  # initialiser; the statement is recorded at its end
                continue
            if parsed is not None and parsed[0] == "type" and parsed[1] != "type":
                kw, name = parsed[1], parsed[2]
                kind = "enum-body" if kw.startswith("enum") else _BODY_OF[kw]
                if kind != "module":
                    cur.add("type", name)
                stack.append(child(cur, kind, name))
                start = pos
                continue
            pos = _skip_block(text, pos)
            if parsed is not None and parsed[0] == "func":
                cur.add("func", parsed[1], parsed[2], True)
            elif parsed is not None and parsed[0] == "var":
                cur.add("var", parsed[1])  # C# property, C++ brace-initialised variable
            start = pos
        elif c == "}":
            statement(cur, text[start:i])
            while len(stack) > 1 and stack[-1].group:
                stack.pop()
            if len(stack) > 1:
                stack.pop()
            paren, start = 0, pos
        elif paren > 0:
            continue
        elif c == ";":
            statement(cur, text[start:i])
            cur.enum_open = False  # Java: the literal list ends, members follow
            start = pos
        elif c == ",":
            if cur.enum_open:
                enum_item(cur, text[start:i])
                start = pos
        else:  # newline
            head = text[start:i].rstrip()
            if not head:
                continue
            if go:
                if not cur.enum_open and _GO_END.search(head):
                    statement(cur, head)
                    start = pos
            elif not cur.enum_open and _TS_END.search(head) and _TS_NEXT.match(text, pos) \
                    and not head.endswith("=>") and _lhs(head)[0].count("<") == 0:
                statement(cur, head)
                start = pos
    return scopes


# ------------------------------------------------------------------------------- JSON and XSD


class _Obj(dict):  # type: ignore[type-arg]
    """A JSON object that remembers all its pairs (document order, duplicates included)."""

    def __init__(self, pairs: List[Tuple[str, Any]]) -> None:
        super().__init__(pairs)
        self.pairs = pairs


def _scan_json(text: str) -> List[_Scope]:
    scopes: List[_Scope] = []

    def walk(node: Any, path: str, kind: str, name: str) -> None:
        if isinstance(node, _Obj):
            sc = _Scope(path, kind, name, "jsonschema")
            sc.flat = True
            scopes.append(sc)
            for k, v in node.pairs:
                sc.add("key", k)
                inner = k if kind == "definitions" else name  # name of the enclosing definition
                if k == "required" and isinstance(v, list):  # the only trace a dict-built schema
                    req = _Scope(f"{path}/required", "required", inner, "jsonschema")  # can show
                    req.flat = True
                    scopes.append(req)
                    for item in v:
                        req.add("element", str(item))
                sub = "definitions" if (path == "" and k == "definitions") else (
                    "properties" if k == "properties" else "other-body")
                walk(v, f"{path}/{k}" if path else k, sub, inner)
        elif isinstance(node, list):
            for n, v in enumerate(node):
                walk(v, f"{path}[{n}]", "other-body", name)

    walk(json.loads(text, object_pairs_hook=_Obj), "", "other-body", "")
    return scopes


def json_keys(out_dir: pathlib.Path) -> Dict[str, Any]:
    """{"definitions": [names, document order, with multiplicity],
        "properties": {definition name: [property names anywhere inside it, with multiplicity]}}"""
    root = json.loads((pathlib.Path(out_dir) / "schema.json").read_text(encoding="utf-8"),
                      object_pairs_hook=_Obj)
    res: Dict[str, Any] = {"definitions": [], "properties": {}}

    def props(node: Any, acc: List[str], is_props: bool) -> None:
        if isinstance(node, _Obj):
            for k, v in node.pairs:
                if is_props:
                    acc.append(k)
                props(v, acc, k == "properties" and not is_props)
        elif isinstance(node, list):
            for v in node:
                props(v, acc, False)

    defs = [v for k, v in getattr(root, "pairs", []) if k == "definitions"]
    for d in defs:
        for k, v in getattr(d, "pairs", []):
            res["definitions"].append(k)
            props(v, res["properties"].setdefault(k, []), False)
    return res


def _local(tag: Any) -> str:
    return tag.rsplit("}", 1)[-1] if isinstance(tag, str) else ""


def xsd_names(out_dir: pathlib.Path) -> Dict[str, List[str]]:
    """{local tag of a root child: [its ``name`` attributes, document order, with multiplicity]}"""
    root = ET.fromstring((pathlib.Path(out_dir) / "schema.xsd").read_text(encoding="utf-8"))
    res: Dict[str, List[str]] = {}
    for ch in root:
        tag, name = _local(ch.tag), ch.get("name")
        if name is not None and tag:
            res.setdefault(tag, []).append(name)
    return res


def _scan_xsd(text: str) -> List[_Scope]:
    root = ET.fromstring(text)
    by_tag: Dict[str, _Scope] = {}
    types = _Scope("types", "types", "", "xsd")
    seen_types: Dict[str, str] = {}
    for ch in root:
        tag, name = _local(ch.tag), ch.get("name")
        if name is None or not tag:
            continue
        sc = by_tag.setdefault(tag, _Scope(f"xs:{tag}", f"xs:{tag}", "", "xsd"))
        sc.flat = True
        sc.add("element", name)
        if tag in ("simpleType", "complexType"):
            if seen_types.setdefault(name, tag) != tag:  # same-tag repeats are reported above
                types.add("type", name)
                types.add("type", name)
    types.flat = True
    scopes = [by_tag[t] for t in sorted(by_tag)] + [types]

    def walk(node: ET.Element, named: str, path: str) -> None:
        named = node.get("name") or named
        here = f"{path}/{_local(node.tag)}" + (f"[{node.get('name')}]" if node.get("name") else "")
        if _local(node.tag) in ("sequence", "choice", "all"):
            sc = _Scope(here, "sequence", named, "xsd")
            sc.flat = True
            for ch in node:
                if _local(ch.tag) == "element" and ch.get("name") is not None:
                    sc.add("element", ch.get("name") or "")
            scopes.append(sc)
        for ch in node:
            walk(ch, named, here)

    for ch in root:
        walk(ch, "", "")
    return scopes


# --------------------------------------------------------------------------------------- API


def _is_test(target: str, rel: str) -> bool:
    parts = rel.split("/")
    if target == "python":
        return rel.startswith("dev/tests/")
    if target == "csharp":
        return any(p.endswith(".Tests") for p in parts[:-1])
    if target == "golang":
        return ("test" in parts[:-1] or rel.endswith("_test.go") or "aastesting" in parts[:-1]
                or any(p.endswith("_test") for p in parts[:-1]))
    if target == "java":
        return rel.startswith("src/test/")
    return target in ("typescript", "cpp") and parts[0] == "test"


def _files(target: str, out_dir: pathlib.Path) -> List[Tuple[str, str, pathlib.Path]]:
    """[(relative posix path, file class, path)] of the non-test files of the target, sorted."""
    if target == "jsonschema":
        found = [out_dir / "schema.json"]
    elif target == "xsd":
        found = [out_dir / "schema.xsd"]
    else:
        found = [p for p in out_dir.rglob("*") if p.suffix in _EXT[target] and p.is_file()]
    rels = sorted((p.relative_to(out_dir).as_posix(), p) for p in found if p.is_file())
    rels = [(r, p) for r, p in rels if not _is_test(target, r)]
    java_root = ""
    if target == "java":  # the package root = the deepest directory that contains all the files
        dirs = sorted({posixpath.dirname(r) for r, _ in rels})
        java_root = (posixpath.commonpath(dirs) if len(dirs) > 1
                     else posixpath.dirname("".join(dirs)))
    res = []
    for rel, p in rels:
        cls = p.name if target == "cpp" else p.stem
        if target == "java":
            cls = posixpath.relpath(posixpath.dirname(rel), java_root or ".")
        res.append((rel, cls, p))
    return res


def _scan_all(target: str, out_dir: pathlib.Path) -> Iterator[Tuple[str, str, Any]]:
    """(relative file, file class, scopes | the exception of the scan) of every non-test file."""
    scan = {"python": _scan_python, "jsonschema": _scan_json, "xsd": _scan_xsd}.get(target)
    for rel, cls, path in _files(target, pathlib.Path(out_dir)):
        try:  # never raise on weird input
            text = path.read_text(encoding="utf-8", errors="replace")
            yield rel, cls, (scan(text) if scan else _scan_braces(target, text))
        except Exception as e:  # noqa: BLE001
            yield rel, cls, e


def duplicates(target: str, out_dir: pathlib.Path) -> List[Dict[str, str]]:
    """Every duplicate declaration found in the generated NON-TEST files of ``out_dir``: one item
    per repeated occurrence, {"file", "scope", "scope_name", "decl", "name", "sig"}, sorted.
    A Python file that does not parse / compile gives scope "unparsable", decl "file"."""
    res: List[Dict[str, str]] = []
    for rel, cls, scopes in _scan_all(target, out_dir):
        if isinstance(scopes, Exception):
            name = type(scopes).__name__
            found = [("unparsable", "", "file", name)] if target == "python" else []
        else:
            found = [(sc.kind, sc.name, decl, name) for sc in scopes for decl, name in sc.dups()]
        for kind, scope_name, decl, name in found:
            res.append({"file": rel, "scope": kind, "scope_name": scope_name, "decl": decl,
                        "name": name, "sig": f"C21:{target}:{cls}:{kind}:{decl}"})
    res.sort(key=lambda d: (d["file"], d["scope"], d["scope_name"], d["decl"], d["name"]))
    return res


def declared(target: str, out_dir: pathlib.Path) -> Dict[str, List[Tuple[str, str, str]]]:
    """{"<relative file>::<scope path>": [(decl kind, name, signature key), ...]} for every scope
    block scanned (debugging / coverage)."""
    res: Dict[str, List[Tuple[str, str, str]]] = {}
    for rel, _, scopes in _scan_all(target, out_dir):
        for sc in ([] if isinstance(scopes, Exception) else scopes):
            res.setdefault(f"{rel}::{sc.path}", []).extend((d, n, k) for d, n, k, _ in sc.decls)
    return res
